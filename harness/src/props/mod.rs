use crate::core::iso::IsoSpace;
use crate::core::report::{Ctx, Finding, Run, Tier};
use serde_json::Value;

pub struct Prop {
    pub run: fn(&Ctx) -> Result<Run, String>,
    pub replay: fn(&Ctx, &Value) -> Result<Vec<Finding>, String>,
}

macro_rules! props {
    ($($id:literal => $m:ident),* $(,)?) => {
        $(pub mod $m;)*
        pub fn lookup(id: &str) -> Option<Prop> {
            Some(match id {
                $($id => Prop { run: $m::run, replay: $m::replay },)*
                _ => return None,
            })
        }
    };
}

pub mod common;
pub mod inst;
pub mod vault;
pub mod c15_scale;
pub mod sigshape;

props! {
    "C01" => c01,
    "C02" => c02,
    "C03" => c03,
    "C04" => c04,
    "C05" => c05,
    "C06" => c06,
    "C07" => c07,
    "C08" => c08,
    "C09" => c09,
    "C10" => c10,
    "C11" => c11,
    "C12" => c12,
    "C13" => c13,
    "C14" => c14,
    "C15" => c15,
    "C16" => c16,
    "C17" => c17,
    "C18" => c18,
    "C19" => c19,
}

pub fn iso_space(prop: &str, mode: &str, tier: Tier) -> Option<Box<dyn IsoSpace>> {
    match prop {
        "C18" => match mode.strip_prefix("one:") {
            Some(i) => Some(Box::new(c18::OneOf { inner: c18::space(tier), idx: i.parse().ok()? })),
            None => Some(Box::new(c18::space(tier))),
        },
        "C15" if mode == "scale" => Some(Box::new(c15_scale::ScaleSpace::new(tier))),
        "C15" if mode.starts_with("scale-one:") => Some(Box::new(c15_scale::OneScale { inner: c15_scale::ScaleSpace::new(tier), idx: mode.strip_prefix("scale-one:")?.parse().ok()? })),
        "C15" => match mode.strip_prefix("one:") {
            Some(i) => Some(Box::new(c15::OneOf { inner: c15::Space::new(tier), idx: i.parse().ok()? })),
            None => Some(Box::new(c15::Space::new(tier))),
        },
        _ => None,
    }
}
