use crate::core::iso::IsoSpace;
use crate::core::report::{Ctx, Finding, Run, Tier};
use serde_json::Value;

pub struct Prop {
    pub run: fn(&Ctx) -> Result<Run, String>,
    pub replay: fn(&Ctx, &Value) -> Result<Vec<Finding>, String>,
}

pub mod c04;

pub fn lookup(id: &str) -> Option<Prop> {
    Some(match id {
        "C04" => Prop { run: c04::run, replay: c04::replay },
        _ => return None,
    })
}

pub fn iso_space(_prop: &str, _mode: &str, _tier: Tier) -> Option<Box<dyn IsoSpace>> {
    None
}
