//! C01 – RP ID is bound to the origin at a label boundary and is a registrable domain.
use crate::core::exec::block_on;
use crate::core::par;
use crate::core::report::*;
use crate::drivers::*;
use crate::oracles::psl::{tail, Psl};
use crate::oracles::punycode;
use passkey_authenticator::Authenticator;
use passkey_client::{Client, DefaultClientData, Origin, RpIdVerifier, UnverifiedAssetLink, WebauthnError};
use passkey_types::ctap2::Aaguid;
use passkey_types::webauthn;
use public_suffix::EffectiveTLDProvider;
use serde::{Deserialize, Serialize};
use serde_json::{json, Value};
use sha2::{Digest, Sha256};
use std::sync::Arc;
use url::Url;

const CUSTOM_RULES: &str = "corp\nintra.corp\n*.lab\n!gate.lab\n公司.test\ntest\n";

/// Custom provider defined by the harness: the reference matcher over CUSTOM_RULES, accepting the
/// name in A-label or U-label spelling.
#[derive(Clone)]
pub struct CustomProvider(pub Arc<Psl>);
/// The same provider, refusing with another error variant (a provider is free to choose):
/// 1 = InvalidPublicSuffix, 2 = EmptyLabel.
#[derive(Clone)]
pub struct CustomProviderErr(pub Arc<Psl>, pub u8);
impl EffectiveTLDProvider for CustomProviderErr {
    fn effective_tld_plus_one<'a>(&self, domain: &'a str) -> Result<&'a str, public_suffix::Error> {
        // variant 4: a provider that panics where another one returns an error (user-supplied code
        // may do that); the lookup did not succeed, so nothing may be accepted on its strength
        CustomProvider(self.0.clone()).effective_tld_plus_one(domain).map_err(|_| match self.1 {
            1 => public_suffix::Error::InvalidPublicSuffix,
            4 => panic!("injected: the suffix provider panicked"),
            _ => public_suffix::Error::EmptyLabel,
        })
    }
}
impl EffectiveTLDProvider for CustomProvider {
    fn effective_tld_plus_one<'a>(&self, domain: &'a str) -> Result<&'a str, public_suffix::Error> {
        if !Psl::well_formed(domain) {
            return Err(public_suffix::Error::EmptyLabel);
        }
        let ascii = punycode::to_ascii(&domain.to_lowercase()).ok_or(public_suffix::Error::CannotDeriveETldPlus1)?;
        let labels: Vec<&str> = ascii.split('.').collect();
        let k = self.0.suffix_labels(&labels);
        if labels.len() <= k {
            return Err(public_suffix::Error::CannotDeriveETldPlus1);
        }
        Ok(tail(domain, k + 1))
    }
}
fn parse_custom() -> Psl {
    // Psl::parse insists on a big list; build by hand
    let mut p = Psl { normal: Default::default(), wildcard: Default::default(), exception: Default::default(), rules: vec![], unicode_rules: vec![] };
    for rule in CUSTOM_RULES.lines() {
        if let Some(r) = rule.strip_prefix('!') {
            p.exception.insert(punycode::to_ascii(r).unwrap());
        } else if let Some(r) = rule.strip_prefix("*.") {
            p.wildcard.insert(punycode::to_ascii(r).unwrap());
        } else {
            p.normal.insert(punycode::to_ascii(rule).unwrap());
        }
        p.rules.push(rule.to_string());
    }
    p
}

#[derive(Clone, Debug, Serialize, Deserialize, PartialEq, Eq, Hash)]
pub struct Case {
    /// "web" or "android"
    pub kind: String,
    /// full URL for web origins, asset-link host for android
    pub origin: String,
    pub rp: Option<String>,
    pub localhost: bool,
    pub custom_provider: bool,
    /// also drive Client::register / Client::authenticate
    pub through_client: bool,
    /// custom provider only: error variant it refuses with (0 = CannotDeriveETldPlus1 / EmptyLabel
    /// as the shipped one, 1 = always InvalidPublicSuffix, 2 = always EmptyLabel)
    #[serde(default)]
    pub custom_err: u8,
}

#[derive(Clone, Copy, PartialEq, Debug)]
enum HostKind {
    Dns,
    Ip,
}

const HOSTS: &[(&str, HostKind)] = &[
    ("example.com", HostKind::Dns),
    ("www.example.com", HostKind::Dns),
    ("a.b.example.com", HostKind::Dns),
    ("evilexample.com", HostKind::Dns),
    ("example.com.evil.org", HostKind::Dns),
    ("ample.com", HostKind::Dns),
    ("example.co.uk", HostKind::Dns),
    ("www.example.co.uk", HostKind::Dns),
    ("co.uk", HostKind::Dns),
    ("com", HostKind::Dns),
    ("foo.ck", HostKind::Dns),
    ("bar.foo.ck", HostKind::Dns),
    ("www.ck", HostKind::Dns),
    ("sub.www.ck", HostKind::Dns),
    ("x.kawasaki.jp", HostKind::Dns),
    ("y.x.kawasaki.jp", HostKind::Dns),
    ("city.kawasaki.jp", HostKind::Dns),
    ("www.city.kawasaki.jp", HostKind::Dns),
    ("localhost", HostKind::Dns),
    ("notlocalhost", HostKind::Dns),
    ("foo.localhost", HostKind::Dns),
    ("localhost.example.com", HostKind::Dns),
    ("intranet", HostKind::Dns),
    ("xn--55qx5d.cn", HostKind::Dns),
    ("www.xn--55qx5d.cn", HostKind::Dns),
    ("a.www.xn--55qx5d.cn", HostKind::Dns),
    ("xn--fiqs8s", HostKind::Dns),
    ("shop.xn--fiqs8s", HostKind::Dns),
    ("xn--bcher-kva.example.com", HostKind::Dns),
    ("xn--bcher-kva.com", HostKind::Dns),
    ("example.com.", HostKind::Dns),
    ("example..com", HostKind::Dns),
    ("github.io", HostKind::Dns),
    ("user.github.io", HostKind::Dns),
    ("blogspot.com", HostKind::Dns),
    ("me.blogspot.com", HostKind::Dns),
    ("127.0.0.1", HostKind::Ip),
    ("10.1.2.3", HostKind::Ip),
    ("[::1]", HostKind::Ip),
    ("[2001:db8::1]", HostKind::Ip),
    // custom provider
    ("host.corp", HostKind::Dns),
    ("a.intra.corp", HostKind::Dns),
    ("intra.corp", HostKind::Dns),
    ("x.y.lab", HostKind::Dns),
    ("gate.lab", HostKind::Dns),
    ("xn--55qx5d.test", HostKind::Dns),
    ("www.xn--55qx5d.test", HostKind::Dns),
];
/// the allowed scheme in both cases, the other well-known ones, and near misses of "https": a
/// character more or less on either side (non-special schemes: `Url::domain()` answers for them)
const SCHEMES: &[&str] = &["https", "HTTPS", "http", "ws", "wss", "ftp", "httpsx", "https2", "https-x", "https+unix", "xhttps", "htt", "s"];
const PORTS: &[&str] = &["", ":443", ":8443"];
/// schemes that wrap or quote another URL
const WRAPPERS: &[&str] = &["blob:", "BLOB:", "filesystem:", "view-source:", "jar:", "about:", "data:text/html,", "javascript:", "intent:", "android-app:", "blob:blob:"];

pub fn dict_hosts() -> Vec<String> {
    let mut v = vec![];
    for l in crate::core::dict::source_literals(&["passkey-client", "public-suffix"], 24) {
        let Ok(t) = String::from_utf8(l) else { continue };
        let t = t.to_ascii_lowercase();
        if t.is_empty() || !t.bytes().all(|b| b.is_ascii_alphanumeric() || b == b'.' || b == b'-') || !t.bytes().any(|b| b.is_ascii_alphanumeric()) || t.starts_with(['.', '-']) || t.ends_with(['.', '-']) || t.contains("..") {
            continue;
        }
        v.push(t.clone());
        v.push(format!("foo.{t}"));
        v.push(format!("{t}.example.com"));
        v.push(format!("x{t}"));
        v.push(format!("{t}x"));
    }
    v.sort();
    v.dedup();
    v.retain(|h| !HOSTS.iter().any(|(k, _)| k == h));
    v
}

fn host_kind(host: &str) -> HostKind {
    let h = host.trim_start_matches('[').trim_end_matches(']');
    if h.parse::<std::net::IpAddr>().is_ok() {
        HostKind::Ip
    } else {
        HostKind::Dns
    }
}

fn rp_ids_for(host: &str) -> Vec<Option<String>> {
    let mut v: Vec<Option<String>> = vec![None];
    // every character-level suffix (contains the equal case, aligned and non-aligned ones, "")
    for (i, _) in host.char_indices() {
        v.push(Some(host[i..].to_string()));
    }
    v.push(Some(String::new()));
    v.push(Some(format!("www.{host}")));
    v.push(Some(host.to_uppercase()));
    v.push(Some(format!(".{host}")));
    v.push(Some(format!("{host}.")));
    v.push(Some("unrelated.org".into()));
    v.push(Some("localhost".into()));
    // the host, and its parent domain, with a port tail (the ports the origins use, their scheme
    // defaults, and a zero-padded spelling): an RP ID is a domain, never host:port
    for port in ["443", "8443", "80", "8080", "0443"] {
        v.push(Some(format!("{host}:{port}")));
        if let Some((_, parent)) = host.split_once('.') {
            v.push(Some(format!("{parent}:{port}")));
        }
    }
    if let Some(u) = idna_unicode(host) {
        v.push(Some(u));
    }
    v
}
fn idna_unicode(host: &str) -> Option<String> {
    if host.contains("xn--") {
        let (u, r) = idna::domain_to_unicode(host);
        r.ok().map(|_| u)
    } else {
        None
    }
}

pub struct World {
    pub psl: Psl,
    pub custom: Arc<Psl>,
    /// reference for the second generated table (oracles/tinytable.rs)
    pub tiny: Psl,
}
impl World {
    pub fn load() -> Result<World, String> {
        Ok(World { psl: Psl::load(super::c10::DAT)?, custom: Arc::new(parse_custom()), tiny: crate::oracles::tinytable::reference() })
    }
    fn registrable3(&self, custom: bool, err: u8, r: &str) -> bool {
        if custom && err == 3 {
            self.tiny.registrable(r)
        } else {
            self.registrable(custom, r)
        }
    }
    fn registrable(&self, custom: bool, r: &str) -> bool {
        if custom {
            self.custom.registrable(r)
        } else {
            self.psl.registrable(r)
        }
    }
}

#[derive(Debug, Clone, PartialEq)]
enum Verdict {
    Accepted(String),
    Rejected(String),
    Unbuildable,
}

fn verify(w: &World, c: &Case) -> (Verdict, Option<(String, String)>) {
    verify_h(w, c, false)
}
/// `reconfigured`: the verifier reaches its localhost setting through the opposite setting first
fn verify_h(w: &World, c: &Case, reconfigured: bool) -> (Verdict, Option<(String, String)>) {
    // returns verdict and (scheme, host) as the harness sees the origin
    let rp = c.rp.as_deref();
    macro_rules! go {
        ($v:expr) => {{
            let v = if reconfigured { $v.allows_insecure_localhost(!c.localhost).allows_insecure_localhost(c.localhost) } else { $v.allows_insecure_localhost(c.localhost) };
            if c.kind == "web" {
                let Ok(url) = Url::parse(&c.origin) else { return (Verdict::Unbuildable, None) };
                let scheme = url.scheme().to_string();
                let host = url.host_str().unwrap_or("").to_string();
                let origin: Origin = (&url).into();
                let r = v.assert_domain(&origin, rp).map(|s| s.to_string());
                (to_verdict(r), Some((scheme, host)))
            } else {
                let link = match UnverifiedAssetLink::new("com.example.app", FP, c.origin.as_str(), Url::parse("https://assets.example.com/.well-known/assetlinks.json").unwrap()) {
                    Ok(l) => l,
                    Err(_) => return (Verdict::Unbuildable, None),
                };
                let origin = Origin::Android(link);
                let r = v.assert_domain(&origin, rp).map(|s| s.to_string());
                (to_verdict(r), Some((String::new(), c.origin.clone())))
            }
        }};
    }
    if c.custom_provider && c.custom_err == 3 {
        // the shipped generic list provider over a second, hand-encoded table
        go!(RpIdVerifier::new(crate::oracles::tinytable::TINY))
    } else if c.custom_provider && c.custom_err != 0 {
        go!(RpIdVerifier::new(CustomProviderErr(w.custom.clone(), c.custom_err)))
    } else if c.custom_provider {
        go!(RpIdVerifier::new(CustomProvider(w.custom.clone())))
    } else {
        go!(RpIdVerifier::new(public_suffix::DEFAULT_PROVIDER))
    }
}
fn to_verdict(r: Result<String, WebauthnError>) -> Verdict {
    match r {
        Ok(s) => Verdict::Accepted(s),
        Err(e) => Verdict::Rejected(format!("{e:?}")),
    }
}
pub const FP: &str = "B3:5B:68:D5:CE:84:50:55:7C:6A:55:FD:64:B5:1F:EA:C1:10:CB:36:D6:A3:52:1C:59:48:DB:3A:38:0A:34:A9";

/// The reference: may (origin host, rp) be accepted, and with which effective RP ID?
fn oracle(w: &World, c: &Case, scheme: &str, host: &str, accepted: &str) -> Vec<(&'static str, String)> {
    let mut v = vec![];
    let web = c.kind == "web";
    let effective = c.rp.clone().unwrap_or_else(|| host.to_string());
    if accepted != effective {
        v.push(("wrong-effective-rp-id", format!("accepted with {accepted:?}, effective RP ID is {effective:?}")));
    }
    let r = accepted;
    if host_kind(host) != HostKind::Dns || host.is_empty() {
        v.push(("non-dns-host-accepted", format!("origin host {host:?} is not a DNS name")));
    }
    let aligned = !r.is_empty() && (r == host || host.ends_with(&format!(".{r}")));
    if !aligned {
        v.push(("rp-not-label-aligned", format!("RP ID {r:?} is neither the host {host:?} nor a suffix of it starting at a label boundary")));
    }
    let localhost_exception = c.localhost && r == "localhost" && host == "localhost";
    if !localhost_exception {
        if r == "localhost" {
            v.push((if c.localhost { "localhost-exception-for-other-host" } else { "localhost-without-opt-in" }, format!("RP ID localhost accepted for host {host:?} (insecure localhost enabled: {})", c.localhost)));
        } else if !w.registrable3(c.custom_provider, c.custom_err, r) {
            v.push(("public-suffix-accepted", format!("RP ID {r:?} is not a registrable domain under the {} list", if c.custom_provider { "custom" } else { "shipped" })));
        }
        if web && !scheme.eq_ignore_ascii_case("https") {
            v.push(("non-https-accepted", format!("scheme {scheme:?}")));
        }
    }
    v
}

pub fn eval(w: &World, c: &Case) -> (Vec<Finding>, String, bool) {
    let case = serde_json::to_value(c).unwrap();
    let mut fs = vec![];
    let (verdict, sh) = match par::catch(|| verify(w, c)) {
        Ok(x) => x,
        // the harness's own provider panicked and the panic came through: no verdict, nothing accepted
        Err(p) if c.custom_err == 4 && p.contains("injected:") => return (fs, "provider-panic-propagated".into(), false),
        Err(p) => {
            fs.push(Finding::new(format!("origin={}/kind=panic/site={}", c.kind, par::panic_site(&p)), format!("assert_domain panicked: {p}"), case));
            return (fs, "panic".into(), true);
        }
    };
    let (scheme, host) = sh.unwrap_or_default();
    let class;
    let mut nontrivial = false;
    match &verdict {
        Verdict::Unbuildable => class = "unbuildable-origin".to_string(),
        Verdict::Rejected(e) => class = format!("rejected:{e}"),
        Verdict::Accepted(r) => {
            nontrivial = true;
            class = format!("accepted:{}", c.kind);
            for (kind, d) in oracle(w, c, &scheme, &host, r) {
                fs.push(Finding::new(format!("origin={}/kind={kind}", c.kind), format!("{d}; origin={:?} rp={:?} localhost={} custom={}", c.origin, c.rp, c.localhost, c.custom_provider), case.clone()));
            }
        }
    }
    // is_valid_rp_id on the RP ID string itself
    if let Some(rp) = &c.rp {
        let valid = par::catch(|| {
            if c.custom_provider && c.custom_err == 3 {
                RpIdVerifier::new(crate::oracles::tinytable::TINY).allows_insecure_localhost(c.localhost).is_valid_rp_id(rp)
            } else if c.custom_provider && c.custom_err != 0 {
                RpIdVerifier::new(CustomProviderErr(w.custom.clone(), c.custom_err)).allows_insecure_localhost(c.localhost).is_valid_rp_id(rp)
            } else if c.custom_provider {
                RpIdVerifier::new(CustomProvider(w.custom.clone())).allows_insecure_localhost(c.localhost).is_valid_rp_id(rp)
            } else {
                RpIdVerifier::new(public_suffix::DEFAULT_PROVIDER).allows_insecure_localhost(c.localhost).is_valid_rp_id(rp)
            }
        });
        match valid {
            Err(p) if c.custom_err == 4 && p.contains("injected:") => {}
            Err(p) => fs.push(Finding::new(format!("origin=any/kind=is-valid-rp-id-panic/site={}", par::panic_site(&p)), format!("is_valid_rp_id({rp:?}) panicked: {p}"), case.clone())),
            Ok(true) => {
                if !(w.registrable3(c.custom_provider, c.custom_err, rp) || (rp == "localhost" && c.localhost)) {
                    fs.push(Finding::new("origin=any/kind=is-valid-rp-id-accepts-public-suffix", format!("is_valid_rp_id({rp:?}) = true but it is not registrable (custom={})", c.custom_provider), case.clone()));
                }
            }
            Ok(false) => {}
        }
    }
    if c.through_client || c.origin.contains("localhost") {
        let (again, _) = verify_h(w, c, true);
        if again != verdict {
            fs.push(Finding::new(format!("origin={}/kind=builder-history-changes-verdict", c.kind), format!("a verifier set to allows_insecure_localhost({}) after having been set to the opposite answers {again:?}, a verifier set directly answers {verdict:?}; origin={:?} rp={:?}", c.localhost, c.origin, c.rp), case.clone()));
        }
    }
    if c.through_client && c.kind == "web" && !c.custom_provider {
        fs.extend(through_client(w, c, &verdict, &case));
    }
    (fs, class, nontrivial)
}

fn through_client(_w: &World, c: &Case, verdict: &Verdict, case: &Value) -> Vec<Finding> {
    let mut fs = vec![];
    let Ok(url) = Url::parse(&c.origin) else { return fs };
    // the client reaches its localhost setting directly (0), through the opposite setting (1), or
    // through its own, the opposite and its own again (2): only the last call counts
    for (op, builder) in [("register", 0u8), ("authenticate", 0), ("register", 1), ("authenticate", 2)] {
        let log = Log::new();
        let seeded_rp = match verdict {
            Verdict::Accepted(r) => r.clone(),
            _ => c.rp.clone().unwrap_or_default(),
        };
        let store = Shared::new(RefStore::with(vec![seeded(&Seed { n: 1, rp: seeded_rp.clone(), handle: Some(vec![1]), counter: Some(1), hmac: None })]));
        let auth = Authenticator::new(Aaguid::new_empty(), Logging { inner: store.clone(), log: log.clone() }, ScriptedUv::consenting(log.clone()));
        let mut client = match builder {
            0 => Client::new(auth).allows_insecure_localhost(c.localhost),
            1 => Client::new(auth).allows_insecure_localhost(!c.localhost).allows_insecure_localhost(c.localhost),
            _ => Client::new(auth).allows_insecure_localhost(c.localhost).allows_insecure_localhost(!c.localhost).allows_insecure_localhost(c.localhost),
        };
        let res: Result<(Vec<u8>, Vec<u8>), String> = par::catch(|| {
            if op == "register" {
                let opts = webauthn::CredentialCreationOptions {
                    public_key: webauthn::PublicKeyCredentialCreationOptions {
                        rp: webauthn::PublicKeyCredentialRpEntity { id: c.rp.clone(), name: "x".into() },
                        user: webauthn::PublicKeyCredentialUserEntity { id: vec![9, 9].into(), name: "u".into(), display_name: "U".into() },
                        challenge: vec![1, 2, 3, 4].into(),
                        pub_key_cred_params: vec![es256_param()],
                        timeout: ambient_timeout(),
                        exclude_credentials: None,
                        authenticator_selection: None,
                        hints: ambient_hints(),
                        attestation: Default::default(),
                        attestation_formats: None,
                        extensions: None,
                    },
                };
                block_on(client.register(&url, opts, DefaultClientData)).map(|cr| (cr.response.authenticator_data.to_vec(), cr.raw_id.to_vec())).map_err(|e| format!("{e:?}"))
            } else {
                let opts = webauthn::CredentialRequestOptions {
                    public_key: webauthn::PublicKeyCredentialRequestOptions {
                        challenge: vec![1, 2, 3, 4].into(),
                        timeout: ambient_timeout(),
                        rp_id: c.rp.clone(),
                        allow_credentials: None,
                        user_verification: Default::default(),
                        hints: ambient_hints(),
                        attestation: Default::default(),
                        attestation_formats: None,
                        extensions: None,
                    },
                };
                block_on(client.authenticate(&url, opts, DefaultClientData)).map(|cr| (cr.response.authenticator_data.to_vec(), cr.raw_id.to_vec())).map_err(|e| format!("{e:?}"))
            }
        })
        .unwrap_or_else(|p| Err(format!("PANIC {p}")));
        let events = log.take();
        let touched: Vec<&Event> = events.iter().filter(|e| !matches!(e, Event::Info)).collect();
        match verdict {
            Verdict::Accepted(r) => {
                let want_hash = Sha256::digest(r.as_bytes()).to_vec();
                match &res {
                    Ok((ad, _)) => {
                        if ad.len() < 32 || ad[..32] != want_hash[..] {
                            fs.push(Finding::new(format!("client={op}/kind=rp-id-hash-differs"), format!("authenticator data does not carry SHA-256 of the accepted RP ID {r:?}"), case.clone()));
                        }
                    }
                    Err(e) => fs.push(Finding::new(format!("client={op}/kind=accepted-pair-fails"), format!("assert_domain accepts the pair with {r:?} but Client::{op} fails: {e}"), case.clone())),
                }
                for e in &touched {
                    let seen_rp = match e {
                        Event::Find { rp, .. } => Some(rp.clone()),
                        Event::Save { rp_id, rp_arg, .. } => {
                            if rp_id != rp_arg {
                                Some(format!("{rp_id}|{rp_arg}"))
                            } else {
                                Some(rp_id.clone())
                            }
                        }
                        _ => None,
                    };
                    if let Some(s) = seen_rp {
                        if s != *r {
                            fs.push(Finding::new(format!("client={op}/kind=store-sees-other-rp-id"), format!("store received RP ID {s:?}, accepted effective RP ID is {r:?}"), case.clone()));
                        }
                    }
                }
            }
            Verdict::Rejected(_) => {
                if res.is_ok() {
                    fs.push(Finding::new(format!("client={op}/kind=rejected-pair-succeeds"), "assert_domain rejects the pair but the client ceremony succeeded".to_string(), case.clone()));
                }
                if !touched.is_empty() {
                    fs.push(Finding::new(format!("client={op}/kind=rejected-pair-reaches-authenticator"), format!("rejected pair caused authenticator/store activity: {:?}", touched.iter().map(|e| e.kind()).collect::<Vec<_>>()), case.clone()));
                }
            }
            Verdict::Unbuildable => {}
        }
    }
    fs
}

pub fn cases(w: &World, tier: Tier) -> Vec<Case> {
    let mut v = vec![];
    // dictionary-derived hosts (millions) meet the shipped provider and the harness provider only;
    // the other provider variants meet the fixed host table
    let in_dictionary_part = std::cell::Cell::new(false);
    let mut push = |kind: &str, origin: String, rp: Option<String>, tc: bool| {
        for localhost in [false, true] {
            for custom_provider in [false, true] {
                v.push(Case { kind: kind.into(), origin: origin.clone(), rp: rp.clone(), localhost, custom_provider, through_client: tc && !custom_provider, custom_err: 0 });
                if custom_provider && !localhost && !in_dictionary_part.get() {
                    for custom_err in [1u8, 2, 3, 4] {
                        v.push(Case { kind: kind.into(), origin: origin.clone(), rp: rp.clone(), localhost, custom_provider, through_client: false, custom_err });
                    }
                }
            }
        }
    };
    for (host, _) in HOSTS {
        for rp in rp_ids_for(host) {
            for scheme in SCHEMES {
                for port in PORTS {
                    // the client-level drive is done for the plain https/no-port and http spellings
                    let tc = port.is_empty() && (*scheme == "https" || *scheme == "http");
                    push("web", format!("{scheme}://{host}{port}/path?q=1"), rp.clone(), tc);
                }
            }
            let bare = host.trim_start_matches('[').trim_end_matches(']');
            push("android", bare.to_string(), rp.clone(), false);
        }
    }
    // URLs whose scheme wraps another URL (the url crate computes a tuple origin for `blob:` from the
    // inner URL), and opaque-origin schemes that merely carry a host-like text: none has a host of
    // its own, so none may be accepted
    for host in ["example.com", "www.example.com", "a.b.example.com", "www.example.co.uk", "co.uk", "localhost", "foo.localhost", "127.0.0.1", "user.github.io", "host.corp", "www.xn--55qx5d.cn"] {
        for wrapper in WRAPPERS {
            for inner in ["https", "http"] {
                let origin = format!("{wrapper}{inner}://{host}/5b1d0b5e-8a53-4a0c-9d5f-0d2b7f0f3a11");
                let mut rps = vec![None, Some(host.to_string())];
                if let Some((_, parent)) = host.split_once('.') {
                    rps.push(Some(parent.to_string()));
                }
                for rp in rps {
                    push("web", origin.clone(), rp, false);
                }
            }
        }
    }
    // host names built from the constants dictionary: every literal in the client and
    // public-suffix sources that can be a host label or name, alone, below a registrable
    // domain, above one, and with a letter glued on either side
    in_dictionary_part.set(true);
    for host in dict_hosts() {
        for rp in rp_ids_for(&host) {
            push("web", format!("https://{host}/"), rp.clone(), false);
            push("android", host.clone(), rp.clone(), false);
        }
    }
    // every rule of the shipped list as RP ID of an origin one label below it
    let mut seen = std::collections::HashSet::new();
    for rule in &w.psl.rules {
        let body = rule.trim_start_matches('!').trim_start_matches("*.");
        let insts: Vec<String> = if rule.starts_with("*.") { vec![format!("wild.{body}"), body.to_string()] } else { vec![body.to_string()] };
        for r in insts {
            if !seen.insert(r.clone()) {
                continue;
            }
            let host = format!("www.{r}");
            for localhost in [false] {
                v.push(Case { kind: "web".into(), origin: format!("https://{host}"), rp: Some(r.clone()), localhost, custom_provider: false, through_client: false, custom_err: 0 });
                v.push(Case { kind: "android".into(), origin: host.clone(), rp: Some(r.clone()), localhost, custom_provider: false, through_client: false, custom_err: 0 });
                if tier == Tier::Thorough {
                    v.push(Case { kind: "web".into(), origin: format!("https://{host}"), rp: None, localhost, custom_provider: false, through_client: false, custom_err: 0 });
                    v.push(Case { kind: "web".into(), origin: format!("https://{r}"), rp: None, localhost, custom_provider: false, through_client: false, custom_err: 0 });
                }
            }
        }
    }
    for u in &w.psl.unicode_rules {
        let body = u.trim_start_matches('!').trim_start_matches("*.");
        if let Some(a) = punycode::to_ascii(body) {
            // U-label spelling of an IDN public suffix as RP ID (is_valid_rp_id / android host in U-label form)
            v.push(Case { kind: "android".into(), origin: format!("www.{body}"), rp: Some(body.to_string()), localhost: false, custom_provider: false, through_client: false, custom_err: 0 });
            v.push(Case { kind: "web".into(), origin: format!("https://www.{a}"), rp: Some(body.to_string()), localhost: false, custom_provider: false, through_client: false, custom_err: 0 });
        }
    }
    v
}

// ------------------------------------------------------------------------------------------
// histories: the verdict for a pair must not depend on what the same verifier / client was asked
// before (explicit-state exploration of call sequences on ONE verifier and ONE client,
// differential oracle: the verdict on a fresh instance)

pub fn rep_calls() -> Vec<(String, String, Option<String>)> {
    let mut v: Vec<(&str, &str, Option<&str>)> = vec![
        ("web", "https://example.com", None),
        ("web", "https://www.example.com", Some("example.com")),
        ("web", "http://example.com", None),
        ("web", "http://www.example.com", Some("example.com")),
        ("web", "ws://example.com", Some("example.com")),
        ("web", "https://evilexample.com", Some("example.com")),
        ("web", "https://example.com.evil.org", Some("example.com")),
        ("web", "https://www.example.co.uk", Some("co.uk")),
        ("web", "https://www.example.co.uk", Some("example.co.uk")),
        ("web", "http://www.example.co.uk", Some("example.co.uk")),
        ("web", "https://example.com", Some("com")),
        ("web", "http://localhost:8080", None),
        ("web", "https://localhost", Some("localhost")),
        ("web", "http://foo.localhost", Some("localhost")),
        ("web", "https://www.xn--55qx5d.cn", Some("xn--55qx5d.cn")),
        ("web", "https://shop.www.xn--55qx5d.cn", Some("www.xn--55qx5d.cn")),
        ("web", "http://shop.www.xn--55qx5d.cn", Some("www.xn--55qx5d.cn")),
        ("web", "https://127.0.0.1", None),
        ("android", "example.com", None),
        ("android", "www.example.com", Some("example.com")),
        ("android", "evilexample.com", Some("example.com")),
        ("android", "www.example.co.uk", Some("co.uk")),
        ("android", "localhost", None),
        ("android", "10.1.2.3", None),
    ];
    v.dedup();
    v.into_iter().map(|(k, o, r)| (k.to_string(), o.to_string(), r.map(|s| s.to_string()))).collect()
}

#[derive(Clone, Debug, Serialize, Deserialize, PartialEq, Eq, Hash)]
pub struct SeqCase {
    /// indices into rep_calls()
    pub seq: Vec<usize>,
    pub localhost: bool,
    /// drive Client::register for every call instead of RpIdVerifier::assert_domain
    pub through_client: bool,
}

fn one_call(v: &RpIdVerifier<public_suffix::PublicSuffixList>, call: &(String, String, Option<String>)) -> Verdict {
    let rp = call.2.as_deref();
    if call.0 == "web" {
        let Ok(url) = Url::parse(&call.1) else { return Verdict::Unbuildable };
        let origin: Origin = (&url).into();
        to_verdict(v.assert_domain(&origin, rp).map(|s| s.to_string()))
    } else {
        let Ok(link) = UnverifiedAssetLink::new("com.example.app", FP, call.1.as_str(), Url::parse("https://assets.example.com/.well-known/assetlinks.json").unwrap()) else { return Verdict::Unbuildable };
        let origin = Origin::Android(link);
        to_verdict(v.assert_domain(&origin, rp).map(|s| s.to_string()))
    }
}

pub fn eval_seq(w: &World, c: &SeqCase) -> (Vec<Finding>, String) {
    let case = json!({"sequence": c});
    let calls = rep_calls();
    let mut fs = vec![];
    let r = par::catch(|| {
        let mut out: Vec<(Verdict, Verdict, Vec<String>)> = vec![];
        if !c.through_client {
            let shared = RpIdVerifier::new(public_suffix::DEFAULT_PROVIDER).allows_insecure_localhost(c.localhost);
            for &i in &c.seq {
                let fresh = RpIdVerifier::new(public_suffix::DEFAULT_PROVIDER).allows_insecure_localhost(c.localhost);
                out.push((one_call(&shared, &calls[i]), one_call(&fresh, &calls[i]), vec![]));
            }
        } else {
            // one Client for the whole sequence; every call is a registration
            let log = Log::new();
            let store = Shared::new(RefStore::new());
            let auth = Authenticator::new(Aaguid::new_empty(), Logging { inner: store.clone(), log: log.clone() }, ScriptedUv::consenting(log.clone()));
            let mut client = Client::new(auth).allows_insecure_localhost(c.localhost);
            for &i in &c.seq {
                let call = &calls[i];
                let fresh = RpIdVerifier::new(public_suffix::DEFAULT_PROVIDER).allows_insecure_localhost(c.localhost);
                let want = one_call(&fresh, call);
                let _ = log.take();
                let opts = creation_options(Reg { rp_id: call.2.clone(), ..Default::default() });
                let got = if call.0 == "web" {
                    match Url::parse(&call.1) {
                        Ok(url) => match block_on(client.register(&url, opts, DefaultClientData)) {
                            Ok(cr) => Verdict::Accepted(crate::drivers::hex(&cr.response.authenticator_data[..32])),
                            Err(e) => Verdict::Rejected(format!("{e:?}")),
                        },
                        Err(_) => Verdict::Unbuildable,
                    }
                } else {
                    match UnverifiedAssetLink::new("com.example.app", FP, call.1.as_str(), Url::parse("https://assets.example.com/.well-known/assetlinks.json").unwrap()) {
                        Ok(link) => match block_on(client.register(Origin::Android(link), opts, DefaultClientData)) {
                            Ok(cr) => Verdict::Accepted(crate::drivers::hex(&cr.response.authenticator_data[..32])),
                            Err(e) => Verdict::Rejected(format!("{e:?}")),
                        },
                        Err(_) => Verdict::Unbuildable,
                    }
                };
                let touched: Vec<String> = log.take().iter().filter(|e| !matches!(e, Event::Info)).map(|e| e.kind().to_string()).collect();
                // normalise the fresh verdict to the same shape (rpIdHash of the accepted RP ID)
                let want = match want {
                    Verdict::Accepted(r) => Verdict::Accepted(crate::drivers::hex(&Sha256::digest(r.as_bytes()))),
                    o => o,
                };
                out.push((got, want, touched));
            }
        }
        out
    });
    let out = match r {
        Ok(o) => o,
        Err(p) => {
            fs.push(Finding::new(format!("history/kind=panic/site={}", par::panic_site(&p)), p, case));
            return (fs, "panic".into());
        }
    };
    let mut class = String::new();
    for (k, (got, want, touched)) in out.iter().enumerate() {
        let call = &calls[c.seq[k]];
        let same = match (got, want) {
            (Verdict::Accepted(a), Verdict::Accepted(b)) => a == b,
            (Verdict::Rejected(_), Verdict::Rejected(_)) => true, // the reason may legitimately differ
            (Verdict::Unbuildable, Verdict::Unbuildable) => true,
            _ => false,
        };
        class.push(if matches!(got, Verdict::Accepted(_)) { 'A' } else { 'R' });
        if !same {
            fs.push(Finding::new(
                format!("history/{}/kind=verdict-depends-on-earlier-calls", if c.through_client { "client" } else { "verifier" }),
                format!("call #{k} {call:?} after {:?}: got {got:?}, a fresh instance says {want:?}", c.seq[..k].iter().map(|&i| &calls[i]).collect::<Vec<_>>()),
                case.clone(),
            ));
        }
        if c.through_client && matches!(got, Verdict::Rejected(_)) && !touched.is_empty() && matches!(want, Verdict::Rejected(_)) {
            fs.push(Finding::new("history/client/kind=rejected-pair-reaches-authenticator", format!("call #{k} {call:?} is rejected but caused {touched:?}"), case.clone()));
        }
        // the stand-alone oracle applies to every accepted verdict as well
        if !c.through_client {
            if let Verdict::Accepted(r) = got {
                let cc = Case { kind: call.0.clone(), origin: call.1.clone(), rp: call.2.clone(), localhost: c.localhost, custom_provider: false, through_client: false, custom_err: 0 };
                let (scheme, host) = if call.0 == "web" { Url::parse(&call.1).map(|u| (u.scheme().to_string(), u.host_str().unwrap_or("").to_string())).unwrap_or_default() } else { (String::new(), call.1.clone()) };
                for (kind, d) in oracle(w, &cc, &scheme, &host, r) {
                    fs.push(Finding::new(format!("history/origin={}/kind={kind}", call.0), format!("{d}; in call #{k} of a sequence"), case.clone()));
                }
            }
        }
    }
    (fs, format!("history:{class}"))
}

pub fn seq_cases(tier: Tier) -> Vec<SeqCase> {
    let n = rep_calls().len();
    let mut v = vec![];
    for localhost in [false, true] {
        for a in 0..n {
            for b in 0..n {
                v.push(SeqCase { seq: vec![a, b], localhost, through_client: false });
                v.push(SeqCase { seq: vec![a, b], localhost, through_client: true });
                if tier == Tier::Thorough {
                    for c in 0..n {
                        v.push(SeqCase { seq: vec![a, b, c], localhost, through_client: false });
                    }
                }
            }
        }
    }
    v
}

pub fn run(ctx: &Ctx) -> Result<Run, String> {
    let w = World::load()?;
    let cs = cases(&w, ctx.tier);
    let stats = par::sweep_cases(&cs, ctx.threads, |c, st| {
        let (fs, class, nt) = eval(&w, c);
        st.case(c, nt, &class);
        if c.through_client {
            st.count("client_ceremonies", 2);
        }
        st.findings_from(fs);
    });
    let scs = seq_cases(ctx.tier);
    let st2 = par::sweep_cases(&scs, ctx.threads, |c, st| {
        let (fs, class) = eval_seq(&w, c);
        st.case(c, class.contains('A'), &class);
        st.count("history_sequences", 1);
        st.findings_from(fs);
    });
    let mut stats = stats;
    stats.merge(st2);
    let accepted: u64 = stats.outcomes.iter().filter(|(k, _)| k.starts_with("accepted")).map(|(_, v)| *v).sum();
    // harness-side vacuity guard: the oracle itself must deem some enumerated pair acceptable
    let acceptable = cs.iter().filter(|c| c.kind == "web" && c.origin.starts_with("https://example.com") && c.rp.as_deref() == Some("example.com")).count();
    if acceptable == 0 {
        return Err("C01 enumeration contains no pair the oracle deems acceptable".into());
    }
    let mut run = Run::from_stats(
        "exploration",
        "full product of ~47 hosts (plain/wildcard/exception suffixes, character-suffix traps, single-label, localhost shapes, IDN, trailing/empty labels, IP literals, custom-list names) x 6 schemes x 3 ports x RP IDs {absent, every character-level suffix of the host, '', www.+host, upper-case, leading/trailing dot, unrelated, localhost, U-label form} x insecure-localhost {off,on} x provider {shipped, 6-rule custom refusing with each of three error variants} for web and Android origins, plus every rule of the shipped list (A-label, and U-label for IDN rules) as RP ID of an origin one label below it; the https/http no-port subset is also driven through Client::register and Client::authenticate. plus histories: every ordered pair (thorough: triple) of 24 representative calls on ONE RpIdVerifier and on ONE Client, each verdict compared with a fresh instance's (history independence). Non-trivial = distinct pair/sequence that the implementation accepted",
        true,
        stats,
    );
    run.set("accepted_pairs", json!(accepted));
    run.set("cases", json!(cs.len()));
    run.set("samples", json!(cs.iter().step_by(cs.len() / 5 + 1).collect::<Vec<_>>()));
    run.assume("registrability is judged by the harness's PSL matcher over public_suffix_list.dat (custom list for the custom provider) on the A-label form; Url parsing/normalisation (url crate) is trusted");
    Ok(run)
}

pub fn replay(_ctx: &Ctx, case: &Value) -> Result<Vec<Finding>, String> {
    let w = World::load()?;
    if let Some(sq) = case.get("sequence") {
        let c: SeqCase = serde_json::from_value(sq.clone()).map_err(|e| format!("bad C01 sequence: {e}"))?;
        return Ok(eval_seq(&w, &c).0);
    }
    let c: Case = serde_json::from_value(case.clone()).map_err(|e| format!("bad C01 case: {e}"))?;
    Ok(eval(&w, &c).0)
}
