//! C19 – shared-store concurrency never reuses a counter or loses a credential.
//! Deviation-bounded stateless exploration of every await-point interleaving of 2..3 ceremonies
//! on real Authenticators sharing the real lock wrappers.
use crate::core::exec::{self, End, Task};
use crate::core::report::*;
use crate::drivers::*;
use passkey_authenticator::{Authenticator, CredentialStore, MemoryStore};
use passkey_types::ctap2::Aaguid;
use passkey_types::Passkey;
use serde::{Deserialize, Serialize};
use serde_json::{json, Value};
use std::sync::{Arc, Mutex as StdMutex};

#[derive(Clone, Copy, Debug, Serialize, Deserialize, PartialEq, Eq, Hash)]
pub enum Op {
    /// assertion with seeded credential n (1 or 2)
    Assert(u8),
    Register,
    /// registration for the user handle of seeded credential n (the "same account")
    RegisterUser(u8),
    /// registration that does not ask for a discoverable credential (rk = false)
    RegisterNonResident,
    /// assertion without allow list (discoverable-credential lookup by RP)
    AssertAny,
    /// two assertions with seeded credential n, one after the other, in one task
    AssertTwice(u8),
    /// two verified assertions with a PRF evaluation, in one task, by an authenticator configured
    /// with a non-gated secret, on seeded credential 3 that was created with the gated secret only
    /// (authenticators with different hmac-secret configurations sharing one store)
    AssertTwicePrfMixedConfig,
    /// a verified assertion with a PRF evaluation on seeded credential n, which has no PRF secret, by an
    /// authenticator that has the capability: it fails late (after its counter write)
    AssertPrfFailsLate(u8),
    /// a U2F registration of a fresh key handle, then two CTAP2 assertions with that credential, in one task
    U2fRegisterThenAssertTwice,
    /// an ordinary assertion, then a silent one (up = uv = false, nothing reported by the user
    /// step) and another silent one with seeded credential n, in one task
    AssertThenSilent(u8),
    /// assertion whose allow list names seeded credentials 1 and 2 (one signs, the other is only looked up)
    AssertListed12,
}
#[derive(Clone, Debug, Serialize, Deserialize, PartialEq, Eq, Hash)]
pub struct Scenario {
    pub name: String,
    pub ops: Vec<Op>,
    /// "mutex" | "rwlock"
    pub lock: String,
    /// "memory" | "option"
    pub store: String,
    pub uv_yields: usize,
}

#[derive(Clone, Debug, PartialEq)]
pub enum Outcome {
    Asserted { cred: Vec<u8>, counter: u32 },
    Registered { cred: Vec<u8> },
    Failed(u8),
    /// a failure the scenario expects (the request cannot succeed)
    FailedAsExpected(u8),
    /// two assertions in sequence: counter or status byte of each
    AssertedSeq { cred: Vec<u8>, results: Vec<Result<u32, u8>> },
}

/// A store whose first `update_credential` call fails (the write-back of a counter is lost once).
pub struct FlakyUpdate<S> {
    inner: S,
    failed: std::sync::atomic::AtomicBool,
}
impl<S: Clone> Clone for FlakyUpdate<S> {
    fn clone(&self) -> Self {
        Self { inner: self.inner.clone(), failed: std::sync::atomic::AtomicBool::new(self.failed.load(std::sync::atomic::Ordering::SeqCst)) }
    }
}
#[async_trait::async_trait]
impl<S: CredentialStore<PasskeyItem = Passkey> + Send + Sync> CredentialStore for FlakyUpdate<S> {
    type PasskeyItem = Passkey;
    async fn find_credentials(&self, ids: Option<&[passkey_types::webauthn::PublicKeyCredentialDescriptor]>, rp_id: &str) -> Result<Vec<Passkey>, passkey_types::ctap2::StatusCode> {
        self.inner.find_credentials(ids, rp_id).await
    }
    async fn save_credential(&mut self, cred: Passkey, user: passkey_types::ctap2::make_credential::PublicKeyCredentialUserEntity, rp: passkey_types::ctap2::make_credential::PublicKeyCredentialRpEntity, options: passkey_types::ctap2::get_assertion::Options) -> Result<(), passkey_types::ctap2::StatusCode> {
        self.inner.save_credential(cred, user, rp, options).await
    }
    async fn update_credential(&mut self, cred: Passkey) -> Result<(), passkey_types::ctap2::StatusCode> {
        if !self.failed.swap(true, std::sync::atomic::Ordering::SeqCst) {
            return Err(passkey_types::ctap2::Ctap2Error::KeyStoreFull.into());
        }
        self.inner.update_credential(cred).await
    }
    async fn get_info(&self) -> passkey_authenticator::StoreInfo {
        self.inner.get_info().await
    }
}
impl<S: Inspect> Inspect for FlakyUpdate<S> {
    fn recs(&self) -> Vec<Rec> {
        self.inner.recs()
    }
}

const RP: &str = "example.com";
const START: u32 = 7;

fn seeds() -> Vec<Passkey> {
    vec![
        seeded(&Seed { n: 1, rp: RP.into(), handle: Some(vec![1]), counter: Some(START), hmac: None }),
        seeded(&Seed { n: 2, rp: RP.into(), handle: Some(vec![2]), counter: Some(START), hmac: None }),
        seeded(&Seed { n: 3, rp: RP.into(), handle: Some(vec![3]), counter: Some(START), hmac: Some(false) }),
    ]
}

type Results = Arc<StdMutex<Vec<Option<Outcome>>>>;

fn task<S>(store: S, op: Op, idx: usize, uv_yields: usize, results: Results) -> Task
where
    S: CredentialStore<PasskeyItem = Passkey> + Send + Sync + Clone + 'static,
{
    Box::pin(async move {
        let store2 = store.clone();
        let uv = ScriptedUv { verification_cap: Some(true), presence_cap: true, outcome: UvOutcome::Ok { presence: true, verification: true }, yields: uv_yields, log: Log::new() };
        // the outer shim suspends before each store call, so another ceremony can run between any two critical sections
        let mut auth = Authenticator::new(Aaguid::new_empty(), Yielding { inner: store, before: 1, after: 0 }, uv);
        auth.set_make_credentials_with_signature_counter(true);
        let out = match op {
            Op::Assert(n) => match auth.get_assertion(ga_request(RP, Some(vec![cred_id(n)]), false, true, true, false, None)).await {
                Ok(r) => Outcome::Asserted { cred: r.credential.map(|d| d.id.to_vec()).unwrap_or_default(), counter: r.auth_data.counter.unwrap_or(0) },
                Err(e) => Outcome::Failed(e.into()),
            },
            Op::AssertListed12 => match auth.get_assertion(ga_request(RP, Some(vec![cred_id(1), cred_id(2)]), false, true, true, false, None)).await {
                Ok(r) => Outcome::Asserted { cred: r.credential.map(|d| d.id.to_vec()).unwrap_or_default(), counter: r.auth_data.counter.unwrap_or(0) },
                Err(e) => Outcome::Failed(e.into()),
            },
            Op::AssertTwice(n) => {
                let first = auth.get_assertion(ga_request(RP, Some(vec![cred_id(n)]), false, true, true, false, None)).await.map(|r| r.auth_data.counter.unwrap_or(0)).map_err(u8::from);
                let second = auth.get_assertion(ga_request(RP, Some(vec![cred_id(n)]), false, true, true, false, None)).await.map(|r| r.auth_data.counter.unwrap_or(0)).map_err(u8::from);
                Outcome::AssertedSeq { cred: cred_id(n), results: vec![first, second] }
            }
            Op::AssertTwicePrfMixedConfig => {
                use passkey_types::ctap2::extensions::{AuthenticatorPrfInputs, AuthenticatorPrfValues};
                let uv = ScriptedUv { verification_cap: Some(true), presence_cap: true, outcome: UvOutcome::Ok { presence: true, verification: true }, yields: uv_yields, log: Log::new() };
                let mut a2 = Authenticator::new(Aaguid::new_empty(), Yielding { inner: store2, before: 1, after: 0 }, uv).hmac_secret(passkey_authenticator::extensions::HmacSecretConfig::new_without_uv());
                let req = || {
                    let ext = passkey_types::ctap2::get_assertion::ExtensionInputs { hmac_secret: None, prf: Some(AuthenticatorPrfInputs { eval: Some(AuthenticatorPrfValues { first: [6; 32], second: None }), eval_by_credential: None }) };
                    ga_request(RP, Some(vec![cred_id(3)]), false, true, true, false, Some(ext))
                };
                let first = a2.get_assertion(req()).await.map(|r| r.auth_data.counter.unwrap_or(0)).map_err(u8::from);
                let second = a2.get_assertion(req()).await.map(|r| r.auth_data.counter.unwrap_or(0)).map_err(u8::from);
                Outcome::AssertedSeq { cred: cred_id(3), results: vec![first, second] }
            }
            Op::AssertPrfFailsLate(n) => {
                use passkey_types::ctap2::extensions::{AuthenticatorPrfInputs, AuthenticatorPrfValues};
                let uv = ScriptedUv { verification_cap: Some(true), presence_cap: true, outcome: UvOutcome::Ok { presence: true, verification: true }, yields: uv_yields, log: Log::new() };
                let mut a2 = Authenticator::new(Aaguid::new_empty(), Yielding { inner: store2, before: 1, after: 0 }, uv).hmac_secret(passkey_authenticator::extensions::HmacSecretConfig::new_without_uv());
                let ext = passkey_types::ctap2::get_assertion::ExtensionInputs { hmac_secret: None, prf: Some(AuthenticatorPrfInputs { eval: Some(AuthenticatorPrfValues { first: [6; 32], second: None }), eval_by_credential: None }) };
                match a2.get_assertion(ga_request(RP, Some(vec![cred_id(n)]), false, true, true, false, Some(ext))).await {
                    Ok(r) => Outcome::Asserted { cred: cred_id(n), counter: r.auth_data.counter.unwrap_or(0) },
                    Err(e) => Outcome::FailedAsExpected(e.into()),
                }
            }
            Op::U2fRegisterThenAssertTwice => {
                use passkey_authenticator::U2fApi;
                let app = [0x33u8; 32];
                let handle = vec![0x70 + idx as u8; 16];
                let rp = crate::oracles::b64::url_nopad(&app);
                match U2fApi::register(&mut auth, passkey_types::u2f::RegisterRequest { challenge: [1; 32], application: app }, &handle).await {
                    Err(_) => Outcome::Failed(0x7f),
                    Ok(_) => {
                        let first = auth.get_assertion(ga_request(&rp, Some(vec![handle.clone()]), false, true, true, false, None)).await.map(|r| r.auth_data.counter.unwrap_or(0)).map_err(u8::from);
                        let second = auth.get_assertion(ga_request(&rp, Some(vec![handle.clone()]), false, true, true, false, None)).await.map(|r| r.auth_data.counter.unwrap_or(0)).map_err(u8::from);
                        Outcome::AssertedSeq { cred: handle, results: vec![first, second] }
                    }
                }
            }
            Op::AssertThenSilent(n) => {
                let first = auth.get_assertion(ga_request(RP, Some(vec![cred_id(n)]), false, true, true, false, None)).await.map(|r| r.auth_data.counter.unwrap_or(0)).map_err(u8::from);
                // a second authenticator on the same store whose user step reports nothing
                let quiet = ScriptedUv { verification_cap: Some(true), presence_cap: true, outcome: UvOutcome::Ok { presence: false, verification: false }, yields: uv_yields, log: Log::new() };
                let mut auth2 = Authenticator::new(Aaguid::new_empty(), Yielding { inner: store2, before: 1, after: 0 }, quiet);
                let second = auth2.get_assertion(ga_request(RP, Some(vec![cred_id(n)]), false, false, false, false, None)).await.map(|r| r.auth_data.counter.unwrap_or(0)).map_err(u8::from);
                let third = auth2.get_assertion(ga_request(RP, Some(vec![cred_id(n)]), false, false, false, false, None)).await.map(|r| r.auth_data.counter.unwrap_or(0)).map_err(u8::from);
                Outcome::AssertedSeq { cred: cred_id(n), results: vec![first, second, third] }
            }
            Op::AssertAny => match auth.get_assertion(ga_request(RP, None, false, true, true, false, None)).await {
                Ok(r) => Outcome::Asserted { cred: r.credential.map(|d| d.id.to_vec()).unwrap_or_default(), counter: r.auth_data.counter.unwrap_or(0) },
                Err(e) => Outcome::Failed(e.into()),
            },
            Op::Register | Op::RegisterUser(_) | Op::RegisterNonResident => match auth.make_credential(mc_request(RP, &match op { Op::RegisterUser(n) => vec![n], _ => vec![9, idx as u8] }, None, op != Op::RegisterNonResident, true, true, false, None)).await {
                Ok(r) => Outcome::Registered { cred: r.auth_data.attested_credential_data.as_ref().map(|a| a.credential_id().to_vec()).unwrap_or_default() },
                Err(e) => Outcome::Failed(e.into()),
            },
        };
        results.lock().unwrap()[idx] = Some(out);
    })
}

/// Builds a fresh system; returns the tasks, the result cells and a closure reading the final store.
fn build(sc: &Scenario) -> (Vec<Task>, Results, Box<dyn Fn() -> Vec<Rec>>) {
    let results: Results = Arc::new(StdMutex::new(vec![None; sc.ops.len()]));
    macro_rules! go {
        ($shared:expr) => {{
            let shared = $shared;
            let tasks = sc.ops.iter().enumerate().map(|(i, op)| task(shared.clone(), *op, i, sc.uv_yields, results.clone())).collect();
            let s2 = shared.clone();
            (tasks, results, Box::new(move || s2.recs()) as Box<dyn Fn() -> Vec<Rec>>)
        }};
    }
    // the inner store suspends while the lock is held, so tokio's wait queue is really exercised
    match (sc.store.as_str(), sc.lock.as_str()) {
        ("option", "mutex") => go!(Arc::new(tokio::sync::Mutex::new(Yielding { inner: seeds().into_iter().next(), before: 1, after: 0 }))),
        ("option", _) => go!(Arc::new(tokio::sync::RwLock::new(Yielding { inner: seeds().into_iter().next(), before: 1, after: 0 }))),
        // a store that lists the most recent credential first (what the trait's documentation
        // recommends), behind the shipped lock wrappers
        ("recency", lock) => {
            let mut rs = RefStore::with(seeds());
            rs.newest_first = true;
            let inner = Yielding { inner: rs, before: 1, after: 0 };
            if lock == "mutex" {
                go!(Arc::new(tokio::sync::Mutex::new(inner)))
            } else {
                go!(Arc::new(tokio::sync::RwLock::new(inner)))
            }
        }
        ("memory-flaky", lock) => {
            let m: MemoryStore = seeds().into_iter().map(|p| (p.credential_id.to_vec(), p)).collect();
            let inner = Yielding { inner: FlakyUpdate { inner: m, failed: Default::default() }, before: 1, after: 0 };
            if lock == "mutex" {
                go!(Arc::new(tokio::sync::Mutex::new(inner)))
            } else {
                go!(Arc::new(tokio::sync::RwLock::new(inner)))
            }
        }
        // records from before items carried their relying party: rp_id is empty (the shipped store
        // answers lookups by id whatever the record says)
        ("memory-legacy", lock) => {
            let m: MemoryStore = seeds()
                .into_iter()
                .map(|mut p| {
                    p.rp_id = String::new();
                    (p.credential_id.to_vec(), p)
                })
                .collect();
            let inner = Yielding { inner: m, before: 1, after: 0 };
            if lock == "mutex" {
                go!(Arc::new(tokio::sync::Mutex::new(inner)))
            } else {
                go!(Arc::new(tokio::sync::RwLock::new(inner)))
            }
        }
        (_, "mutex") => {
            let m: MemoryStore = seeds().into_iter().map(|p| (p.credential_id.to_vec(), p)).collect();
            go!(Arc::new(tokio::sync::Mutex::new(Yielding { inner: m, before: 1, after: 0 })))
        }
        _ => {
            let m: MemoryStore = seeds().into_iter().map(|p| (p.credential_id.to_vec(), p)).collect();
            go!(Arc::new(tokio::sync::RwLock::new(Yielding { inner: m, before: 1, after: 0 })))
        }
    }
}

fn judge(sc: &Scenario, end: &End, outs: &[Option<Outcome>], store: &[Rec]) -> Vec<(String, String)> {
    let mut v = vec![];
    match end {
        End::AllDone => {}
        End::Deadlock { unfinished } => {
            v.push(("deadlock".to_string(), format!("no runnable task while ceremonies {unfinished:?} are unfinished")));
            return v;
        }
        End::Livelock => {
            v.push(("livelock".to_string(), "step horizon exceeded".to_string()));
            return v;
        }
    }
    for (i, o) in outs.iter().enumerate() {
        match o {
            None => v.push(("no-result".into(), format!("ceremony {i} finished without result"))),
            Some(Outcome::Failed(b)) => v.push(("ceremony-failed".into(), format!("ceremony {i} ({:?}) failed with {b:#04x} although nothing is wrong with it", sc.ops[i]))),
            Some(Outcome::Registered { cred }) => {
                if !store.iter().any(|r| r.id == *cred) {
                    v.push(("lost-credential".into(), format!("ceremony {i} registered {} successfully, but it is not in the store afterwards", hex(cred))));
                }
            }
            Some(Outcome::Asserted { .. }) | Some(Outcome::FailedAsExpected(_)) => {}
            Some(Outcome::AssertedSeq { results, .. }) => {
                let failures = results.iter().filter(|r| r.is_err()).count();
                let allowed = usize::from(sc.store == "memory-flaky");
                if failures > allowed {
                    v.push(("ceremony-failed".into(), format!("ceremony {i}: assertions in sequence ended {results:?}; the store loses at most {allowed} counter write-back(s)")));
                }
            }
        }
    }
    // per credential: pairwise distinct counters, maximum = stored value
    let asserted: Vec<(Vec<u8>, u32)> = outs
        .iter()
        .flat_map(|o| match o {
            Some(Outcome::Asserted { cred, counter }) => vec![(cred.clone(), *counter)],
            Some(Outcome::AssertedSeq { cred, results }) => results.iter().filter_map(|r| r.as_ref().ok().map(|c| (cred.clone(), *c))).collect(),
            _ => vec![],
        })
        .collect();
    let mut creds: Vec<Vec<u8>> = asserted.iter().map(|a| a.0.clone()).collect();
    creds.sort();
    creds.dedup();
    for c in creds {
        let mut counters: Vec<u32> = asserted.iter().filter(|a| a.0 == c).map(|a| a.1).collect();
        let max = counters.iter().copied().max().unwrap_or(0);
        counters.sort();
        let before = counters.len();
        counters.dedup();
        if counters.len() != before {
            v.push(("duplicate-counter".into(), format!("{before} successful assertions with credential {} carry counters with a repeat (distinct values {counters:?})", hex(&c[..4]))));
        }
        // a seeded credential starts at START: nothing it hands out may be at or below that
        if seeds().iter().any(|s| s.credential_id.to_vec() == c) && counters.iter().any(|n| *n <= START) {
            v.push(("counter-went-backwards".into(), format!("credential {} stored counter {START} before these ceremonies, yet an assertion with it reports {:?}", hex(&c[..4]), counters.iter().filter(|n| **n <= START).collect::<Vec<_>>())));
        }
        let stored = store.iter().find(|r| r.id == c).and_then(|r| r.counter);
        // a ceremony that failed after its counter write has used up a value: the store may be ahead of
        // the largest *reported* counter by at most one per such failure
        let burnt = outs.iter().filter(|o| matches!(o, Some(Outcome::FailedAsExpected(_)))).count() as u32;
        let ahead_ok = stored.is_some_and(|s| s > max && s - max <= burnt);
        if stored != Some(max) && !ahead_ok {
            v.push((if stored.map_or(true, |s| s < max) { "stored-below-max" } else { "stored-above-max" }.into(), format!("largest reported counter {max}, store holds {stored:?}")));
        }
    }
    // seeded credentials never disappear
    for s in seeds() {
        if (sc.store.starts_with("memory") || sc.store == "recency") && !store.iter().any(|r| r.id == s.credential_id.to_vec()) {
            v.push(("seeded-credential-lost".into(), "a credential that existed before is gone".into()));
        }
    }
    v
}

pub fn scenarios(tier: Tier) -> Vec<(Scenario, Option<usize>)> {
    // (scenario, preemption bound)
    let mut v = vec![];
    let uvs: Vec<usize> = tier.pick(vec![1], vec![1, 2]);
    for lock in ["mutex", "rwlock"] {
        for &uv_yields in &uvs {
            let mk = |name: &str, ops: Vec<Op>, store: &str| Scenario { name: name.into(), ops, lock: lock.into(), store: store.into(), uv_yields };
            v.push((mk("assert||assert(same)", vec![Op::Assert(1), Op::Assert(1)], "memory"), None));
            v.push((mk("assert||assert(different)", vec![Op::Assert(1), Op::Assert(2)], "memory"), None));
            v.push((mk("assert||register", vec![Op::Assert(1), Op::Register], "memory"), None));
            v.push((mk("register||register", vec![Op::Register, Op::Register], "memory"), None));
            v.push((mk("assert||assert(same)", vec![Op::Assert(1), Op::Assert(1)], "option"), None));
            v.push((mk("register(user1)||register(user1)", vec![Op::RegisterUser(1), Op::RegisterUser(1)], "memory"), None));
            v.push((mk("assert(1)||register(user1)", vec![Op::Assert(1), Op::RegisterUser(1)], "memory"), None));
            v.push((mk("register(non-resident)", vec![Op::RegisterNonResident], "memory"), None));
            v.push((mk("register(non-resident)||assert", vec![Op::RegisterNonResident, Op::Assert(1)], "memory"), None));
            v.push((mk("register(non-resident)||register", vec![Op::RegisterNonResident, Op::Register], "memory"), None));
            // (MemoryStore answers list-less lookups with nothing – a C05 finding – so the list-less
            // assertion runs on the Option store only, and alone: the single slot is replaced by
            // every registration, and a second assertion is the known lost update)
            v.push((mk("assert(any)", vec![Op::AssertAny], "option"), None));
            // a store that loses one counter write-back: the ceremony whose write failed must fail,
            // so that no counter value is ever handed out twice (sequential assertions in one task,
            // a registration interleaved)
            v.push((mk("assert;assert(lost write-back)", vec![Op::AssertTwice(1)], "memory-flaky"), None));
            // silent assertions (nothing asked of the user, nothing reported) advance the counter too
            v.push((mk("assert;silent;silent", vec![Op::AssertThenSilent(1)], "memory"), None));
            v.push((mk("u2f-register;assert;assert", vec![Op::U2fRegisterThenAssertTwice], "memory"), None));
            // list-less assertions on a store that lists by recency, next to a registration (what the
            // store lists first changes while the assertion is under way)
            v.push((mk("assert(any)||register(recency store)", vec![Op::AssertAny, Op::Register], "recency"), None));
            // a ceremony that fails after its counter write next to one that succeeds: whatever the
            // failing one does to the store, the stored counter never falls below one handed out
            v.push((mk("assert(fails late)||assert(same)", vec![Op::AssertPrfFailsLate(1), Op::Assert(1)], "memory"), None));
            v.push((mk("prf-assert;prf-assert(mixed hmac configurations)", vec![Op::AssertTwicePrfMixedConfig], "memory"), None));

            // an allow list with two matches: the credential that is only looked up belongs to the
            // other ceremony for the duration (both ceremonies signing with the SAME credential is the known
            // lost-update finding and stays with the scenarios that carry it) - on ordinary records and on legacy ones without rp_id
            for st in ["memory", "memory-legacy"] {
                v.push((mk("assert(list 1,2)||assert(2)", vec![Op::AssertListed12, Op::Assert(2)], st), None));
                v.push((mk("assert(list 1,2)||assert(2)||register", vec![Op::AssertListed12, Op::Assert(2), Op::Register], st), Some(2)));
            }
            let b3 = Some(tier.pick(2, 3));
            v.push((mk("assert;silent;silent||register", vec![Op::AssertThenSilent(1), Op::Register], "memory"), b3));
            v.push((mk("prf-assert;prf-assert(mixed hmac configurations)||assert(other)", vec![Op::AssertTwicePrfMixedConfig, Op::Assert(2)], "memory"), b3));
            v.push((mk("assert;assert(lost write-back)||register", vec![Op::AssertTwice(1), Op::Register], "memory-flaky"), b3));
            v.push((mk("assert||assert||assert(same)", vec![Op::Assert(1), Op::Assert(1), Op::Assert(1)], "memory"), b3));
            v.push((mk("assert||assert||register", vec![Op::Assert(1), Op::Assert(1), Op::Register], "memory"), b3));
            v.push((mk("register||register||assert", vec![Op::Register, Op::Register, Op::Assert(2)], "memory"), b3));
        }
    }
    v
}

pub struct ScOut {
    /// a few of the schedules actually run: (task id per step, outcome vector)
    pub sample_traces: Vec<(Vec<usize>, String)>,
    pub findings: Vec<Finding>,
    pub stats: exec::ExploreStats,
    pub outcomes: std::collections::BTreeMap<String, u64>,
}

pub fn explore_scenario(sc: &Scenario, bound: Option<usize>, cap: u64) -> Result<ScOut, String> {
    let mut findings: std::collections::BTreeMap<String, Finding> = Default::default();
    let mut outcomes: std::collections::BTreeMap<String, u64> = Default::default();
    let mut sample_traces: Vec<(Vec<usize>, String)> = vec![];
    // the harness owns every choice: replaying the empty prefix twice must give the same trace
    let t1 = {
        let (tasks, _, _) = build(sc);
        exec::run_schedule(tasks, &[], 10_000)?.trace
    };
    let t2 = {
        let (tasks, _, _) = build(sc);
        exec::run_schedule(tasks, &[], 10_000)?.trace
    };
    if t1 != t2 {
        return Err(format!("schedule replay is not deterministic for {sc:?}"));
    }
    let horizon = t1.len() * 10 + 50;
    // exec::explore builds the system through `mk`; results/store handles of the *current* run are
    // kept in a cell so that `check` can read them
    let current: std::cell::RefCell<Option<(Results, Box<dyn Fn() -> Vec<Rec>>)>> = std::cell::RefCell::new(None);
    let stats = exec::explore(
        || {
            let (tasks, results, store) = build(sc);
            *current.borrow_mut() = Some((results, store));
            tasks
        },
        bound,
        horizon,
        cap,
        |ex| {
            let cur = current.borrow();
            let (results, store) = cur.as_ref().unwrap();
            let outs = results.lock().unwrap().clone();
            let recs = if ex.end == End::AllDone { store() } else { vec![] };
            let vec_key = format!("{:?}", outs.iter().map(|o| match o {
                Some(Outcome::Asserted { counter, .. }) => format!("a{counter}"),
                Some(Outcome::Registered { .. }) => "r".into(),
                Some(Outcome::Failed(b)) => format!("e{b:02x}"),
                Some(Outcome::FailedAsExpected(b)) => format!("x{b:02x}"),
                Some(Outcome::AssertedSeq { results, .. }) => format!("{results:?}"),
                None => "-".into(),
            }).collect::<Vec<_>>());
            if !outcomes.contains_key(&vec_key) && sample_traces.len() < 3 {
                sample_traces.push((ex.trace.clone(), vec_key.clone()));
            }
            *outcomes.entry(vec_key).or_insert(0) += 1;
            for (kind, d) in judge(sc, &ex.end, &outs, &recs) {
                let key = format!("scenario={}/lock={}/store={}/kind={kind}", sc.name, sc.lock, sc.store);
                findings.entry(key.clone()).or_insert_with(|| Finding::new(key, format!("{d}; schedule {:?}", ex.trace), json!({"scenario": sc, "schedule": ex.choices})));
            }
        },
    )?;
    Ok(ScOut { sample_traces, findings: findings.into_values().collect(), stats, outcomes })
}

// ------------------------------------------------------------------------------------------
// Ceremonies that do NOT overlap, by long-lived authenticators that share the store: every
// sequence of assertions by X and Y (and registrations by either) in which each ceremony runs to
// completion before the next starts.  No lost update is possible here, so the oracle is strict:
// each assertion reports the stored counter plus one and leaves exactly that in the store.
fn serial_one(lock: u8, seq: &[u8]) -> Vec<(String, String)> {
    use crate::core::exec::block_on;
    let m: MemoryStore = seeds().into_iter().map(|p| (p.credential_id.to_vec(), p)).collect();
    let mut v = vec![];
    macro_rules! go {
        ($shared:expr) => {{
            let shared = $shared;
            let mk = || {
                let mut a = Authenticator::new(Aaguid::new_empty(), shared.clone(), ScriptedUv::consenting(Log::new()));
                a.set_make_credentials_with_signature_counter(true);
                a
            };
            let mut auths = [mk(), mk(), mk()];
            let mut expect = START;
            for (k, step) in seq.iter().enumerate() {
                let who = (*step % 3) as usize;
                if *step >= 3 {
                    // a registration by that authenticator in between
                    let r = block_on(auths[who].make_credential(mc_request(RP, &[0x50, k as u8], None, true, true, true, false, None)));
                    if r.is_err() {
                        v.push(("serial-registration-fails".to_string(), format!("step {k} of {seq:?}: registration failed")));
                    }
                    continue;
                }
                match block_on(auths[who].get_assertion(ga_request(RP, Some(vec![cred_id(1)]), false, true, true, false, None))) {
                    Err(e) => v.push(("serial-assertion-fails".to_string(), format!("step {k} of {seq:?}: {e:?}"))),
                    Ok(r) => {
                        let c = r.auth_data.counter.unwrap_or(0);
                        let stored = shared.recs().into_iter().find(|r| r.id == cred_id(1)).and_then(|r| r.counter);
                        expect += 1;
                        if c != expect || stored != Some(expect) {
                            v.push(("serial-counter".to_string(), format!("non-overlapping ceremonies {seq:?} (authenticator = step mod 3, step >= 3 registers): assertion at step {k} reports {c}, store holds {stored:?}, expected {expect}")));
                            break;
                        }
                    }
                }
            }
        }};
    }
    if lock == 0 {
        go!(Arc::new(tokio::sync::Mutex::new(m)))
    } else {
        go!(Arc::new(tokio::sync::RwLock::new(m)))
    }
    v
}
/// Authenticators whose credential-id length comes from the public helper
/// `CredentialIdLength::randomized` (every seed 0..n of a seeded generator), two of them sharing a
/// store and registering six credentials in turn: every successful registration's credential is
/// present afterwards.
fn randomized_lengths_one(seed: u64, lock: u8) -> Vec<(String, String)> {
    use crate::core::exec::block_on;
    use rand::SeedableRng;
    let mut rng = rand::rngs::StdRng::seed_from_u64(seed);
    let len = passkey_authenticator::CredentialIdLength::randomized(&mut rng);
    let mut v = vec![];
    macro_rules! go {
        ($shared:expr) => {{
            let shared = $shared;
            let mk = || {
                let mut a = Authenticator::new(Aaguid::new_empty(), shared.clone(), ScriptedUv::consenting(Log::new()));
                a.set_make_credential_id_length(len);
                a
            };
            let mut auths = [mk(), mk()];
            let mut ids: Vec<Vec<u8>> = vec![];
            for k in 0..6usize {
                match block_on(auths[k % 2].make_credential(mc_request(RP, &[0x60, k as u8], None, true, true, true, false, None))) {
                    Ok(r) => ids.push(r.auth_data.attested_credential_data.as_ref().map(|a| a.credential_id().to_vec()).unwrap_or_default()),
                    Err(e) => v.push(("serial-registration-fails".to_string(), format!("registration {k} with an id length drawn by CredentialIdLength::randomized (seed {seed}) failed: {e:?}"))),
                }
            }
            let held: Vec<Vec<u8>> = shared.recs().into_iter().map(|r| r.id).collect();
            let lost = ids.iter().filter(|i| !held.contains(i)).count();
            let mut distinct = ids.clone();
            distinct.sort();
            distinct.dedup();
            if lost > 0 || distinct.len() != ids.len() || held.len() < ids.len() {
                v.push(("lost-credential".to_string(), format!("{} successful registrations by two authenticators whose id length CredentialIdLength::randomized drew (seed {seed}: ids of {:?} bytes) left {} credentials in the shared store ({} distinct ids)", ids.len(), ids.first().map(|i| i.len()), held.len(), distinct.len())));
            }
        }};
    }
    if lock == 0 {
        go!(Arc::new(tokio::sync::Mutex::new(MemoryStore::new())))
    } else {
        go!(Arc::new(tokio::sync::RwLock::new(MemoryStore::new())))
    }
    v
}

fn serial_sequences(tier: Tier, stats: &mut Stats) {
    for seed in 0..tier.pick(400u64, 4000) {
        let lock = (seed % 2) as u8;
        stats.case(&(seed, "randomized-length"), true, "randomized-id-length");
        for (k, dd) in randomized_lengths_one(seed, lock) {
            stats.finding(Finding::new(format!("serial/lock={}/kind={k}", ["mutex", "rwlock"][lock as usize]), dd, json!({"randomized_length": {"seed": seed, "lock": lock}})));
        }
    }
    let depth = tier.pick(5usize, 6);
    for lock in 0..2u8 {
        for d in 2..=depth {
            for idx in 0..6usize.pow(d as u32) {
                let mut x = idx;
                let seq: Vec<u8> = (0..d)
                    .map(|_| {
                        let o = (x % 6) as u8;
                        x /= 6;
                        o
                    })
                    .collect();
                // at most one registration per sequence keeps the product small
                if seq.iter().filter(|s| **s >= 3).count() > 1 {
                    continue;
                }
                stats.case(&(lock, &seq, "serial"), true, "serial-sequence");
                for (k, dd) in serial_one(lock, &seq) {
                    stats.finding(Finding::new(format!("serial/lock={}/kind={k}", ["mutex", "rwlock"][lock as usize]), dd, json!({"serial": {"lock": lock, "seq": seq}})));
                }
            }
        }
    }
}

pub fn run(ctx: &Ctx) -> Result<Run, String> {
    let scs = scenarios(ctx.tier);
    let cap: u64 = ctx.tier.pick(400_000, 5_000_000);
    let results: StdMutex<Vec<(Scenario, Option<usize>, ScOut)>> = StdMutex::new(vec![]);
    let err: StdMutex<Option<String>> = StdMutex::new(None);
    let next = std::sync::atomic::AtomicUsize::new(0);
    std::thread::scope(|s| {
        for _ in 0..ctx.threads.min(scs.len()) {
            s.spawn(|| loop {
                let i = next.fetch_add(1, std::sync::atomic::Ordering::SeqCst);
                if i >= scs.len() {
                    break;
                }
                let (sc, bound) = &scs[i];
                match crate::core::par::catch(|| explore_scenario(sc, *bound, cap)) {
                    Ok(Ok(o)) => results.lock().unwrap().push((sc.clone(), *bound, o)),
                    Ok(Err(e)) => *err.lock().unwrap() = Some(e),
                    Err(p) => *err.lock().unwrap() = Some(format!("harness panic in scenario {}: {p}", sc.name)),
                }
            });
        }
    });
    if let Some(e) = err.into_inner().unwrap() {
        return Err(e);
    }
    let mut stats = Stats::new();
    let mut per = vec![];
    let (mut schedules, mut points) = (0u64, 0u64);
    let mut contended = false;
    let mut capped = false;
    let mut all = results.into_inner().unwrap();
    all.sort_by_key(|x| format!("{:?}", x.0));
    for (sc, bound, o) in all {
        schedules += o.stats.schedules;
        points += o.stats.points;
        contended |= o.stats.max_enabled >= 2;
        capped |= o.stats.capped;
        stats.evaluations += o.stats.schedules;
        for (k, n) in &o.outcomes {
            *stats.outcomes.entry(format!("{}:{k}", sc.name)).or_insert(0) += n;
        }
        per.push(json!({"scenario": sc.name, "lock": sc.lock, "store": sc.store, "uv_yields": sc.uv_yields, "preemption_bound": bound, "schedules": o.stats.schedules, "scheduling_points": o.stats.points, "max_enabled": o.stats.max_enabled, "max_preemptions": o.stats.max_preemptions_seen, "distinct_outcome_vectors": o.outcomes.len(), "capped": o.stats.capped}));
        if stats.samples.len() < 4 {
            for (trace, outcome) in &o.sample_traces {
                stats.samples.push(json!({"scenario": sc.name, "lock": sc.lock, "store": sc.store, "task_run_at_each_step": trace, "outcome_vector": outcome}));
            }
        }
        stats.findings_from(o.findings);
    }
    if !contended {
        return Err("C19: the scheduler never had two enabled tasks – nothing was interleaved".into());
    }
    serial_sequences(ctx.tier, &mut stats);
    let distinct = stats.outcomes.len();
    stats.distinct_nontrivial.extend((0..schedules).map(|i| i));
    let mut run = Run::from_stats(
        "model_checking",
        "credential-id lengths drawn by CredentialIdLength::randomized for 400 (4000) seeds of a seeded generator: six registrations by two authenticators sharing the store, all present afterwards; non-overlapping ceremonies: every sequence of 2..5 (thorough 6) ceremonies by three long-lived authenticators sharing the store (assertions with one credential; at most one registration) in which each ceremony completes before the next starts - strict oracle: each assertion reports stored+1 and leaves it in the store; every complete schedule (choice of the next enabled task at every suspension point) of 2 concurrent ceremonies, and every schedule with at most 2 (quick) / 3 (thorough) preemptions of 3 ceremonies (also of two assertions in sequence next to a registration on a store that loses one counter write-back), over Arc<Mutex<_>> and Arc<RwLock<_>> around MemoryStore / Option<Passkey>; suspension points: before every store call (outer shim), inside every store call while the lock is held (inner shim), in the user-validation step, and tokio's lock waits. Each schedule is one distinct execution of the real code; distinct_nontrivial counts schedules",
        !capped,
        stats,
    );
    run.graph(schedules, points, schedules);
    run.set("scenarios", json!(per));
    run.set("distinct_outcome_vectors", json!(distinct));
    run.set("schedule_cap_hit", json!(capped));
    run.assume("interleavings at await points are explored (single-threaded executor owned by the harness); data races inside tokio's Mutex/RwLock are trusted away, all shared state is behind those locks");
    Ok(run)
}

pub fn replay(_ctx: &Ctx, case: &Value) -> Result<Vec<Finding>, String> {
    if let Some(r) = case.get("randomized_length") {
        let (seed, lock) = (r["seed"].as_u64().unwrap_or(0), r["lock"].as_u64().unwrap_or(0) as u8);
        return Ok(randomized_lengths_one(seed, lock).into_iter().map(|(k, d)| Finding::new(format!("serial/lock={}/kind={k}", ["mutex", "rwlock"][lock as usize]), d, case.clone())).collect());
    }
    if let Some(sr) = case.get("serial") {
        let lock = sr["lock"].as_u64().unwrap_or(0) as u8;
        let seq: Vec<u8> = serde_json::from_value(sr["seq"].clone()).map_err(|e| e.to_string())?;
        return Ok(serial_one(lock, &seq).into_iter().map(|(k, d)| Finding::new(format!("serial/lock={}/kind={k}", ["mutex", "rwlock"][lock as usize]), d, case.clone())).collect());
    }
    let sc: Scenario = serde_json::from_value(case["scenario"].clone()).map_err(|e| format!("bad C19 case: {e}"))?;
    let choices: Vec<usize> = serde_json::from_value(case["schedule"].clone()).map_err(|e| format!("bad C19 schedule: {e}"))?;
    let (tasks, results, store) = build(&sc);
    let ex = exec::run_schedule(tasks, &choices, 10_000)?;
    let outs = results.lock().unwrap().clone();
    let recs = if ex.end == End::AllDone { store() } else { vec![] };
    Ok(judge(&sc, &ex.end, &outs, &recs).into_iter().map(|(kind, d)| Finding::new(format!("scenario={}/lock={}/store={}/kind={kind}", sc.name, sc.lock, sc.store), d, case.clone())).collect())
}
