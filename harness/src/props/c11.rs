//! C11 – discoverability follows request and store capability and is reported truthfully.
//! Complete enumeration of the configuration product.
use crate::core::exec::block_on;
use crate::core::par;
use crate::core::report::*;
use crate::drivers::*;
use passkey_authenticator::Authenticator;
use passkey_client::{Client, DefaultClientData};
use passkey_types::ctap2::Aaguid;
use passkey_types::webauthn::{self, ResidentKeyRequirement as RK};
use serde::{Deserialize, Serialize};
use serde_json::{json, Value};

#[derive(Clone, Debug, Serialize, Deserialize, PartialEq, Eq, Hash)]
pub struct Case {
    /// 0 full, 1 only non-discoverable, 2 forced discoverable
    pub cap: u8,
    /// client level: 0 selection absent, 1 residentKey absent, 2 discouraged, 3 preferred, 4 required
    pub resident_key: u8,
    pub require_resident_key: bool,
    /// 0 absent, 1 false, 2 true
    pub cred_props: u8,
    /// true: CTAP2-level make_credential with `rk` below
    pub ctap: bool,
    pub rk: bool,
    /// authenticator configuration (hmac-secret 0/1/2, evaluation at creation, counters, id length)
    #[serde(default)]
    pub cfg: super::common::AuthCfg,
    /// the registration also carries a prf input: 0 no, 1 empty prf object, 2 eval.first,
    /// 3 only prfAlreadyHashed, 4 prf and prfAlreadyHashed
    #[serde(default)]
    pub prf: u8,
    /// how the store is handed to the authenticator: 0 as it is, 1 inside Arc<tokio Mutex>, 2 inside
    /// Arc<tokio RwLock>, 3 inside a bare tokio Mutex (the shipped lock wrappers)
    #[serde(default)]
    pub wrap: u8,
    /// 0: fresh authenticator.  1, 2: the same authenticator first answered getInfo (1) / performed a
    /// registration (2) while the store had ANOTHER capability ((cap + prior) % 3); the capability
    /// then changed to `cap` (a store whose capability is a runtime setting)
    #[serde(default)]
    pub prior: u8,
    /// the ceremonies come from an Android app origin (asset link for example.com) instead of the web origin
    #[serde(default)]
    pub android: bool,
    /// 0: no.  1, 2: while the user step of the registration is pending, the store's capability changes
    /// from (cap + during) % 3 to `cap` (e.g. the user picks another vault in the consent prompt).
    /// What is stored and what credProps says must still agree.
    #[serde(default)]
    pub during: u8,
    /// the relying party is this host (origin https://<host>, RP id defaulted from it) instead of
    /// example.com: host-like constants of the client's sources and their neighbours.  A host the
    /// client does not accept as RP id at all (probe registration without credProps fails) is skipped
    #[serde(default)]
    pub host: Option<String>,
    /// authenticatorAttachment in the selection criteria: 0 absent, 1 platform, 2 cross-platform
    /// (the residentKey mapping does not depend on it)
    #[serde(default)]
    pub attachment: u8,
    /// the authenticator's user verification: 0 configured, 1 supported but not configured, 2 none
    /// (with 1 and 2 every ceremony asks userVerification = discouraged, or it would be refused for
    /// that reason); what the authenticator can verify has no say in what it can store
    #[serde(default)]
    pub uv_cap: u8,
}
fn with_case_origin<R>(c: &Case, org: super::common::Org, f: impl FnOnce(passkey_client::Origin<'_>) -> R) -> R {
    match &c.host {
        Some(h) => {
            let u = url::Url::parse(&format!("https://{h}")).expect("harness: host url");
            f(passkey_client::Origin::Web(std::borrow::Cow::Borrowed(&u)))
        }
        None => super::common::with_origin(org, f),
    }
}
fn cap_of(c: u8) -> Cap {
    match c {
        0 => Cap::Full,
        1 => Cap::OnlyNonDiscoverable,
        _ => Cap::ForcedDiscoverable,
    }
}

/// host-like string constants of the client's sources, and neighbours of each
fn dict_hosts() -> Vec<String> {
    let mut v = vec![];
    for l in crate::core::dict::source_literals(&["passkey-client"], 40) {
        let Ok(t) = String::from_utf8(l) else { continue };
        let t = t.to_ascii_lowercase();
        if !t.contains('.') || !t.bytes().all(|b| b.is_ascii_alphanumeric() || b == b'.' || b == b'-') || t.starts_with(['.', '-']) || t.ends_with(['.', '-']) || t.contains("..") {
            continue;
        }
        v.push(t.clone());
        v.push(format!("www.{t}"));
        v.push(format!("x{t}"));
    }
    v.sort();
    v.dedup();
    v
}

pub fn cases() -> Vec<Case> {
    let mut v = vec![];
    for cap in 0..3 {
        for resident_key in 0..5 {
            for require_resident_key in [false, true] {
                if resident_key == 0 && require_resident_key {
                    continue; // no selection object, nothing to put the flag in
                }
                for cred_props in 0..3 {
                    for (hmac, hmac_mc) in [(0u8, false), (1, false), (2, false), (2, true)] {
                        for prf in 0..5u8 {
                            for counter in [false, true] {
                                let cfg = super::common::AuthCfg { counter, id_len: None, hmac, hmac_mc, order: 0 };
                                // the wrappers are spread over the configuration cells, and every
                                // residentKey x capability cell meets every wrapper with default configuration
                                let wrap = (hmac + prf + u8::from(counter)) % 4;
                                v.push(Case { cap, resident_key, require_resident_key, cred_props, ctap: false, rk: false, cfg, prf, wrap, prior: 0, android: false, during: 0, host: None, attachment: 0, uv_cap: 0 });
                                if wrap == 0 {
                                    v.push(Case { cap, resident_key, require_resident_key, cred_props, ctap: false, rk: false, cfg, prf, wrap, prior: 0, android: true, during: 0, host: None, attachment: 0, uv_cap: 0 });
                                    if cred_props == 2 {
                                        for during in 1..3u8 {
                                            v.push(Case { cap, resident_key, require_resident_key, cred_props, ctap: false, rk: false, cfg, prf, wrap, prior: 0, android: false, during, host: None, attachment: 0, uv_cap: 0 });
                                        }
                                    }
                                }
                                if hmac == 0 && prf == 0 && !counter {
                                    for wrap in 1..4u8 {
                                        v.push(Case { cap, resident_key, require_resident_key, cred_props, ctap: false, rk: false, cfg, prf, wrap, prior: 0, android: false, during: 0, host: None, attachment: 0, uv_cap: 0 });
                                    }
                                    for prior in 1..3u8 {
                                        for wrap in [0u8, 1] {
                                            v.push(Case { cap, resident_key, require_resident_key, cred_props, ctap: false, rk: false, cfg, prf, wrap, prior, android: false, during: 0, host: None, attachment: 0, uv_cap: 0 });
                                        }
                                    }
                                }
                            }
                        }
                    }
                }
            }
        }
        // authenticators without (configured) user verification
        for resident_key in 1..5 {
            for require_resident_key in [false, true] {
                for cred_props in [0u8, 2] {
                    for uv_cap in 1..3u8 {
                        v.push(Case { cap, resident_key, require_resident_key, cred_props, ctap: false, rk: false, cfg: Default::default(), prf: 0, wrap: 0, prior: 0, android: false, during: 0, host: None, attachment: 0, uv_cap });
                    }
                }
            }
        }
        // authenticatorAttachment present in the selection criteria
        for resident_key in 1..5 {
            for require_resident_key in [false, true] {
                for cred_props in [0u8, 2] {
                    for attachment in 1..3u8 {
                        for wrap in [0u8, 2] {
                            v.push(Case { cap, resident_key, require_resident_key, cred_props, ctap: false, rk: false, cfg: Default::default(), prf: 0, wrap, prior: 0, android: false, during: 0, host: None, attachment, uv_cap: 0 });
                        }
                    }
                }
            }
        }
        // host-like constants of the client's sources as relying parties
        for host in dict_hosts() {
            for (resident_key, cred_props) in [(0u8, 2u8), (4, 2), (3, 0)] {
                v.push(Case { cap, resident_key, require_resident_key: false, cred_props, ctap: false, rk: false, cfg: Default::default(), prf: 0, wrap: 0, prior: 0, android: false, during: 0, host: Some(host.clone()), attachment: 0, uv_cap: 0 });
            }
        }
        for rk in [false, true] {
            for (hmac, hmac_mc) in [(0u8, false), (2, true)] {
                let cfg = super::common::AuthCfg { counter: hmac != 0, id_len: (hmac != 0).then_some(32), hmac, hmac_mc, order: 0 };
                for wrap in 0..4u8 {
                    v.push(Case { cap, resident_key: 0, require_resident_key: false, cred_props: 0, ctap: true, rk, cfg, prf: 0, wrap, prior: 0, android: false, during: 0, host: None, attachment: 0, uv_cap: 0 });
                }
                for prior in 1..3u8 {
                    v.push(Case { cap, resident_key: 0, require_resident_key: false, cred_props: 0, ctap: true, rk, cfg, prf: 0, wrap: 0, prior, android: false, during: 0, host: None, attachment: 0, uv_cap: 0 });
                }
            }
        }
    }
    v
}

/// WebAuthn §5.1.3 mapping of residentKey / requireResidentKey to the CTAP rk option.
fn expected_rk(c: &Case, authenticator_supports_rk: bool) -> bool {
    match c.resident_key {
        4 => true,
        3 => authenticator_supports_rk,
        2 => false,
        _ => c.require_resident_key,
    }
}

pub fn eval(c: &Case) -> (Vec<Finding>, String) {
    if let Some(h) = &c.host {
        if url::Url::parse(&format!("https://{h}")).is_err() {
            return (vec![], "host-not-acceptable".into());
        }
        // probe: is the host acceptable as a relying party at all?
        let (_, o) = eval_inner(&Case { cred_props: 0, ..c.clone() });
        if o == "failed" || o == "panic" {
            return (vec![], "host-not-acceptable".into());
        }
    }
    eval_inner(c)
}
fn eval_inner(c: &Case) -> (Vec<Finding>, String) {
    let cap = cap_of(c.cap);
    let mut rs = RefStore::new();
    rs.cap = cap;
    let store = Shared::new(rs);
    let log = Log::new();
    let logging = Logging { inner: store.clone(), log: log.clone() };
    match c.wrap {
        1 => eval_on(c, std::sync::Arc::new(tokio::sync::Mutex::new(logging)), store, log),
        2 => eval_on(c, std::sync::Arc::new(tokio::sync::RwLock::new(logging)), store, log),
        3 => eval_on(c, tokio::sync::Mutex::new(logging), store, log),
        _ => eval_on(c, logging, store, log),
    }
}

fn eval_on<S>(c: &Case, handed: S, store: Shared<RefStore>, log: Log) -> (Vec<Finding>, String)
where
    S: passkey_authenticator::CredentialStore<PasskeyItem = passkey_types::Passkey> + Send + Sync,
{
    let case = serde_json::to_value(c).unwrap();
    let mut fs = vec![];
    let cap = cap_of(c.cap);
    let uvm = match c.uv_cap {
        0 => ScriptedUv::consenting(log.clone()),
        1 => ScriptedUv::consenting(log.clone()).cap(Some(false)).outcome(UvOutcome::Ok { presence: true, verification: false }),
        _ => ScriptedUv::consenting(log.clone()).cap(None).outcome(UvOutcome::Ok { presence: true, verification: false }),
    };
    let auth = super::common::mk_auth(handed, uvm, &c.cfg);
    let org = if c.android { super::common::Org::Android } else { super::common::Org::HostIsRp };
    let supports = cap != Cap::OnlyNonDiscoverable;
    let rk = if c.ctap { c.rk } else { expected_rk(c, supports) };
    let mut bad = |kind: &str, d: String| fs.push(Finding::new(format!("level={}/kind={kind}", if c.ctap { "ctap2" } else { "client" }), d, case.clone()));

    // ---- registration
    let (ok, cred_props_out, new_id): (bool, Option<Option<bool>>, Option<Vec<u8>>);
    let mut client = Client::new(auth);
    if c.during != 0 {
        // the ceremony starts under another capability; the final one arrives during the prompt
        store.0.lock().unwrap().cap = cap_of((c.cap + c.during) % 3);
        let (s2, final_cap) = (store.clone(), cap);
        log.set_prompt_hook(std::sync::Arc::new(move || s2.0.lock().unwrap().cap = final_cap));
    }
    if c.prior != 0 {
        // earlier life of this authenticator under another store capability
        store.0.lock().unwrap().cap = cap_of((c.cap + c.prior) % 3);
        if c.prior == 1 {
            let _ = par::catch(|| block_on(client.authenticator_mut().get_info()));
        } else {
            let req = mc_request("example.com", &[8, 8], None, false, true, true, false, None);
            let _ = par::catch(|| block_on(client.authenticator_mut().make_credential(req)));
        }
        store.0.lock().unwrap().cap = cap;
        let _ = log.take();
    }
    let stored_before = store.0.lock().unwrap().recs_ordered().len();
    if c.ctap {
        let req = mc_request("example.com", &[7, 7], None, c.rk, true, true, false, None);
        match par::catch(|| block_on(client.authenticator_mut().make_credential(req))) {
            Err(p) => {
                bad("panic", format!("make_credential panicked: {p}"));
                return (fs, "panic".into());
            }
            Ok(Ok(r)) => {
                ok = true;
                cred_props_out = None;
                new_id = r.auth_data.attested_credential_data.as_ref().map(|a| a.credential_id().to_vec());
            }
            Ok(Err(_)) => {
                ok = false;
                cred_props_out = None;
                new_id = None;
            }
        }
    } else {
        let selection = (c.resident_key != 0).then(|| webauthn::AuthenticatorSelectionCriteria {
            authenticator_attachment: match c.attachment {
                1 => Some(webauthn::AuthenticatorAttachment::Platform),
                2 => Some(webauthn::AuthenticatorAttachment::CrossPlatform),
                _ => None,
            },
            resident_key: match c.resident_key {
                2 => Some(RK::Discouraged),
                3 => Some(RK::Preferred),
                4 => Some(RK::Required),
                _ => None,
            },
            require_resident_key: c.require_resident_key,
            user_verification: if c.uv_cap != 0 { webauthn::UserVerificationRequirement::Discouraged } else { Default::default() },
        });
        let prf = match c.prf {
            0 | 3 => None,
            1 => Some(webauthn::AuthenticationExtensionsPrfInputs { eval: None, eval_by_credential: None }),
            _ => Some(webauthn::AuthenticationExtensionsPrfInputs { eval: Some(webauthn::AuthenticationExtensionsPrfValues { first: vec![1, 2, 3].into(), second: None }), eval_by_credential: None }),
        };
        // 3: only the pre-hashed variant of the PRF input; 4: both variants
        let prf_already_hashed = (c.prf >= 3).then(|| webauthn::AuthenticationExtensionsPrfInputs { eval: Some(webauthn::AuthenticationExtensionsPrfValues { first: vec![9; 32].into(), second: None }), eval_by_credential: None });
        let extensions = (c.cred_props != 0 || c.prf != 0).then(|| webauthn::AuthenticationExtensionsClientInputs { cred_props: (c.cred_props != 0).then_some(c.cred_props == 2), prf, prf_already_hashed });
        let opts = creation_options(Reg { rp_id: c.android.then(|| "example.com".to_string()), selection, extensions, user_id: vec![7, 7], ..Default::default() });
        match par::catch(|| with_case_origin(c, org, |o| block_on(client.register(o, opts, DefaultClientData)))) {
            Err(p) => {
                bad("panic", format!("register panicked: {p}"));
                return (fs, "panic".into());
            }
            Ok(Ok(cred)) => {
                ok = true;
                cred_props_out = cred.client_extension_results.cred_props.as_ref().map(|p| p.discoverable);
                new_id = Some(cred.raw_id.to_vec());
            }
            Ok(Err(_)) => {
                ok = false;
                cred_props_out = None;
                new_id = None;
            }
        }
    }
    let events = log.take();
    let saves: Vec<&Event> = events.iter().filter(|e| matches!(e, Event::Save { .. })).collect();
    let stored = store.0.lock().unwrap().recs_ordered();
    if c.during != 0 {
        // the resident-key option was decided under the earlier capability, which is fine; what is
        // demanded is that credProps and the assertions tell the truth about what was stored
        let Some(rec) = stored.last().cloned().filter(|_| ok && stored.len() > stored_before) else { return (fs, "capability-changed-during-prompt:not-stored".into()) };
        match cred_props_out {
            Some(Some(v)) if v != rec.handle.is_some() => bad("cred-props-untruthful", format!("the store's capability changed during the prompt: credProps.rk = {v} but the stored credential is discoverable = {}", rec.handle.is_some())),
            _ => {}
        }
        return (fs, format!("capability-changed-during-prompt:discoverable={}", rec.handle.is_some()));
    }
    let refuse = rk && cap == Cap::OnlyNonDiscoverable;
    let outcome;
    if refuse {
        outcome = "refused-required-rk".to_string();
        if ok {
            bad("required-rk-not-refused", "resident key required (rk=true) on a store that only holds non-discoverable credentials, yet the registration succeeded".into());
        }
        if stored.len() != stored_before || !saves.is_empty() {
            bad("refused-but-stored", format!("refused registration left {} records / {} save calls", stored.len(), saves.len()));
        }
        return (fs, outcome);
    }
    if !ok {
        bad("unexpected-failure", "registration failed although the capability admits the request".into());
        return (fs, "failed".into());
    }
    // rk option as seen by the store
    match saves.as_slice() {
        [Event::Save { rk: seen, .. }] => {
            if *seen != rk {
                bad("rk-option-differs", format!("store saw rk={seen}, WebAuthn mapping gives rk={rk}"));
            }
        }
        other => bad("save-count", format!("{} save calls", other.len())),
    }
    let discoverable = cap.discoverable(rk);
    let Some(rec) = stored.last().cloned() else {
        bad("nothing-stored", "successful registration stored nothing".into());
        return (fs, "ok-nothing-stored".into());
    };
    if rec.handle.is_some() != discoverable {
        bad("user-handle-storage", format!("capability {cap:?}, rk={rk}: discoverable should be {discoverable} but the record stores handle={:?}", rec.handle.is_some()));
    }
    if let Some(h) = &rec.handle {
        if h != &vec![7u8, 7] {
            bad("user-handle-value", "stored user handle is not the request's user id".into());
        }
    }
    if !c.ctap && c.cred_props == 2 {
        match cred_props_out {
            Some(Some(v)) => {
                if v != rec.handle.is_some() {
                    bad("cred-props-untruthful", format!("credProps.rk = {v} but the stored credential is discoverable = {}", rec.handle.is_some()));
                }
            }
            other => bad("cred-props-missing", format!("credProps requested but output is {other:?}")),
        }
    }
    outcome = format!("stored:discoverable={}", rec.handle.is_some());
    // ---- assertions with the new credential: with the default requirement, and with verification
    // discouraged on a second client whose user is present but not verified
    let id = new_id.unwrap_or_default();
    for unverified in [false, true] {
    let opts = request_options(Auth { rp_id: c.android.then(|| "example.com".to_string()), allow: Some(vec![id.clone()]), uv: if unverified || c.uv_cap != 0 { webauthn::UserVerificationRequirement::Discouraged } else { Default::default() }, ..Default::default() });
    let res = if unverified {
        let uv2 = ScriptedUv::consenting(Log::new()).outcome(UvOutcome::Ok { presence: true, verification: false });
        let mut c2 = Client::new(Authenticator::new(Aaguid::new_empty(), store.clone(), uv2));
        par::catch(|| with_case_origin(c, org, |o| block_on(c2.authenticate(o, opts, DefaultClientData))))
    } else {
        par::catch(|| with_case_origin(c, org, |o| block_on(client.authenticate(o, opts, DefaultClientData))))
    };
    match res {
        Err(p) => bad("panic", format!("authenticate panicked: {p}")),
        Ok(Err(e)) => bad("assertion-fails", format!("assertion with the new credential failed: {e:?}")),
        Ok(Ok(a)) => {
            if a.response.user_handle.is_some() != rec.handle.is_some() {
                bad("assertion-user-handle", format!("assertion userHandle present = {}, stored = {}", a.response.user_handle.is_some(), rec.handle.is_some()));
            }
            if let (Some(h), Some(s)) = (&a.response.user_handle, &rec.handle) {
                if h.to_vec() != *s {
                    bad("assertion-user-handle-value", "assertion returned another user handle than stored".into());
                }
            }
        }
    }
    }
    (fs, outcome)
}

/// Imported credentials whose user handle stands in a byte relation to other fields of the same
/// record (equal to the credential id, a prefix of it, the id plus a byte, the id reversed, the RP
/// ID as bytes, empty): an assertion returns exactly the stored user handle, with an allow list
/// and without one.
fn imported_one(rel: u8, with_list: bool) -> Vec<(String, String)> {
    let id = cred_id(1);
    let handle: Vec<u8> = match rel {
        0 => id.clone(),
        1 => id[..8].to_vec(),
        2 => [id.clone(), vec![0]].concat(),
        3 => id.iter().rev().cloned().collect(),
        4 => b"example.com".to_vec(),
        5 => vec![],
        _ => vec![7, 7],
    };
    let mut p = seeded(&Seed { n: 1, rp: "example.com".into(), handle: Some(handle.clone()), counter: Some(1), hmac: None });
    p.credential_id = id.clone().into();
    let store = Shared::new(RefStore::with(vec![p]));
    let mut client = Client::new(Authenticator::new(Aaguid::new_empty(), store, ScriptedUv::consenting(Log::new())));
    let url = url::Url::parse("https://example.com").unwrap();
    let opts = request_options(Auth { allow: with_list.then(|| vec![id.clone()]), ..Default::default() });
    match par::catch(|| block_on(client.authenticate(&url, opts, DefaultClientData))) {
        Err(p) => vec![("panic".into(), p)],
        Ok(Err(e)) => vec![("assertion-fails".into(), format!("assertion with an imported credential (user handle relation {rel}) failed: {e:?}"))],
        Ok(Ok(a)) => {
            let got = a.response.user_handle.as_ref().map(|u| u.to_vec());
            if got != Some(handle.clone()) {
                vec![("assertion-user-handle-value".into(), format!("stored user handle {} (relation {rel} to the credential id {}), the assertion returns {:?}", hex(&handle), hex(&id), got.map(|g| hex(&g))))]
            } else {
                vec![]
            }
        }
    }
}

// ------------------------------------------------------------------------------------------
// Overlapping ceremonies on a shared store (the shipped tokio lock wrappers): while one client's
// registration is suspended inside a store call - holding the lock - another client reads the
// store's capability, registers, or asks getInfo.  Under EVERY interleaving each ceremony obeys the
// same table as when it runs alone: the capability a ceremony sees is the store's, not a guess made
// because the store was busy.
#[derive(Clone, Debug)]
enum OvOut {
    Registered { id: Vec<u8>, cred_props: Option<bool> },
    Failed(String),
    Info { rk: bool },
}
fn overlap_one(cap: u8, lock: u8, a: u8, b: u8, bound: Option<usize>, cap_schedules: u64) -> (Vec<(String, String)>, u64, bool) {
    use crate::core::exec::{self, End, Task};
    use std::cell::RefCell;
    use std::rc::Rc;
    type Results = Rc<RefCell<Vec<Option<OvOut>>>>;
    let capv = cap_of(cap);
    let build = || -> (Vec<Task>, Results, Box<dyn Fn() -> Vec<Rec>>) {
        let mut rs = RefStore::with(vec![]);
        rs.cap = capv;
        let inner = Yielding { inner: rs, before: 1, after: 1 };
        let results: Results = Rc::new(RefCell::new(vec![None, None]));
        macro_rules! tasks_for {
            ($shared:expr) => {{
                let shared = $shared;
                let mut tasks: Vec<Task> = vec![];
                for (i, what) in [a, b].into_iter().enumerate() {
                    let store = shared.clone();
                    let results = results.clone();
                    tasks.push(Box::pin(async move {
                        let mut uv = ScriptedUv::consenting(Log::new());
                        uv.yields = 1;
                        let auth = Authenticator::new(Aaguid::new_empty(), store, uv);
                        let out = if what == 0 {
                            let info = auth.get_info().await;
                            OvOut::Info { rk: info.options.as_ref().map_or(false, |o| o.rk) }
                        } else {
                            let mut client = Client::new(auth);
                            let selection = Some(webauthn::AuthenticatorSelectionCriteria {
                                authenticator_attachment: None,
                                resident_key: Some(match what {
                                    2 => RK::Discouraged,
                                    3 => RK::Preferred,
                                    _ => RK::Required,
                                }),
                                require_resident_key: false,
                                user_verification: Default::default(),
                            });
                            let extensions = Some(webauthn::AuthenticationExtensionsClientInputs { cred_props: Some(true), prf: None, prf_already_hashed: None });
                            let opts = creation_options(Reg { selection, extensions, user_id: vec![7, i as u8], ..Default::default() });
                            let origin = url::Url::parse("https://example.com").unwrap();
                            match client.register(&origin, opts, DefaultClientData).await {
                                Ok(c) => OvOut::Registered { id: c.raw_id.to_vec(), cred_props: c.client_extension_results.cred_props.as_ref().and_then(|p| p.discoverable) },
                                Err(e) => OvOut::Failed(format!("{e:?}")),
                            }
                        };
                        results.borrow_mut()[i] = Some(out);
                    }));
                }
                let s2 = shared.clone();
                (tasks, results.clone(), Box::new(move || s2.try_lock_recs()) as Box<dyn Fn() -> Vec<Rec>>)
            }};
        }
        if lock == 0 {
            tasks_for!(std::sync::Arc::new(tokio::sync::Mutex::new(inner)))
        } else {
            tasks_for!(std::sync::Arc::new(tokio::sync::RwLock::new(inner)))
        }
    };
    let mut found: std::collections::BTreeMap<String, String> = Default::default();
    let current: RefCell<Option<(Results, Box<dyn Fn() -> Vec<Rec>>)>> = RefCell::new(None);
    let horizon = 2000;
    let supports = capv != Cap::OnlyNonDiscoverable;
    let st = exec::explore(
        || {
            let (tasks, results, store) = build();
            *current.borrow_mut() = Some((results, store));
            tasks
        },
        bound,
        horizon,
        cap_schedules,
        |ex| {
            let cur = current.borrow();
            let (results, store) = cur.as_ref().unwrap();
            if ex.end != End::AllDone {
                found.entry("overlap-does-not-finish".into()).or_insert_with(|| format!("{:?}; schedule {:?}", ex.end, ex.trace));
                return;
            }
            let recs = store();
            for (i, what) in [a, b].into_iter().enumerate() {
                let out = results.borrow()[i].clone();
                let mut bad = |kind: &str, d: String| {
                    found.entry(kind.to_string()).or_insert_with(|| format!("{d}; ceremony #{i} of [{}, {}] on a {:?} store behind {}; schedule {:?}", ov_name(a), ov_name(b), capv, if lock == 0 { "Arc<Mutex>" } else { "Arc<RwLock>" }, ex.trace));
                };
                match (what, out) {
                    (_, None) => bad("overlap-no-result", "the ceremony ended without a result".into()),
                    (0, Some(OvOut::Info { rk })) => {
                        if rk != supports {
                            bad("getinfo-rk-untruthful", format!("getInfo reports rk={rk} while the store's capability gives rk={supports}"));
                        }
                    }
                    (0, Some(o)) => bad("overlap-no-result", format!("{o:?}")),
                    (w, Some(o)) => {
                        let rk = match w {
                            2 => false,
                            3 => supports,
                            _ => true,
                        };
                        let refuse = rk && capv == Cap::OnlyNonDiscoverable;
                        match o {
                            OvOut::Registered { id, cred_props } => {
                                if refuse {
                                    bad("required-rk-not-refused", "resident key required on a store that only holds non-discoverable credentials, yet the registration succeeded".into());
                                }
                                match recs.iter().find(|r| r.id == id) {
                                    None => bad("nothing-stored", "successful registration is not in the store".into()),
                                    Some(rec) => {
                                        if !refuse && rec.handle.is_some() != capv.discoverable(rk) {
                                            bad("user-handle-storage", format!("rk={rk}: discoverable should be {} but the record stores handle={}", capv.discoverable(rk), rec.handle.is_some()));
                                        }
                                        match cred_props {
                                            Some(v) if v != rec.handle.is_some() => bad("cred-props-untruthful", format!("credProps.rk = {v} but the stored credential is discoverable = {}", rec.handle.is_some())),
                                            None => bad("cred-props-missing", "credProps requested but absent".into()),
                                            _ => {}
                                        }
                                    }
                                }
                            }
                            OvOut::Failed(e) => {
                                if !refuse {
                                    bad("unexpected-failure", format!("registration failed ({e}) although the capability admits the request"));
                                }
                            }
                            OvOut::Info { .. } => {}
                        }
                    }
                }
            }
        },
    );
    match st {
        Ok(st) => (found.into_iter().map(|(k, d)| (k, d)).collect(), st.schedules, st.capped),
        Err(e) => (vec![("overlap-machinery".into(), e)], 0, false),
    }
}
fn ov_name(w: u8) -> &'static str {
    match w {
        0 => "getInfo",
        2 => "register(discouraged)",
        3 => "register(preferred)",
        _ => "register(required)",
    }
}
trait TryLockRecs {
    fn try_lock_recs(&self) -> Vec<Rec>;
}
impl TryLockRecs for std::sync::Arc<tokio::sync::Mutex<Yielding<RefStore>>> {
    fn try_lock_recs(&self) -> Vec<Rec> {
        self.try_lock().map(|g| g.inner.recs()).unwrap_or_default()
    }
}
impl TryLockRecs for std::sync::Arc<tokio::sync::RwLock<Yielding<RefStore>>> {
    fn try_lock_recs(&self) -> Vec<Rec> {
        self.try_read().map(|g| g.inner.recs()).unwrap_or_default()
    }
}

pub fn run(ctx: &Ctx) -> Result<Run, String> {
    let cs = cases();
    let stats = par::sweep_cases(&cs, ctx.threads, |c, st| {
        let (fs, o) = eval(c);
        st.case(c, o != "failed", &o);
        st.sample(|| json!(c));
        st.findings_from(fs);
    });
    let mut stats = stats;
    for rel in 0..7u8 {
        for with_list in [false, true] {
            stats.case(&("imported", rel, with_list), true, "imported-credential");
            for (k, d) in imported_one(rel, with_list) {
                stats.finding(Finding::new(format!("level=client/kind={k}"), d, json!({"imported": {"rel": rel, "with_list": with_list}})));
            }
        }
    }
    let mut combos: Vec<(u8, u8, u8, u8)> = vec![];
    for cap in 0..3u8 {
        for lock in 0..2u8 {
            for (a, b) in [(4u8, 4u8), (4, 3), (3, 3), (3, 2), (4, 0), (3, 0), (2, 4)] {
                combos.push((cap, lock, a, b));
            }
        }
    }
    let bound = ctx.tier.pick(Some(3), None);
    let ov = par::sweep_cases(&combos, ctx.threads, |&(cap, lock, a, b), st| {
        st.case(&("overlap", cap, lock, a, b), true, "overlapping-ceremonies");
        let (fs, n, c) = overlap_one(cap, lock, a, b, bound, 400_000);
        st.count("overlap_schedules", n);
        st.count("overlap_schedule_cap_hit", u64::from(c));
        for (k, d) in fs {
            st.finding(Finding::new(format!("level=client/overlap/kind={k}"), d, json!({"overlap": {"cap": cap, "lock": lock, "a": a, "b": b}})));
        }
    });
    stats.merge(ov);
    let n = cs.len() as u64;
    let mut run = Run::from_stats(
        "model_checking",
        "complete product store capability(3) x residentKey{no selection, absent, discouraged, preferred, required} x requireResidentKey(2) x authenticatorAttachment{absent, platform, cross-platform} x user-verification capability of the authenticator {configured, unconfigured, none} x credProps{absent,false,true} x authenticator configuration {no hmac-secret, UV-only, with non-UV secret, with evaluation at creation} x prf input {absent, empty, eval, pre-hashed only, both} x counters on/off, the store handed over bare / inside Arc<Mutex> / Arc<RwLock> / Mutex (the shipped lock wrappers), on a fresh authenticator and on one that earlier answered getInfo / registered while the store had another capability, from the web origin and from an Android app origin, and with every dotted host-like string constant of the client's sources (and www.<it>, x<it>) as relying party where the client accepts it, through Client::register + Client::authenticate, plus capability(3) x rk(2) through Authenticator::make_credential; overlapping ceremonies: every interleaving (quick: up to 3 preemptions) of two clients - registrations with residentKey required / preferred / discouraged and credProps, or getInfo - sharing a store of each capability behind Arc<Mutex> and Arc<RwLock> whose calls suspend while the lock is held: each ceremony obeys the same table as alone; imported credentials whose user handle equals / prefixes / extends / reverses the credential id, equals the RP ID bytes or is empty return exactly that handle; each configuration runs a registration and two assertions with the new credential (default requirement with a verified user; verification discouraged with a present but unverified user); every configuration is non-trivial (it reaches save_credential or the required-rk refusal)",
        true,
        stats,
    );
    run.graph(n, n * 3, n * 3);
    run.assume("the residentKey table of WebAuthn L3 §5.1.3 typed into the harness is the oracle; nothing is demanded for credProps false/absent");
    Ok(run)
}

pub fn replay(_ctx: &Ctx, case: &Value) -> Result<Vec<Finding>, String> {
    if let Some(o) = case.get("overlap") {
        let g = |k: &str| o[k].as_u64().unwrap_or(0) as u8;
        return Ok(overlap_one(g("cap"), g("lock"), g("a"), g("b"), None, 400_000).0.into_iter().map(|(k, d)| Finding::new(format!("level=client/overlap/kind={k}"), d, case.clone())).collect());
    }
    if let Some(i) = case.get("imported") {
        return Ok(imported_one(i["rel"].as_u64().unwrap_or(0) as u8, i["with_list"].as_bool().unwrap_or(false)).into_iter().map(|(k, d)| Finding::new(format!("level=client/kind={k}"), d, case.clone())).collect());
    }
    let c: Case = serde_json::from_value(case.clone()).map_err(|e| format!("bad C11 case: {e}"))?;
    Ok(eval(&c).0)
}
