//! C18 – the sealed CTAP2 API trait behaves exactly like the direct authenticator methods.
//! Differential check inside isolated workers (stack limit + watchdog): non-termination and
//! stack overflow of a trait call are verdicts for that case.
use super::c04::{Case as C04Case, Content, Op, CONTENTS};
use crate::core::exec::block_on;
use crate::core::iso::{self, IsoConfig, IsoSpace};
use crate::core::par;
use crate::core::report::*;
use crate::drivers::*;
use passkey_authenticator::{extensions::HmacSecretConfig, Authenticator, Ctap2Api, CredentialStore, MemoryStore};
use passkey_types::ctap2::extensions::{AuthenticatorPrfInputs, AuthenticatorPrfValues};
use passkey_types::ctap2::{get_assertion, make_credential, Aaguid};
use passkey_types::Passkey;
use serde::{Deserialize, Serialize};
use serde_json::{json, Value};
use std::sync::Arc;

#[derive(Clone, Debug, Serialize, Deserialize, PartialEq, Eq, Hash)]
pub struct Case {
    /// "get_info" | "make_credential" | "get_assertion"
    pub api: String,
    pub cfg: C04Case,
    pub content: Content,
    pub memory_store: bool,
    pub prf: bool,
    /// the descriptors of the allow / exclude list carry an unknown credential type
    #[serde(default)]
    pub unknown_type: bool,
    /// the allow / exclude list is present but empty (contents that otherwise carry no list)
    #[serde(default)]
    pub empty_list: bool,
    /// 0 none; else 1 + 7 * op + status: the store fails every find (op 0) / save (1) / update (2)
    /// call with status value number `status` of `drivers::status_value`
    #[serde(default)]
    pub fault: u8,
    /// sizes: 0 as usual; 1 the seeded credential's user handle and the new user's id are 900 bytes
    /// (responses beyond 1 KiB); 2 the same with 4000 bytes
    #[serde(default)]
    pub big: u8,
    /// the contract store is sloppy: it lists every credential of the RP whatever ids are asked for
    #[serde(default)]
    pub sloppy: bool,
    /// time passes: 0 no; k = the user step suspends once and, while it is pending, the clock of the
    /// thread (virtual, core/clock.rs) advances by SLOW_SECS[k-1] - a user who takes their time
    #[serde(default)]
    pub slow: u8,
    /// the authenticator's transports as configured through the builder: 0 not called, 1 [], 2 [usb],
    /// 3 [usb, usb], 4 [hybrid, internal, hybrid], 5 all five in reverse order
    #[serde(default)]
    pub transports: u8,
    /// the relying party of request and stored credentials: 0 example.com, k = rp_ids()[k-1] (long
    /// names, multi-byte characters at every phase so that every byte offset falls inside one)
    #[serde(default)]
    pub rp: u16,
}
pub fn rp_ids() -> Vec<String> {
    let mut v: Vec<String> = vec![];
    for n in [47usize, 48, 49, 63, 64, 65, 255, 256, 1024] {
        v.push(format!("{}.example.com", "a".repeat(n.saturating_sub(12))));
    }
    for (ch, w) in [("é", 2usize), ("€", 3), ("😀", 4), ("ß", 2), ("字", 3)] {
        for k in 0..w {
            v.push(format!("{}{}.example", "a".repeat(k), ch.repeat(150)));
        }
        v.push(format!("{ch}.example.com"));
    }
    v.push(String::new());
    v.push("EXAMPLE.COM".into());
    v.push("example.com.".into());
    v.push("xn--bcher-kva.example".into());
    v.push("a\u{0}b".into());
    v
}
fn rp_name(k: u16) -> String {
    if k == 0 {
        RP.to_string()
    } else {
        rp_ids().get(k as usize - 1).cloned().unwrap_or_else(|| RP.to_string())
    }
}
pub const SLOW_SECS: [u64; 4] = [11, 31, 3601, 90_000];

const RP: &str = "example.com";

pub fn cases(tier: Tier) -> Vec<Case> {
    let mut v = vec![];
    for c in super::c04::cases() {
        if c.level != 0 || c.arc_mutex || c.ext != 0 || c.wire != 0 || c.flip || c.protocol_only || c.outcome > 10 {
            continue;
        }
        // quick: the presence capability only shows in get_info; keep one value for the ceremonies
        if tier == Tier::Quick && !c.presence_cap {
            continue;
        }
        for content in CONTENTS {
            for memory_store in [false, true] {
                for prf in [false, true] {
                    if prf && (c.pin || c.rk) {
                        continue;
                    }
                    let api = if c.op == Op::Make { "make_credential" } else { "get_assertion" };
                    v.push(Case { api: api.into(), cfg: c.clone(), content, memory_store, prf, unknown_type: false, empty_list: false, fault: 0, big: 0, sloppy: false, slow: 0, transports: 0, rp: 0 });
                    // store failures with every status value of the menu, for the configurations in
                    // which the user consents and a matching credential exists / none is excluded
                    if !memory_store && !prf && c.outcome == 3 && c.cap == 2 && !c.pin && c.up && matches!(content, Content::MatchViaList | Content::NoMatch) {
                        for fault in 1..=21u8 {
                            v.push(Case { api: api.into(), cfg: c.clone(), content, memory_store, prf, unknown_type: false, empty_list: false, fault, big: 0, sloppy: false, slow: 0, transports: 0, rp: 0 });
                        }
                    }
                    // a store that lists more than was asked for
                    if !memory_store && !prf && matches!(content, Content::MatchViaList | Content::TwoViaList | Content::OtherRpOnly) {
                        v.push(Case { api: api.into(), cfg: c.clone(), content, memory_store, prf, unknown_type: false, empty_list: false, fault: 0, big: 0, sloppy: true, slow: 0, transports: 0, rp: 0 });
                    }
                    // a slow user: the clock advances while the user step is pending
                    if !memory_store && c.outcome == 3 && c.cap == 2 && !c.pin && c.up && matches!(content, Content::MatchViaList | Content::MatchNoList | Content::NoMatch) {
                        for slow in 1..=SLOW_SECS.len() as u8 {
                            v.push(Case { api: api.into(), cfg: c.clone(), content, memory_store, prf, unknown_type: false, empty_list: false, fault: 0, big: 0, sloppy: false, slow, transports: 0, rp: 0 });
                        }
                    }
                    // large user handles / ids: the response grows beyond 1 KiB and 4 KiB
                    if !prf && c.outcome == 3 && c.cap == 2 && !c.pin && c.up && matches!(content, Content::MatchViaList | Content::MatchNoList | Content::NoMatch) {
                        for big in 1..3u8 {
                            v.push(Case { api: api.into(), cfg: c.clone(), content, memory_store, prf, unknown_type: false, empty_list: false, fault: 0, big, sloppy: false, slow: 0, transports: 0, rp: 0 });
                        }
                    }
                    // other relying-party names: long ones, multi-byte characters at every phase
                    if c.outcome == 3 && c.cap == 2 && !c.pin && c.up && !c.rk && matches!(content, Content::MatchViaList | Content::NoMatch) {
                        for rp in 1..=rp_ids().len() as u16 {
                            v.push(Case { api: api.into(), cfg: c.clone(), content, memory_store, prf, unknown_type: false, empty_list: false, fault: 0, big: 0, sloppy: false, slow: 0, transports: 0, rp });
                        }
                    }
                    if matches!(content, Content::NoMatch | Content::MatchNoList | Content::TwoNoList) {
                        v.push(Case { api: api.into(), cfg: c.clone(), content, memory_store, prf, unknown_type: false, empty_list: true, fault: 0, big: 0, sloppy: false, slow: 0, transports: 0, rp: 0 });
                    }
                    if matches!(content, Content::MatchViaList | Content::OtherRpOnly | Content::TwoViaList) && !prf {
                        v.push(Case { api: api.into(), cfg: c.clone(), content, memory_store, prf, unknown_type: true, empty_list: false, fault: 0, big: 0, sloppy: false, slow: 0, transports: 0, rp: 0 });
                    }
                }
            }
        }
    }
    for cap in 0..3u8 {
        for presence_cap in [false, true] {
            for memory_store in [false, true] {
                for prf in [false, true] {
                    let cfg = C04Case { op: Op::Get, rk: false, up: true, uv: false, cap, presence_cap, outcome: 3, pin: false, arc_mutex: false, level: 0, uvreq: 0, ext: 0, wire: 0, flip: false, protocol_only: false };
                    for transports in 0..6u8 {
                        v.push(Case { api: "get_info".into(), cfg: cfg.clone(), content: Content::NoMatch, memory_store, prf, unknown_type: false, empty_list: false, fault: 0, big: 0, sloppy: false, slow: 0, transports, rp: 0 });
                    }
                }
            }
        }
    }
    v
}

fn seeds(content: Content) -> (Vec<Passkey>, Option<Vec<Vec<u8>>>) {
    seeds_sized(content, 0, RP)
}
fn big_len(big: u8) -> usize {
    match big {
        1 => 900,
        2 => 4000,
        _ => 3,
    }
}
fn seeds_sized(content: Content, big: u8, rp_id: &str) -> (Vec<Passkey>, Option<Vec<Vec<u8>>>) {
    let own = seeded(&Seed { n: 1, rp: rp_id.into(), handle: Some(if big == 0 { vec![1, 2, 3] } else { vec![0x31; big_len(big)] }), counter: Some(5), hmac: Some(true) });
    let other = seeded(&Seed { n: 2, rp: "other.org".into(), handle: Some(vec![1, 2, 3]), counter: Some(5), hmac: None });
    let own2 = seeded(&Seed { n: 3, rp: rp_id.into(), handle: Some(vec![4, 5]), counter: Some(9), hmac: Some(false) });
    match content {
        Content::TwoViaList => (vec![own.clone(), other.clone(), own2], Some(vec![cred_id(1), cred_id(3)])),
        Content::TwoNoList => (vec![own.clone(), other.clone(), own2], None),
        Content::NoMatch => (vec![], None),
        Content::MatchViaList => (vec![other, own], Some(vec![cred_id(1)])),
        Content::TwoViaVeryLongList => (vec![own.clone(), other.clone(), own2.clone()], Some(super::c04::very_long_list())),
        Content::MatchViaLongList => {
            let unknown = |k: u8| -> Vec<u8> { [vec![0xD0, k], vec![0x77; 14]].concat() };
            (vec![other, own], Some((0..16u8).map(unknown).chain([cred_id(1)]).chain((16..39u8).map(unknown)).collect()))
        }
        Content::MatchNoList => (vec![other, own], None),
        Content::OtherRpOnly => (vec![other], Some(vec![cred_id(2)])),
    }
}

/// normalised observation of one call
#[derive(Debug, PartialEq)]
struct Obs {
    result: String,
    store: Vec<(String, Option<Vec<u8>>, Option<u32>, bool)>,
    log: Vec<String>,
}

fn norm_store(recs: Vec<Rec>) -> Vec<(String, Option<Vec<u8>>, Option<u32>, bool)> {
    let mut v: Vec<_> = recs.into_iter().map(|r| (r.rp, r.handle, r.counter, r.uv_secret.is_some())).collect();
    v.sort();
    v
}
fn norm_log(ev: Vec<Event>) -> Vec<String> {
    ev.iter()
        .map(|e| match e {
            Event::Find { ids, rp, result } => format!("find({:?},{rp})={}", ids.as_ref().map(|l| l.len()), match result {
                Ok(v) => format!("ok{}", v.len()),
                Err(b) => format!("err{b:02x}"),
            }),
            Event::Save { rp_id, rk, up, uv, has_handle, counter, result, .. } => format!("save({rp_id},{rk},{up},{uv},{has_handle},{counter:?})={result:?}"),
            Event::Update { counter, result, .. } => format!("update({counter:?})={result:?}"),
            Event::Info => "info".into(),
            Event::CheckUser { cred, up, uv, result } => format!("check_user({},{up},{uv})={result:?}", cred.is_some()),
        })
        .collect()
}

// The doors to the trait: a fully qualified call on the concrete type, a generic bound, a
// `&mut dyn`, a `Box<dyn Ctap2Api + Send + Sync>` (method lookup on a pointer type finds the
// pointer's own impl first, were there one).  get_info goes through all of them and they must
// agree; the two ceremonies take one door each, chosen by the case.
async fn info_by_bound<A: Ctap2Api + ?Sized>(a: &A) -> passkey_types::ctap2::get_info::Response {
    a.get_info().await
}
async fn make_by_bound<A: Ctap2Api + ?Sized>(a: &mut A, r: make_credential::Request) -> Result<make_credential::Response, passkey_types::ctap2::StatusCode> {
    a.make_credential(r).await
}
async fn get_by_bound<A: Ctap2Api + ?Sized>(a: &mut A, r: get_assertion::Request) -> Result<get_assertion::Response, passkey_types::ctap2::StatusCode> {
    a.get_assertion(r).await
}
fn door(c: &Case) -> usize {
    (c.cfg.outcome as usize + c.cfg.cap as usize + c.rp as usize + c.fault as usize + usize::from(c.memory_store) + usize::from(c.prf)) % 4
}

fn call<S>(c: &Case, store: S, via_trait: bool, list: Option<Vec<Vec<u8>>>, log: Log) -> String
where
    S: CredentialStore<PasskeyItem = Passkey> + Send + Sync + 'static,
{
    let cfg = &c.cfg;
    let uv = ScriptedUv {
        verification_cap: match cfg.cap {
            0 => None,
            1 => Some(false),
            _ => Some(true),
        },
        presence_cap: cfg.presence_cap,
        outcome: match cfg.outcome {
            0..=3 => UvOutcome::Ok { presence: cfg.outcome & 2 != 0, verification: cfg.outcome & 1 != 0 },
            4 => UvOutcome::Err(0x27),
            5 => UvOutcome::Err(0x2F),
            _ => UvOutcome::Err(0x30),
        },
        yields: usize::from(c.slow != 0),
        log: log.clone(),
    };
    if c.slow != 0 {
        let secs = SLOW_SECS[(c.slow as usize - 1) % SLOW_SECS.len()];
        log.set_prompt_hook(Arc::new(move || crate::core::clock::advance(secs)));
    }
    let mut auth = Authenticator::new(Aaguid::from(*b"harness-aaguid-0"), store, uv);
    if c.prf {
        auth = auth.hmac_secret(HmacSecretConfig::new_without_uv().enable_on_make_credential());
    }
    auth.set_make_credentials_with_signature_counter(true);
    {
        use passkey_types::webauthn::AuthenticatorTransport as T;
        auth = match c.transports {
            1 => auth.transports(vec![]),
            2 => auth.transports(vec![T::Usb]),
            3 => auth.transports(vec![T::Usb, T::Usb]),
            4 => auth.transports(vec![T::Hybrid, T::Internal, T::Hybrid]),
            5 => auth.transports(vec![T::Internal, T::Hybrid, T::Ble, T::Nfc, T::Usb]),
            _ => auth,
        };
    }
    let prf = || AuthenticatorPrfInputs { eval: Some(AuthenticatorPrfValues { first: [3; 32], second: Some([4; 32]) }), eval_by_credential: None };
    match c.api.as_str() {
        "get_info" => {
            if !via_trait {
                return format!("{:?}", block_on(auth.get_info()));
            }
            let r0 = format!("{:?}", block_on(Ctap2Api::get_info(&auth)));
            let r1 = format!("{:?}", block_on(info_by_bound(&auth)));
            let r2 = {
                let d: &mut dyn Ctap2Api = &mut auth;
                format!("{:?}", block_on(d.get_info()))
            };
            let boxed: Box<dyn Ctap2Api + Send + Sync> = Box::new(auth);
            let r3 = format!("{:?}", block_on(boxed.get_info()));
            if r1 != r0 || r2 != r0 || r3 != r0 {
                return format!("THE-DOORS-TO-THE-TRAIT-DISAGREE qualified call: {r0} / generic bound: {r1} / &mut dyn: {r2} / Box<dyn>: {r3}");
            }
            r0
        }
        "make_credential" => {
            let ext = c.prf.then(|| make_credential::ExtensionInputs { hmac_secret: Some(true), hmac_secret_mc: None, prf: Some(prf()) });
            let uid: Vec<u8> = if c.big == 0 { vec![9, 9] } else { vec![0x39; big_len(c.big)] };
            let mut req = mc_request(&rp_name(c.rp), &uid, list, cfg.rk, cfg.up, cfg.uv, cfg.pin, ext);
            if c.unknown_type {
                for d in req.exclude_list.iter_mut().flatten() {
                    d.ty = passkey_types::webauthn::PublicKeyCredentialType::Unknown;
                }
            }
            let r = if !via_trait {
                block_on(auth.make_credential(req))
            } else {
                match door(c) {
                    0 => block_on(Ctap2Api::make_credential(&mut auth, req)),
                    1 => block_on(make_by_bound(&mut auth, req)),
                    2 => {
                        let d: &mut dyn Ctap2Api = &mut auth;
                        block_on(d.make_credential(req))
                    }
                    _ => {
                        let mut boxed: Box<dyn Ctap2Api + Send + Sync> = Box::new(auth);
                        block_on(boxed.make_credential(req))
                    }
                }
            };
            match r {
                Err(e) => {
                    // the status *value* is compared (two values share byte 0x00)
                    let d = format!("{e:?}");
                    format!("err:{:02x}:{d}", sc_byte(e))
                }
                Ok(r) => {
                    let a = r.auth_data.attested_credential_data.as_ref();
                    let labels: Vec<String> = a.map(|a| a.key.params.iter().map(|(l, _)| format!("{l:?}")).collect()).unwrap_or_default();
                    let prf_out = r.unsigned_extension_outputs.as_ref().and_then(|u| u.prf.as_ref()).map(|p| (p.enabled, p.results.is_some(), p.results.as_ref().is_some_and(|x| x.second.is_some())));
                    format!("ok:fmt={} flags={:?} counter={:?} rphash={} idlen={:?} aaguid={:?} labels={labels:?} ext={:?} prf={prf_out:?} epatt={:?} lbk={:?}", r.fmt, r.auth_data.flags, r.auth_data.counter, hex(r.auth_data.rp_id_hash()), a.map(|a| a.credential_id().len()), a.map(|a| a.aaguid), r.auth_data.extensions, r.ep_att, r.large_blob_key.is_some())
                }
            }
        }
        _ => {
            let ext = c.prf.then(|| get_assertion::ExtensionInputs { hmac_secret: None, prf: Some(prf()) });
            let mut req = ga_request(&rp_name(c.rp), list, cfg.rk, cfg.up, cfg.uv, cfg.pin, ext);
            if c.unknown_type {
                for d in req.allow_list.iter_mut().flatten() {
                    d.ty = passkey_types::webauthn::PublicKeyCredentialType::Unknown;
                }
            }
            let r = if !via_trait {
                block_on(auth.get_assertion(req))
            } else {
                match door(c) {
                    0 => block_on(Ctap2Api::get_assertion(&mut auth, req)),
                    1 => block_on(get_by_bound(&mut auth, req)),
                    2 => {
                        let d: &mut dyn Ctap2Api = &mut auth;
                        block_on(d.get_assertion(req))
                    }
                    _ => {
                        let mut boxed: Box<dyn Ctap2Api + Send + Sync> = Box::new(auth);
                        block_on(boxed.get_assertion(req))
                    }
                }
            };
            match r {
                Err(e) => {
                    // the status *value* is compared (two values share byte 0x00)
                    let d = format!("{e:?}");
                    format!("err:{:02x}:{d}", sc_byte(e))
                }
                // signatures are deterministic (RFC 6979), so the whole response must agree
                Ok(r) => format!("ok:{r:?}"),
            }
        }
    }
}

fn observe(c: &Case, via_trait: bool) -> Obs {
    let (items, list) = seeds_sized(c.content, c.big, &rp_name(c.rp));
    let list = if c.empty_list { Some(vec![]) } else { list };
    // on the sloppy store the list names only the credential the store does NOT list first
    let list = if c.sloppy && c.content == Content::TwoViaList { Some(vec![cred_id(1)]) } else { list };
    let log = Log::new();
    if c.fault != 0 {
        let (op, status) = (["find", "save", "update"][((c.fault - 1) / 7) as usize % 3], (c.fault - 1) % 7);
        let shared = Shared::new(RefStore::with(items));
        let result = call(c, FailValue { inner: Logging { inner: shared.clone(), log: log.clone() }, op, status }, via_trait, list, log.clone());
        return Obs { result, store: norm_store(shared.recs()), log: norm_log(log.take()) };
    }
    if c.memory_store {
        let m: MemoryStore = items.into_iter().map(|p| (p.credential_id.to_vec(), p)).collect();
        let shared = Arc::new(tokio::sync::Mutex::new(m));
        let result = call(c, Logging { inner: shared.clone(), log: log.clone() }, via_trait, list, log.clone());
        Obs { result, store: norm_store(shared.recs()), log: norm_log(log.take()) }
    } else {
        let mut rs = RefStore::with(items);
        rs.ignore_ids = c.sloppy;
        let shared = Shared::new(rs);
        let result = call(c, Logging { inner: shared.clone(), log: log.clone() }, via_trait, list, log.clone());
        Obs { result, store: norm_store(shared.recs()), log: norm_log(log.take()) }
    }
}

pub fn eval(c: &Case) -> (Vec<Finding>, String) {
    let case = serde_json::to_value(c).unwrap();
    let mut fs = vec![];
    let direct = match par::catch(|| observe(c, false)) {
        Ok(o) => o,
        Err(p) => {
            // a panic of the direct method is not this property's subject; record the class only
            return (fs, format!("direct-panics:{}", par::panic_site(&p)));
        }
    };
    match par::catch(|| observe(c, true)) {
        Err(p) => fs.push(Finding::new(format!("api={}/kind=trait-call-panics", c.api), format!("direct call returned {}, trait call panicked: {p}", &direct.result[..direct.result.len().min(60)]), case)),
        Ok(t) => {
            if t.result != direct.result {
                fs.push(Finding::new(format!("api={}/kind=result-differs", c.api), format!("direct: {} / trait: {}", &direct.result[..direct.result.len().min(200)], &t.result[..t.result.len().min(200)]), case.clone()));
            }
            if t.store != direct.store {
                fs.push(Finding::new(format!("api={}/kind=store-effect-differs", c.api), format!("direct: {:?} / trait: {:?}", direct.store, t.store), case.clone()));
            }
            // the effect on the store: the mutating calls it received (lookups, capability queries
            // and user-validation calls are not an effect and may legitimately differ)
            let writes = |l: &Vec<String>| l.iter().filter(|e| e.starts_with("save") || e.starts_with("update")).cloned().collect::<Vec<_>>();
            if writes(&t.log) != writes(&direct.log) {
                fs.push(Finding::new(format!("api={}/kind=store-writes-differ", c.api), format!("direct: {:?} / trait: {:?}", writes(&direct.log), writes(&t.log)), case));
            }
        }
    }
    let class = direct.result.split(|ch| ch == ':' || ch == ' ').take(2).collect::<Vec<_>>().join(":");
    (fs, format!("{}:{}", c.api, if class.len() > 12 { &class[..12] } else { &class }))
}

// ------------------------------------------------------------------------------------------
// sequences on one authenticator with a capability change in between: the trait must track the
// direct methods through state changes too (differential, no hand-written expectation)

#[derive(Clone, Debug, Serialize, Deserialize, PartialEq, Eq, Hash)]
pub struct SeqCase {
    /// operations: 0 get_info, 1 make_credential, 2 get_assertion (allow list naming the seeded
    /// credential), 3 get_assertion without allow list, 4 get_assertion with a present but empty
    /// allow list, 5 make_credential rk=false with a present but empty exclude list
    pub ops: Vec<u8>,
    /// what changes between consecutive operations: 0 nothing, 1 verification capability
    /// Some(true) -> None, 2 presence capability true -> false, 3 store capability Full -> OnlyNonDiscoverable
    pub flip: u8,
}

#[derive(Clone)]
struct DynUv {
    cap: Arc<std::sync::Mutex<Option<bool>>>,
    presence: Arc<std::sync::atomic::AtomicBool>,
}
#[async_trait::async_trait]
impl passkey_authenticator::UserValidationMethod for DynUv {
    type PasskeyItem = Passkey;
    async fn check_user<'a>(&self, _c: Option<&'a Passkey>, _p: bool, _v: bool) -> Result<passkey_authenticator::UserCheck, passkey_types::ctap2::Ctap2Error> {
        Ok(passkey_authenticator::UserCheck { presence: true, verification: true })
    }
    fn is_presence_enabled(&self) -> bool {
        self.presence.load(std::sync::atomic::Ordering::SeqCst)
    }
    fn is_verification_enabled(&self) -> Option<bool> {
        *self.cap.lock().unwrap()
    }
}

fn run_seq(c: &SeqCase, via_trait: bool) -> (Vec<String>, Vec<(String, Option<Vec<u8>>, Option<u32>, bool)>) {
    let uv = DynUv { cap: Arc::new(std::sync::Mutex::new(Some(true))), presence: Arc::new(std::sync::atomic::AtomicBool::new(true)) };
    let mut rs = RefStore::with(vec![seeded(&Seed { n: 1, rp: RP.into(), handle: Some(vec![1]), counter: Some(5), hmac: None })]);
    rs.cap = Cap::Full;
    let store = Shared::new(rs);
    let mut auth = Authenticator::new(Aaguid::from(*b"harness-aaguid-0"), store.clone(), uv.clone());
    auth.set_make_credentials_with_signature_counter(true);
    let mut out = vec![];
    for (k, op) in c.ops.iter().enumerate() {
        if k > 0 {
            match c.flip {
                1 => *uv.cap.lock().unwrap() = None,
                2 => uv.presence.store(false, std::sync::atomic::Ordering::SeqCst),
                3 => store.0.lock().unwrap().cap = Cap::OnlyNonDiscoverable,
                _ => {}
            }
        }
        let r = match op {
            0 => {
                let r = if via_trait { block_on(Ctap2Api::get_info(&auth)) } else { block_on(auth.get_info()) };
                format!("{r:?}")
            }
            1 | 5 => {
                let req = if *op == 1 { mc_request(RP, &[9, k as u8], None, true, true, true, false, None) } else { mc_request(RP, &[8, k as u8], Some(vec![]), false, true, false, false, None) };
                let r = if via_trait { block_on(Ctap2Api::make_credential(&mut auth, req)) } else { block_on(auth.make_credential(req)) };
                match r {
                    Ok(r) => format!("ok flags={:?} counter={:?}", r.auth_data.flags, r.auth_data.counter),
                    Err(e) => {
                    // the status *value* is compared (two values share byte 0x00)
                    let d = format!("{e:?}");
                    format!("err:{:02x}:{d}", sc_byte(e))
                }
                }
            }
            _ => {
                let list = match op {
                    2 => Some(vec![cred_id(1)]),
                    3 => None,
                    _ => Some(vec![]),
                };
                let req = ga_request(RP, list, false, true, *op == 2, false, None);
                let r = if via_trait { block_on(Ctap2Api::get_assertion(&mut auth, req)) } else { block_on(auth.get_assertion(req)) };
                match r {
                    // the seeded credential signs deterministically (RFC 6979): whole response;
                    // a credential created earlier in the sequence has a random id and key
                    Ok(r) if r.credential.as_ref().is_some_and(|d| *d.id == cred_id(1)[..]) => format!("ok:{r:?}"),
                    Ok(r) => format!("ok:fresh-credential flags={:?} counter={:?} user={:?} n={:?}", r.auth_data.flags, r.auth_data.counter, r.user.as_ref().map(|u| u.id.to_vec()), r.number_of_credentials),
                    Err(e) => {
                    // the status *value* is compared (two values share byte 0x00)
                    let d = format!("{e:?}");
                    format!("err:{:02x}:{d}", sc_byte(e))
                }
                }
            }
        };
        out.push(r);
    }
    (out, norm_store(store.recs()))
}

pub fn eval_seq(c: &SeqCase) -> (Vec<Finding>, String) {
    let case = json!({"sequence": c});
    let mut fs = vec![];
    let d = match par::catch(|| run_seq(c, false)) {
        Ok(d) => d,
        Err(_) => return (fs, "direct-panics".into()),
    };
    match par::catch(|| run_seq(c, true)) {
        Err(p) => fs.push(Finding::new("sequence/kind=trait-call-panics", p, case)),
        Ok(t) => {
            for (k, (a, b)) in d.0.iter().zip(t.0.iter()).enumerate() {
                if a != b {
                    let api = ["get_info", "make_credential", "get_assertion", "get_assertion", "get_assertion", "make_credential"][c.ops[k] as usize % 6];
                    fs.push(Finding::new(format!("sequence/api={api}/kind=result-differs"), format!("operation #{k} of {:?} (change between operations: {}): direct {} / trait {}", c.ops, c.flip, &a[..a.len().min(160)], &b[..b.len().min(160)]), case.clone()));
                }
            }
            if d.1 != t.1 {
                fs.push(Finding::new("sequence/kind=store-effect-differs", format!("direct {:?} / trait {:?}", d.1, t.1), case));
            }
        }
    }
    (fs, "sequence".into())
}

pub fn seq_cases(tier: Tier) -> Vec<SeqCase> {
    let mut v = vec![];
    for flip in 0..4u8 {
        for a in 0..6u8 {
            for b in 0..6u8 {
                v.push(SeqCase { ops: vec![a, b], flip });
                if tier == Tier::Thorough {
                    for c in 0..6u8 {
                        v.push(SeqCase { ops: vec![a, b, c], flip });
                    }
                }
            }
        }
    }
    v
}

pub struct Space {
    pub cases: Vec<Case>,
    pub seqs: Vec<SeqCase>,
}
impl IsoSpace for Space {
    fn len(&self) -> usize {
        self.cases.len() + self.seqs.len()
    }
    fn eval(&self, idx: usize, st: &mut Stats) {
        if idx >= self.cases.len() {
            let c = &self.seqs[idx - self.cases.len()];
            let (fs, o) = eval_seq(c);
            st.case(c, true, &o);
            st.findings_from(fs);
            return;
        }
        let (fs, o) = eval(&self.cases[idx]);
        st.case(&self.cases[idx], o.contains(":ok") || o.contains("err"), &o);
        if idx % 997 == 0 {
            st.sample(|| serde_json::to_value(&self.cases[idx]).unwrap());
        }
        st.findings_from(fs);
    }
    fn describe(&self, idx: usize) -> Value {
        if idx >= self.cases.len() {
            return json!({"sequence": self.seqs[idx - self.cases.len()]});
        }
        serde_json::to_value(&self.cases[idx]).unwrap()
    }
    fn death_key(&self, idx: usize) -> String {
        if idx >= self.cases.len() {
            return "sequence".into();
        }
        format!("api={}", self.cases[idx].api)
    }
    fn limit_ms(&self) -> u64 {
        30_000
    }
}

pub fn space(tier: Tier) -> Space {
    Space { cases: cases(tier), seqs: seq_cases(tier) }
}

pub fn run(ctx: &Ctx) -> Result<Run, String> {
    crate::core::clock::self_test()?;
    let sp = space(ctx.tier);
    let n = sp.len();
    let cfg = IsoConfig { prop: "C18".into(), mode: "diff".into(), tier: ctx.tier.name(), workers: ctx.threads, segment: (n / (ctx.threads * 4)).max(50), every: 25, stack_mb: 8 };
    let mut stats = iso::run(&sp, &cfg)?;
    {
        // histories through the trait on one long-lived authenticator, incl. trait calls dropped
        // while the user step is pending, against fresh authenticators (in-process: termination of
        // single trait calls is settled by the isolated sweep above)
        use super::inst::{self, IOp};
        let alphabet = [IOp::TraitMake, IOp::TraitGet { who: 0 }, IOp::TraitGet { who: 2 }, IOp::Cancelled(2), IOp::Cancelled(3), IOp::Make { rk: true, prf: false }, IOp::Get { who: 0, prf: false, silent: false }, IOp::Info, IOp::Panics { op: 2, what: 2 }, IOp::Panics { op: 3, what: 1 }, IOp::Panics { op: 3, what: 0 }];
        let st = inst::sweep(&alphabet, ctx.tier.pick(3, 4), &[0, 1], ctx.threads, "instance");
        stats.count("instance_differential_histories", st.evaluations);
        // repetition: the same (granted, denied, dropped) ceremony 8, 9, 17 and 33 times in a row on
        // one authenticator, then each operation as a probe
        let ralpha = [IOp::TraitMake, IOp::TraitGet { who: 0 }, IOp::Denied(2), IOp::Denied(3), IOp::Denied(1), IOp::Cancelled(3), IOp::Get { who: 0, prf: false, silent: false }, IOp::TraitGet { who: 3 }];
        let rst = inst::repeat_sweep(&ralpha, &[8, 9, 17, 33], &[0, 1], ctx.threads, "instance");
        stats.count("instance_repetition_histories", rst.evaluations);
        stats.merge(rst);
        stats.merge(st);
    }
    let mut run = Run::from_stats(
        "model_checking",
        "differential enumeration: every configuration of the C04 product at CTAP2 level (operation, rk/up/uv, verification capability, validation outcome, pin-auth) x 4 store contents x {contract store, Arc<Mutex<MemoryStore>>} x PRF extension on/off x descriptor type {public-key, unknown}, store failures of find / save / update with seven status *values* (incl. Ctap1(Success), which shares byte 0x00 with Ctap2(Ok)), a sloppy store that lists every credential of the RP whatever ids are asked for, 37 other relying-party names (47..1024 bytes, five multi-byte characters repeated at every byte phase so that every byte offset up to 300 falls inside a character, empty, upper case, trailing dot, NUL), user handles / user ids of 900 and 4000 bytes (responses beyond 1 KiB / 4 KiB), repetition histories (one of eight granted / user-denied / dropped ceremonies 8, 9, 17 and 33 times in a row on one authenticator, then each of them as a probe, against fresh authenticators), a slow user (the user step suspends once and the thread's clock - virtual, the harness's own clock_gettime - advances by 11 s, 31 s, an hour, 25 hours while it is pending), and getInfo for every capability combination x six configured transports lists (default, empty, one, a repeated one, three with a repetition, five), plus all pairs (thorough: triples) of operations on ONE authenticator with a capability change in between (verification / presence / store capability), each run once through the inherent method and once through the trait (getInfo through four doors that must agree - qualified call, generic bound, &mut dyn, Box<dyn Ctap2Api + Send + Sync>; the ceremonies through one of the four, chosen by the case) on identically seeded authenticators inside isolated worker processes (8 MiB stack, 30 s watchdog); compared: result (status byte or full response incl. RFC 6979 signature bytes; fresh ids/keys normalised), store snapshot, store/user-validation call log. Non-trivial = distinct case whose direct call reached a verdict",
        true,
        stats,
    );
    run.graph(n as u64, 2 * n as u64, 2 * n as u64);
    run.assume("the trait is invoked as Ctap2Api::get_assertion(&mut a, req), which compiles against a &self and a &mut self receiver; death of the worker (stack overflow) or watchdog expiry during a case is the verdict for that case");
    Ok(run)
}

pub fn replay(_ctx: &Ctx, case: &Value) -> Result<Vec<Finding>, String> {
    if let Some(fs) = super::inst::replay(case, "instance") {
        return Ok(fs);
    }
    // replay in an isolated worker too: the single-case sub-space of the thorough enumeration
    // (a superset of the quick one)
    let all = space(Tier::Thorough);
    let idx = if let Some(sq) = case.get("sequence") {
        let c: SeqCase = serde_json::from_value(sq.clone()).map_err(|e| format!("bad C18 sequence: {e}"))?;
        all.cases.len() + all.seqs.iter().position(|x| *x == c).ok_or("sequence not in the enumeration")?
    } else {
        let c: Case = serde_json::from_value(case.clone()).map_err(|e| format!("bad C18 case: {e}"))?;
        all.cases.iter().position(|x| *x == c).ok_or("case not in the enumeration")?
    };
    let one = OneOf { inner: all, idx };
    let cfg = IsoConfig { prop: "C18".into(), mode: format!("one:{idx}"), tier: Tier::Thorough.name(), workers: 1, segment: 1, every: 1, stack_mb: 8 };
    let st = iso::run(&one, &cfg)?;
    let _ = json!(0);
    Ok(st.findings.into_values().map(|x| x.0).collect())
}

/// the sub-space consisting of case `idx` only (used for replays)
pub struct OneOf {
    pub inner: Space,
    pub idx: usize,
}
impl IsoSpace for OneOf {
    fn len(&self) -> usize {
        1
    }
    fn eval(&self, _: usize, st: &mut Stats) {
        self.inner.eval(self.idx, st)
    }
    fn describe(&self, _: usize) -> Value {
        self.inner.describe(self.idx)
    }
    fn death_key(&self, _: usize) -> String {
        self.inner.death_key(self.idx)
    }
    fn limit_ms(&self) -> u64 {
        30_000
    }
}
