//! C15 – decoders of untrusted input never crash or allocate out of proportion.
//! E-iso around bounded-exhaustive input enumeration (short inputs, deviations of valid seeds)
//! and an explicit-state search over CTAPHID packet sequences.
use crate::core::alloc;
use crate::core::iso::{self, IsoConfig, IsoSpace};
use crate::core::par;
use crate::core::report::*;
use ciborium::value::Value as Cbor;
use coset::iana;
use passkey_client::{Origin, RpIdVerifier, UnverifiedAssetLink};
use passkey_transports::hid::ChannelHandler;
use passkey_types::ctap2::extensions::{AuthenticatorPrfInputs, HmacGetSecretInput};
use passkey_types::ctap2::{get_assertion, get_info, make_credential, Aaguid, AuthenticatorData};
use passkey_types::webauthn::{AuthenticatedPublicKeyCredential, CollectedClientData, CreatedPublicKeyCredential, CredentialCreationOptions, CredentialRequestOptions};
use passkey_types::{encoding, u2f, Bytes};
use public_suffix::EffectiveTLDProvider;
use serde_json::{json, Value};
use std::collections::HashSet;

// ------------------------------------------------------------------------------------------
// decoders

#[derive(Clone, Copy, PartialEq)]
pub enum Kind {
    Cbor,
    Binary,
    Json,
    Text,
}
pub struct Dec {
    pub name: &'static str,
    pub kind: Kind,
    pub run: fn(&[u8]),
}

fn cbor<T: serde::de::DeserializeOwned>(b: &[u8]) {
    let _ = ciborium::de::from_reader::<T, _>(b);
}
fn jsn<T: serde::de::DeserializeOwned>(b: &[u8]) {
    if let Ok(s) = std::str::from_utf8(b) {
        let _ = serde_json::from_str::<T>(s);
    }
}
fn text(b: &[u8], f: impl FnOnce(&str)) {
    if let Ok(s) = std::str::from_utf8(b) {
        f(s)
    }
}
fn cose_from(b: &[u8]) {
    // COSE key given to the public converter: parsed by coset (a dependency), then converted
    use coset::CborSerializable;
    if let Ok(k) = coset::CoseKey::from_slice(b) {
        let _ = passkey_authenticator::public_key_der_from_cose_key(&k);
    }
}

pub fn decoders() -> Vec<Dec> {
    vec![
        Dec { name: "ctap2::make_credential::Request", kind: Kind::Cbor, run: cbor::<make_credential::Request> },
        Dec { name: "ctap2::make_credential::Response", kind: Kind::Cbor, run: cbor::<make_credential::Response> },
        Dec { name: "ctap2::get_assertion::Request", kind: Kind::Cbor, run: cbor::<get_assertion::Request> },
        Dec { name: "ctap2::get_assertion::Response", kind: Kind::Cbor, run: cbor::<get_assertion::Response> },
        Dec { name: "ctap2::get_info::Response", kind: Kind::Cbor, run: cbor::<get_info::Response> },
        Dec { name: "ctap2::HmacGetSecretInput", kind: Kind::Cbor, run: cbor::<HmacGetSecretInput> },
        Dec { name: "ctap2::AuthenticatorPrfInputs", kind: Kind::Cbor, run: cbor::<AuthenticatorPrfInputs> },
        Dec { name: "ctap2::Aaguid", kind: Kind::Cbor, run: cbor::<Aaguid> },
        Dec { name: "Bytes(cbor)", kind: Kind::Cbor, run: cbor::<Bytes> },
        Dec { name: "AuthenticatorData::from_slice", kind: Kind::Binary, run: |b| {
            let _ = AuthenticatorData::from_slice(b);
        } },
        Dec { name: "public_key_der_from_cose_key", kind: Kind::Cbor, run: cose_from },
        Dec { name: "u2f::Request::try_from", kind: Kind::Binary, run: |b| {
            let _ = u2f::Request::try_from(b);
        } },
        Dec { name: "u2f::RegisterRequest::try_from", kind: Kind::Binary, run: |b| {
            let _ = u2f::RegisterRequest::try_from(b);
        } },
        Dec { name: "u2f::AuthenticationRequest::try_from(p1-from-first-byte)", kind: Kind::Binary, run: |b| {
            // the first input byte is the P1 parameter, the rest the payload
            if let Some((p1, rest)) = b.split_first() {
                let _ = u2f::AuthenticationRequest::try_from(rest, *p1);
            }
        } },
        Dec { name: "webauthn::CredentialCreationOptions", kind: Kind::Json, run: jsn::<CredentialCreationOptions> },
        Dec { name: "webauthn::CredentialRequestOptions", kind: Kind::Json, run: jsn::<CredentialRequestOptions> },
        Dec { name: "webauthn::CreatedPublicKeyCredential", kind: Kind::Json, run: jsn::<CreatedPublicKeyCredential> },
        Dec { name: "webauthn::AuthenticatedPublicKeyCredential", kind: Kind::Json, run: jsn::<AuthenticatedPublicKeyCredential> },
        Dec { name: "webauthn::CollectedClientData", kind: Kind::Json, run: jsn::<CollectedClientData<()>> },
        Dec { name: "Bytes(json)", kind: Kind::Json, run: jsn::<Bytes> },
        Dec { name: "Bytes::try_from(&str)", kind: Kind::Text, run: |b| text(b, |s| {
            let _ = Bytes::try_from(s);
        }) },
        Dec { name: "encoding::try_from_base64url", kind: Kind::Text, run: |b| text(b, |s| {
            let _ = encoding::try_from_base64url(s);
        }) },
        Dec { name: "valid_fingerprint", kind: Kind::Text, run: |b| text(b, |s| {
            let _ = passkey_client::valid_fingerprint(s);
        }) },
        Dec { name: "UnverifiedAssetLink::new+assert_domain", kind: Kind::Text, run: |b| text(b, |s| {
            // the string is used as asset-link host and as RP ID
            if let Ok(l) = UnverifiedAssetLink::new("pkg", super::common::FP, s, url::Url::parse("https://x.example/.well-known/assetlinks.json").unwrap()) {
                let v = RpIdVerifier::new(public_suffix::DEFAULT_PROVIDER);
                let o = Origin::Android(l);
                let _ = v.assert_domain(&o, None);
                let _ = v.assert_domain(&o, Some(s));
            }
        }) },
        Dec { name: "RpIdVerifier(web)", kind: Kind::Text, run: |b| text(b, |s| {
            let v = RpIdVerifier::new(public_suffix::DEFAULT_PROVIDER).allows_insecure_localhost(true);
            let _ = v.is_valid_rp_id(s);
            if let Ok(u) = url::Url::parse(&format!("https://{s}")) {
                let o: Origin = (&u).into();
                let _ = v.assert_domain(&o, None);
                let _ = v.assert_domain(&o, Some(s));
            }
            let u = url::Url::parse("https://www.example.com").unwrap();
            let o: Origin = (&u).into();
            let _ = v.assert_domain(&o, Some(s));
        }) },
        // the generic list provider over a second (hand-encoded) table, right after a lookup through
        // the shipped table on the same thread, and the shipped one right after it
        Dec { name: "ListProvider<second table>", kind: Kind::Text, run: |b| text(b, |s| {
            use crate::oracles::tinytable::TINY;
            let _ = public_suffix::DEFAULT_PROVIDER.effective_tld_plus_one("www.example.com");
            let _ = TINY.effective_tld_plus_one(s);
            let _ = TINY.public_suffix(s);
            let _ = TINY.is_effective_tld(s);
            let _ = public_suffix::DEFAULT_PROVIDER.effective_tld_plus_one(s);
        }) },
        Dec { name: "assert_domain(host=rp-pair)", kind: Kind::Text, run: |b| text(b, |s| {
            // "<host>=<rp id>": two independent strings (the text alphabet contains '=')
            let (host, rp) = s.split_once('=').unwrap_or((s, ""));
            let v = RpIdVerifier::new(public_suffix::DEFAULT_PROVIDER).allows_insecure_localhost(true);
            if let Ok(l) = UnverifiedAssetLink::new("pkg", super::common::FP, host, url::Url::parse("https://x.example/.well-known/assetlinks.json").unwrap()) {
                let o = Origin::Android(l);
                let _ = v.assert_domain(&o, Some(rp));
            }
            if let Ok(u) = url::Url::parse(&format!("https://{host}")) {
                let o: Origin = (&u).into();
                let _ = v.assert_domain(&o, Some(rp));
            }
        }) },
        Dec { name: "public_suffix", kind: Kind::Text, run: |b| text(b, |s| {
            let _ = public_suffix::DEFAULT_PROVIDER.public_suffix(s);
            let _ = public_suffix::DEFAULT_PROVIDER.effective_tld_plus_one(s);
            let _ = public_suffix::DEFAULT_PROVIDER.is_effective_tld(s);
        }) },
    ]
}

// ------------------------------------------------------------------------------------------
// seeds (valid encodings) and deviations

pub fn seeds_for(name: &str) -> Vec<Vec<u8>> {
    let cb = |ty: &str| -> Vec<Vec<u8>> {
        let mut v = vec![];
        for (pattern, variant) in [(u32::MAX, 2u8), (0, 0), (u32::MAX, 1)] {
            if let Ok((b, _)) = super::c13::build_public(ty, pattern, variant) {
                v.push(b);
            }
        }
        v
    };
    let js = |v: Value| vec![v.to_string().into_bytes()];
    match name {
        "ctap2::make_credential::Request" => cb("makeCredential.request"),
        "ctap2::make_credential::Response" => cb("makeCredential.response"),
        "ctap2::get_assertion::Request" => cb("getAssertion.request"),
        "ctap2::get_assertion::Response" => cb("getAssertion.response"),
        "ctap2::get_info::Response" => cb("getInfo.response"),
        "ctap2::HmacGetSecretInput" => cb("hmac-secret.input"),
        "ctap2::AuthenticatorPrfInputs" => {
            let mut b = vec![];
            let v = Cbor::Map(vec![(Cbor::Text("eval".into()), Cbor::Map(vec![(Cbor::Text("first".into()), Cbor::Bytes(vec![1; 32])), (Cbor::Text("second".into()), Cbor::Bytes(vec![2; 32]))])), (Cbor::Text("evalByCredential".into()), Cbor::Map(vec![(Cbor::Bytes(vec![7; 16]), Cbor::Map(vec![(Cbor::Text("first".into()), Cbor::Array((0..32).map(|i| Cbor::Integer(i.into())).collect()))]))]))]);
            ciborium::ser::into_writer(&v, &mut b).unwrap();
            vec![b]
        }
        "ctap2::Aaguid" => vec![{
            let mut b = vec![0x50];
            b.extend([7u8; 16]);
            b
        }],
        "Bytes(cbor)" => vec![vec![0x44, 1, 2, 3, 4], vec![0x84, 1, 2, 3, 4], vec![0x66, b'A', b'Q', b'I', b'D', b'B', b'A']],
        "AuthenticatorData::from_slice" => {
            let mut v = vec![];
            for (att, ext) in [(None, 0u8), (Some((1u8, 16usize)), 1), (Some((0, 64)), 3), (None, 3)] {
                let c = super::c12::Case { rp: 1, counter: 2, flags: 5, assign_flags: true, attested: att, ext, depth: 0, ext_len: None };
                if let Ok(b) = super::c12::encode_public(&c) {
                    v.push(b);
                }
            }
            v
        }
        "public_key_der_from_cose_key" => {
            use coset::CborSerializable;
            let (x, y) = crate::drivers::public_xy_from_scalar(&crate::drivers::fixed_scalar(1));
            let mut v = vec![];
            // x / y of every length 0..=66, parameters missing, duplicated, of the wrong type
            for l in 0..=66usize {
                let k = coset::CoseKeyBuilder::new_ec2_pub_key(iana::EllipticCurve::P_256, x[..l.min(32)].iter().copied().chain(std::iter::repeat(9).take(l.saturating_sub(32))).collect(), y.to_vec()).algorithm(iana::Algorithm::ES256).build();
                v.push(k.to_vec().unwrap());
                let k = coset::CoseKeyBuilder::new_ec2_pub_key(iana::EllipticCurve::P_256, x.to_vec(), y[..l.min(32)].iter().copied().chain(std::iter::repeat(9).take(l.saturating_sub(32))).collect()).algorithm(iana::Algorithm::ES256).build();
                v.push(k.to_vec().unwrap());
            }
            let mut k = coset::CoseKeyBuilder::new_ec2_pub_key(iana::EllipticCurve::P_256, x.to_vec(), y.to_vec()).algorithm(iana::Algorithm::ES256).build();
            k.params.push((coset::Label::Int(-2), Cbor::Bytes(vec![1; 5])));
            if let Ok(b) = k.clone().to_vec() { v.push(b); }
            k.params = vec![(coset::Label::Int(-2), Cbor::Text("x".into())), (coset::Label::Int(-3), Cbor::Integer(5.into()))];
            if let Ok(b) = k.clone().to_vec() { v.push(b); }
            k.params = vec![(coset::Label::Int(-3), Cbor::Bytes(y.to_vec()))];
            if let Ok(b) = k.clone().to_vec() { v.push(b); }
            k.params = vec![(coset::Label::Int(-99), Cbor::Bytes(y.to_vec())), (coset::Label::Text("t".into()), Cbor::Null)];
            if let Ok(b) = k.to_vec() { v.push(b); }
            v
        }
        "u2f::Request::try_from" => {
            let mut v = vec![];
            let mut reg = vec![0, 1, 0, 0, 0, 0, 64];
            reg.extend([3u8; 64]);
            v.push(reg.clone());
            reg.extend([0, 0]);
            v.push(reg);
            for p1 in [3u8, 7, 8] {
                let mut a = vec![0, 2, p1, 0, 0, 0, 65 + 20];
                a.extend([4u8; 64]);
                a.push(20);
                a.extend([5u8; 20]);
                v.push(a);
            }
            v.push(vec![0, 3, 0, 0, 0, 0, 0]);
            v
        }
        "u2f::RegisterRequest::try_from" => vec![vec![3u8; 64]],
        "u2f::AuthenticationRequest::try_from(p1-from-first-byte)" => {
            let mut a = vec![3u8];
            a.extend([4u8; 64]);
            a.push(20);
            a.extend([5u8; 20]);
            vec![a]
        }
        "webauthn::CredentialCreationOptions" => js(super::c14::canonical("create")),
        "webauthn::CredentialRequestOptions" => js(super::c14::canonical("get")),
        "webauthn::CreatedPublicKeyCredential" => js(json!({"id": "AQID", "rawId": [1, 2, 3], "type": "public-key", "response": {"clientDataJSON": "e30", "authenticatorData": [1, 2], "publicKey": "AQ", "publicKeyAlgorithm": -7, "attestationObject": [160], "transports": ["usb", "x"]}, "authenticatorAttachment": "platform", "clientExtensionResults": {"credProps": {"rk": true}, "prf": {"enabled": true, "results": {"first": [1], "second": "Ag"}}}})),
        "webauthn::AuthenticatedPublicKeyCredential" => js(json!({"id": "AQID", "rawId": "AQID", "type": "public-key", "response": {"clientDataJSON": [123, 125], "authenticatorData": "AQI", "signature": [48, 0], "userHandle": [7]}, "authenticatorAttachment": "cross-platform", "clientExtensionResults": {"prf": {"results": {"first": [1]}}}})),
        "webauthn::CollectedClientData" => js(json!({"type": "webauthn.get", "challenge": "Y2g", "origin": "https://example.com", "crossOrigin": false, "extra": {"a": [1, {"b": null}]}})),
        "Bytes(json)" => vec![b"[1,2,255]".to_vec(), b"\"AQID-_8\"".to_vec(), b"\"AQID+/8=\"".to_vec()],
        "Bytes::try_from(&str)" | "encoding::try_from_base64url" => vec![b"AQID-_8".to_vec(), b"AQID+/8=".to_vec()],
        "valid_fingerprint" => vec![super::common::FP.as_bytes().to_vec()],
        "ListProvider<second table>" => vec![b"www.example.com".to_vec(), b"a.intra.corp".to_vec(), b"x.y.lab".to_vec(), b"gate.lab".to_vec(), b"example.test".to_vec()],
        "assert_domain(host=rp-pair)" => vec!["www.bücher.example=bücher.example".as_bytes().to_vec(), b"a.b.xn--55qx5d.cn=xn--55qx5d.cn".to_vec(), "é.com=x.com".as_bytes().to_vec(), b"example.co.uk:8=example.co.uk".to_vec(), b"www.example.com:8=example.com".to_vec()],
        "UnverifiedAssetLink::new+assert_domain" | "RpIdVerifier(web)" | "public_suffix" => vec![b"www.example.co.uk".to_vec(), b"a.b.xn--55qx5d.cn".to_vec(), b"x.www.ck".to_vec(), b"example.co.uk:8".to_vec()],
        _ => vec![],
    }
}

/// CBOR heads with huge / odd declared lengths, spliced in at a position
fn cbor_splices() -> Vec<Vec<u8>> {
    let mut v = vec![];
    for major in 0..8u8 {
        let m = major << 5;
        v.push(vec![m | 24, 0xff]);
        v.push(vec![m | 25, 0xff, 0xff]);
        v.push(vec![m | 26, 0x10, 0, 0, 0]); // 2^28
        v.push(vec![m | 26, 0xff, 0xff, 0xff, 0xff]);
        v.push(vec![m | 27, 0, 0, 0, 1, 0, 0, 0, 0]); // 2^32
        v.push(vec![m | 27, 0x00, 0x00, 0x01, 0x00, 0x00, 0x00, 0x00, 0x00]); // 2^40
        v.push(vec![m | 27, 0x7f, 0xff, 0xff, 0xff, 0xff, 0xff, 0xff, 0xff]);
        v.push(vec![m | 27, 0xff, 0xff, 0xff, 0xff, 0xff, 0xff, 0xff, 0xff]);
        v.push(vec![m | 31]); // indefinite / break
    }
    // deep nesting
    v.push(vec![0x81; 300]);
    v.push(vec![0x81; 3000]);
    v.push(vec![0x81; 100_000]);
    v.push((0..40_000).flat_map(|_| [0xa1u8, 0x00]).collect());
    v.push((0..300).flat_map(|_| [0xa1u8, 0x00]).collect());
    v.push(vec![0xc1; 300]);
    v.push(vec![0x9f; 300]);
    v
}
fn json_splices() -> Vec<Vec<u8>> {
    let mut v: Vec<Vec<u8>> = ["\"", "{", "}", "[", "]", ":", ",", "0", "-", "1e999", "99999999999999999999999999", "-0.0e-999", "\\", "\\u0000", "\\ud800", " ", "null", "true", "é", "\u{0}", "\"\":", "{\"type\":", "[[", "4294967296", "-1", "1.5"].iter().map(|s| s.as_bytes().to_vec()).collect();
    v.push(vec![b'['; 300]);
    v.push(vec![b'['; 100_000]);
    v.push((0..300).flat_map(|_| b"{\"a\":".to_vec()).collect());
    v.push((0..5000).flat_map(|_| b"1,".to_vec()).collect());
    v.push(vec![0xff]);
    v
}
fn text_splices() -> Vec<Vec<u8>> {
    let mut v: Vec<Vec<u8>> = [".", "..", "xn--", "xn--a", "=", "==", "-", "_", "+", "/", ":", "A", "é", "\u{0}", " ", "%", "[", "]", "@", "localhost", "B3:", "*", "!", "0", "080", "65535", "65536", "4294967296", "18446744073709551616", "99999999999999999999999999999999999999999", "-1", "+80", "٣"].iter().map(|s| s.as_bytes().to_vec()).collect();
    v.push(vec![b'a'; 300]);
    v.push(vec![b'.'; 300]);
    v.push((0..2000).flat_map(|_| b"a.".to_vec()).collect());
    v.push(vec![b'A'; 70_000]);
    v
}

/// Deviation menu for one seed: all (position, deviation) pairs.
#[derive(Clone, Debug)]
pub enum Dev {
    Truncate(usize),
    Replace(usize, u8),
    /// replace the byte at position by the splice
    Splice(usize, usize),
    /// insert the splice before position
    Insert(usize, usize),
    /// append the splice
    Append(usize),
    /// overwrite as many bytes from position on as the splice is long (the length stays the same:
    /// a multi-byte character in the place of two digits keeps a fixed-length input on its fast path)
    Overwrite(usize, usize),
}
fn apply_dev(seed: &[u8], d: &Dev, splices: &[Vec<u8>]) -> Vec<u8> {
    match d {
        Dev::Truncate(p) => seed[..*p].to_vec(),
        Dev::Replace(p, v) => {
            let mut b = seed.to_vec();
            b[*p] = *v;
            b
        }
        Dev::Splice(p, s) => {
            let mut b = seed[..*p].to_vec();
            b.extend_from_slice(&splices[*s]);
            b.extend_from_slice(&seed[p + 1..]);
            b
        }
        Dev::Insert(p, s) => {
            let mut b = seed[..*p].to_vec();
            b.extend_from_slice(&splices[*s]);
            b.extend_from_slice(&seed[*p..]);
            b
        }
        Dev::Append(s) => {
            let mut b = seed.to_vec();
            b.extend_from_slice(&splices[*s]);
            b
        }
        Dev::Overwrite(p, s) => {
            let mut b = seed.to_vec();
            let sp = &splices[*s];
            let end = (*p + sp.len()).min(b.len());
            b[*p..end].copy_from_slice(&sp[..end - *p]);
            b
        }
    }
}
fn devs_for(seed_len: usize, kind: Kind, nsplice: usize, tier: Tier, overwrites: &[usize]) -> Vec<Dev> {
    let mut v = vec![];
    let json_menu: &[u8] = b"\"{}[]:,09-e.\\ a\x00\xc3";
    for p in 0..seed_len {
        v.push(Dev::Truncate(p));
        match kind {
            Kind::Cbor | Kind::Binary => {
                // every value: covers every CBOR head and every bit flip
                for x in 0..=255u8 {
                    v.push(Dev::Replace(p, x));
                }
            }
            Kind::Json | Kind::Text => {
                for &x in json_menu {
                    v.push(Dev::Replace(p, x));
                }
                if tier == Tier::Thorough {
                    for x in (0..=255u8).step_by(7) {
                        v.push(Dev::Replace(p, x));
                    }
                }
            }
        }
        for &s in overwrites {
            v.push(Dev::Overwrite(p, s));
        }
        // splices: long seeds get them at a stride (every position in thorough)
        let stride = if tier == Tier::Thorough || seed_len <= 120 { 1 } else { 3 };
        if p % stride == 0 {
            for s in 0..nsplice {
                v.push(Dev::Splice(p, s));
                if !matches!(kind, Kind::Cbor | Kind::Binary) || s % 3 == 0 {
                    v.push(Dev::Insert(p, s));
                }
            }
        }
    }
    for s in 0..nsplice {
        v.push(Dev::Append(s));
    }
    v
}

// ------------------------------------------------------------------------------------------
// the enumeration space

enum Group {
    /// all byte strings of exactly this length for decoder d
    Short { dec: usize, len: usize },
    /// all strings of exactly this length over the alphabet for decoder d
    TextShort { dec: usize, len: usize },
    /// all single deviations of seed s of decoder d
    Devs { dec: usize, seed: usize, devs: Vec<Dev> },
    /// all pairs of deviations (thorough, short seeds): index = i * n + j
    DevPairs { dec: usize, seed: usize, devs: Vec<Dev> },
}
const TEXT_ALPHABET: [&str; 8] = ["a", ".", "-", "=", "A", "_", "x", "é"];
const JSON_ALPHABET: [&str; 8] = ["\"", "{", "}", "[", ":", "1", "a", ","];

pub struct Space {
    decs: Vec<Dec>,
    seeds: Vec<Vec<Vec<u8>>>,
    cbor_sp: Vec<Vec<u8>>,
    json_sp: Vec<Vec<u8>>,
    text_sp: Vec<Vec<u8>>,
    groups: Vec<(usize, Group)>, // (start index, group)
    total: usize,
}

impl Space {
    pub fn new(tier: Tier) -> Space {
        let decs = decoders();
        let seeds: Vec<Vec<Vec<u8>>> = decs.iter().map(|d| seeds_for(d.name)).collect();
        let (cbor_sp, json_sp, text_sp) = (cbor_splices(), json_splices(), text_splices());
        let mut groups = vec![];
        let mut total = 0usize;
        let mut push = |g: Group, n: usize, total: &mut usize, groups: &mut Vec<(usize, Group)>| {
            groups.push((*total, g));
            *total += n;
        };
        for (di, d) in decs.iter().enumerate() {
            match d.kind {
                Kind::Cbor | Kind::Binary => {
                    let maxlen = tier.pick(2, 3);
                    for len in 0..=maxlen {
                        push(Group::Short { dec: di, len }, 256usize.pow(len as u32), &mut total, &mut groups);
                    }
                }
                Kind::Json | Kind::Text => {
                    let maxlen = tier.pick(5, 7);
                    for len in 0..=maxlen {
                        push(Group::TextShort { dec: di, len }, 8usize.pow(len as u32), &mut total, &mut groups);
                    }
                }
            }
            for (si, s) in seeds[di].iter().enumerate() {
                let nsp = match d.kind {
                    // binary layouts embed CBOR items (authenticator data: COSE key, extension map)
                    Kind::Cbor | Kind::Binary => cbor_sp.len(),
                    Kind::Json => json_sp.len(),
                    Kind::Text => text_sp.len(),
                };
                // length-preserving overwrites: the multi-byte and short structural splices (2..=4 bytes)
                let ow: Vec<usize> = match d.kind {
                    Kind::Json => json_sp.iter().enumerate().filter(|(_, x)| (2..=4).contains(&x.len())).map(|(i, _)| i).collect(),
                    Kind::Text => text_sp.iter().enumerate().filter(|(_, x)| (2..=4).contains(&x.len())).map(|(i, _)| i).collect(),
                    _ => vec![],
                };
                let devs = devs_for(s.len(), d.kind, nsp, tier, &ow);
                let n = devs.len();
                push(Group::Devs { dec: di, seed: si, devs: devs.clone() }, n, &mut total, &mut groups);
                if tier == Tier::Thorough && s.len() <= 48 {
                    // pairs of byte-level deviations on short seeds
                    let small: Vec<Dev> = devs.into_iter().filter(|d| matches!(d, Dev::Replace(_, x) if [0u8, 0x17, 0x18, 0x1b, 0x40, 0x5b, 0x80, 0x9b, 0xa0, 0xbb, 0xff].contains(x)) || matches!(d, Dev::Truncate(_))).collect();
                    let m = small.len();
                    push(Group::DevPairs { dec: di, seed: si, devs: small }, m * m, &mut total, &mut groups);
                }
            }
        }
        Space { decs, seeds, cbor_sp, json_sp, text_sp, groups, total }
    }
    fn locate(&self, idx: usize) -> (&Group, usize) {
        let g = match self.groups.binary_search_by(|(start, _)| start.cmp(&idx)) {
            Ok(i) => i,
            Err(i) => i - 1,
        };
        (&self.groups[g].1, idx - self.groups[g].0)
    }
    fn splices(&self, kind: Kind) -> &[Vec<u8>] {
        match kind {
            Kind::Cbor | Kind::Binary => &self.cbor_sp,
            Kind::Json => &self.json_sp,
            Kind::Text => &self.text_sp,
        }
    }
    /// (decoder index, input bytes, description of how it was derived)
    pub fn input(&self, idx: usize) -> (usize, Vec<u8>, String) {
        let (g, off) = self.locate(idx);
        match g {
            Group::Short { dec, len } => ((*dec), (0..*len).map(|k| ((off >> (8 * k)) & 0xff) as u8).collect(), format!("all byte strings of length {len}")),
            Group::TextShort { dec, len } => {
                let alpha = if self.decs[*dec].kind == Kind::Json { &JSON_ALPHABET } else { &TEXT_ALPHABET };
                let mut s = String::new();
                let mut x = off;
                for _ in 0..*len {
                    s.push_str(alpha[x % 8]);
                    x /= 8;
                }
                (*dec, s.into_bytes(), format!("all strings of length {len} over {alpha:?}"))
            }
            Group::Devs { dec, seed, devs } => (*dec, apply_dev(&self.seeds[*dec][*seed], &devs[off], self.splices(self.decs[*dec].kind)), format!("seed {seed} with {:?}", devs[off])),
            Group::DevPairs { dec, seed, devs } => {
                let (i, j) = (off / devs.len(), off % devs.len());
                let first = apply_dev(&self.seeds[*dec][*seed], &devs[i], &[]);
                // the second deviation is applied when its position still exists
                let ok = match &devs[j] {
                    Dev::Truncate(p) => *p <= first.len(),
                    Dev::Replace(p, _) => *p < first.len(),
                    _ => false,
                };
                let b = if ok { apply_dev(&first, &devs[j], &[]) } else { first };
                (*dec, b, format!("seed {seed} with {:?} then {:?}", devs[i], devs[j]))
            }
        }
    }
}

pub fn panic_class(msg: &str) -> &'static str {
    let m = msg.to_ascii_lowercase();
    if m.contains("out of range for slice") || m.contains("range end index") || m.contains("range start index") || m.contains("slice index starts") {
        "slice-index"
    } else if m.contains("index out of bounds") {
        "index-out-of-bounds"
    } else if m.contains("mid > len") || m.contains("split_at") {
        "split-at"
    } else if m.contains("with overflow") {
        "arithmetic-overflow"
    } else if m.contains("unreachable") {
        "unreachable"
    } else if m.contains("unwrap()") || m.contains("called `option::unwrap") || m.contains("called `result::unwrap") {
        "unwrap"
    } else if m.contains("capacity overflow") {
        "capacity-overflow"
    } else if m.contains("copy_from_slice") || m.contains("source slice length") {
        "copy-from-slice"
    } else if m.contains("from_slice") || m.contains("generic") || m.contains("assertion") {
        "length-assertion"
    } else {
        "panic"
    }
}
fn site_file(p: &str) -> String {
    // "msg @ path/file.rs:123" -> "crate-dir/file.rs"
    let site = par::panic_site(p);
    let path = site.rsplit_once(':').map(|x| x.0).unwrap_or(&site).to_string();
    let parts: Vec<&str> = path.split('/').filter(|p| !p.is_empty()).collect();
    let file = parts.last().copied().unwrap_or("?");
    // std paths look like /rustc/<hash>/library/core/src/str/mod.rs
    let krate = match parts.iter().position(|p| *p == "library") {
        Some(i) => parts.get(i + 1).copied().unwrap_or("std"),
        None => parts.first().copied().unwrap_or("?"),
    };
    format!("{krate}:{file}")
}

fn thread_cpu_ms() -> u128 {
    let mut ts = libc::timespec { tv_sec: 0, tv_nsec: 0 };
    unsafe {
        libc::clock_gettime(libc::CLOCK_THREAD_CPUTIME_ID, &mut ts);
    }
    (ts.tv_sec as u128) * 1000 + (ts.tv_nsec as u128) / 1_000_000
}

/// a bounded constant (the largest legitimate request on the pinned tree is 1.6 MB: a lenient list
/// pre-allocating its capped 4096 elements) plus 32 bytes per input byte
const ALLOC_SINGLE_LIMIT: usize = 4 << 20;
const ALLOC_TOTAL_LIMIT: usize = 256 << 20;
const SLOW_MS: u128 = 400;

impl IsoSpace for Space {
    fn len(&self) -> usize {
        self.total
    }
    fn eval(&self, idx: usize, st: &mut Stats) {
        let (di, input, how) = self.input(idx);
        let d = &self.decs[di];
        iso::clear_refused();
        alloc::reset();
        // CPU time of this thread, not wall time: immune to scheduling delays on a loaded machine
        let t0 = thread_cpu_ms();
        let r = par::catch(|| (d.run)(&input));
        let mut dt = thread_cpu_ms().saturating_sub(t0);
        if dt > SLOW_MS {
            // confirm: a slow case must be slow twice
            let t1 = thread_cpu_ms();
            let _ = par::catch(|| (d.run)(&input));
            dt = dt.min(thread_cpu_ms().saturating_sub(t1));
        }
        let (largest, total) = alloc::read();
        let case = || json!({"decoder": d.name, "input_hex": crate::drivers::hex(&input[..input.len().min(4096)]), "input_len": input.len(), "derivation": how, "index": idx});
        let nontrivial = !input.is_empty();
        match r {
            Err(p) => {
                st.case(&(di, &input), nontrivial, "panic");
                st.finding(Finding::new(format!("decoder={}/site={}/kind={}", d.name, site_file(&p), panic_class(&p)), format!("{} panicked on a {}-byte input ({how}): {p}", d.name, input.len()), case()));
            }
            Ok(()) => st.case(&(di, &input), nontrivial, "returned"),
        }
        if input.len() <= 200_000 && (largest > ALLOC_SINGLE_LIMIT + 32 * input.len() || total > ALLOC_TOTAL_LIMIT) {
            st.finding(Finding::new(format!("decoder={}/kind=alloc-out-of-proportion", d.name), format!("{}-byte input made {} request {} bytes in one allocation ({} in total)", input.len(), d.name, largest, total), case()));
        }
        if dt > SLOW_MS && input.len() <= 200_000 {
            st.finding(Finding::new(format!("decoder={}/kind=time-out-of-proportion", d.name), format!("{}-byte input kept {} busy for {dt} ms of CPU time (twice)", input.len(), d.name), case()));
        }
        st.max("max_single_allocation", largest as u64);
        if input.len() <= 1024 {
            st.max("max_single_allocation_for_inputs_up_to_1KiB", largest as u64);
        }
        if idx % 50_021 == 0 {
            st.sample(case);
        }
    }
    fn describe(&self, idx: usize) -> Value {
        let (di, input, how) = self.input(idx);
        json!({"decoder": self.decs[di].name, "input_hex": crate::drivers::hex(&input[..input.len().min(4096)]), "input_len": input.len(), "derivation": how, "index": idx})
    }
    fn death_key(&self, idx: usize) -> String {
        let (di, _, _) = self.input(idx);
        format!("decoder={}", self.decs[di].name)
    }
    fn limit_ms(&self) -> u64 {
        // wall-clock watchdog for cases that never return; generous, the CPU-time oracle above
        // judges "out of proportion"
        20_000
    }
}

pub struct OneOf {
    pub inner: Space,
    pub idx: usize,
}
impl IsoSpace for OneOf {
    fn len(&self) -> usize {
        1
    }
    fn eval(&self, _: usize, st: &mut Stats) {
        self.inner.eval(self.idx, st)
    }
    fn describe(&self, _: usize) -> Value {
        self.inner.describe(self.idx)
    }
    fn death_key(&self, _: usize) -> String {
        self.inner.death_key(self.idx)
    }
}

// ------------------------------------------------------------------------------------------
// HID packet sequences: explicit-state search with the real handler as the state

fn hid_alphabet(full: bool) -> Vec<Vec<u8>> {
    let sizes: Vec<usize> = if full { (0..=8).chain([63, 64, 65, 200]).collect() } else { vec![4, 5, 7, 8, 64, 65] };
    let mut v = vec![];
    for ch in [1u32, 0xFFFF_FFFF] {
        let mut heads: Vec<Vec<u8>> = vec![];
        for declared in [0u16, 5, 57, 58, 100, 7609, 65535] {
            let mut h = ch.to_ne_bytes().to_vec();
            h.push(0x80 | 0x10);
            h.extend(declared.to_be_bytes());
            heads.push(h);
        }
        // an init packet with an unknown command byte
        let mut h = ch.to_ne_bytes().to_vec();
        h.extend([0x80 | 0x7e, 0, 5]);
        heads.push(h);
        for seq in [0u8, 1, 2, 127] {
            let mut h = ch.to_ne_bytes().to_vec();
            h.push(seq);
            heads.push(h);
        }
        for h in heads {
            for &sz in &sizes {
                let mut p = h.clone();
                p.resize(sz.max(0), 0xAB);
                if sz < h.len() {
                    p = h[..sz].to_vec();
                }
                v.push(p);
            }
        }
    }
    v.sort();
    v.dedup();
    v
}

type Snap = Vec<(u32, u8, u8, usize, Vec<u8>)>;

/// a handler may keep what it received (vectors grow by doubling, the map has some overhead) – not
/// what a length field merely announces
fn hid_alloc_limit(received: usize) -> usize {
    16 * received + 2048
}

pub fn hid_search(tier: Tier, threads: usize, stats: &mut Stats) -> (u64, u64) {
    // level-synchronous BFS; a state is a real ChannelHandler; dedup on the hook snapshot
    let plan: Vec<(bool, usize)> = match tier {
        // (full alphabet?, depth)
        Tier::Quick => vec![(true, 2), (false, 4)],
        Tier::Thorough => vec![(true, 3), (false, 6)],
    };
    let (mut states, mut transitions) = (0u64, 0u64);
    for (full, depth) in plan {
        let alphabet = hid_alphabet(full);
        let mut seen: HashSet<Snap> = HashSet::new();
        let mut frontier: Vec<(ChannelHandler, Vec<u16>)> = vec![(ChannelHandler::default(), vec![])];
        seen.insert(vec![]);
        states += 1;
        for _level in 0..depth {
            let results: std::sync::Mutex<Vec<(usize, usize, ChannelHandler)>> = std::sync::Mutex::new(vec![]);
            let st = par::sweep(frontier.len(), threads, 8, |k, st| {
                let (h, hist) = &frontier[k];
                for (ai, pkt) in alphabet.iter().enumerate() {
                    let mut n = h.clone();
                    alloc::reset();
                    let r = par::catch(|| n.handle_packet(pkt).map(|m| m.payload.len()));
                    let (largest, _) = alloc::read();
                    let mut full_hist: Vec<u16> = hist.clone();
                    full_hist.push(ai as u16);
                    // memory in proportion to what was *received* so far on this handler
                    let received: usize = full_hist.iter().map(|&i| alphabet[i as usize].len()).sum();
                    let case = || json!({"hid_alphabet_full": full, "packets": full_hist.iter().map(|&i| crate::drivers::hex(&alphabet[i as usize])).collect::<Vec<_>>()});
                    match r {
                        Err(p) => {
                            st.case(&(full, &full_hist), true, "hid:panic");
                            st.finding(Finding::new(format!("decoder=hid::ChannelHandler/site={}/kind={}", site_file(&p), panic_class(&p)), format!("handle_packet panicked on packet #{} of the sequence ({} bytes): {p}", full_hist.len(), pkt.len()), case()));
                        }
                        Ok(out) => {
                            st.case(&(full, &full_hist), true, if out.is_some() { "hid:message" } else { "hid:none" });
                            if largest > hid_alloc_limit(received) {
                                st.finding(Finding::new("decoder=hid::ChannelHandler/kind=alloc-out-of-proportion", format!("a {}-byte packet made the handler allocate {largest} bytes at once after only {received} bytes were received in total", pkt.len()), case()));
                            }
                            results.lock().unwrap().push((k, ai, n));
                        }
                    }
                }
            });
            transitions += st.evaluations;
            stats.merge(st);
            let mut res = results.into_inner().unwrap();
            res.sort_by_key(|r| (r.0, r.1));
            let mut next = vec![];
            for (k, ai, h) in res {
                if seen.insert(h.verif_snapshot()) {
                    let mut hist = frontier[k].1.clone();
                    hist.push(ai as u16);
                    next.push((h, hist));
                    states += 1;
                }
            }
            frontier = next;
            if frontier.is_empty() {
                break;
            }
        }
    }
    (states, transitions)
}

pub fn hid_replay(case: &Value) -> Result<Vec<Finding>, String> {
    let pkts: Vec<String> = serde_json::from_value(case["packets"].clone()).map_err(|e| e.to_string())?;
    let mut h = ChannelHandler::default();
    let mut out = vec![];
    let mut received = 0usize;
    for (i, p) in pkts.iter().enumerate() {
        let bytes: Vec<u8> = (0..p.len() / 2).map(|k| u8::from_str_radix(&p[2 * k..2 * k + 2], 16).unwrap_or(0)).collect();
        alloc::reset();
        let r = par::catch(|| h.handle_packet(&bytes).map(|m| m.payload.len()));
        let (largest, _) = alloc::read();
        received += bytes.len();
        let last = i + 1 == pkts.len();
        match r {
            Err(p) => {
                if last {
                    out.push(Finding::new(format!("decoder=hid::ChannelHandler/site={}/kind={}", site_file(&p), panic_class(&p)), p, case.clone()));
                } else {
                    return Err("an earlier packet of the sequence panics".into());
                }
            }
            Ok(_) => {
                if last && largest > hid_alloc_limit(received) {
                    out.push(Finding::new("decoder=hid::ChannelHandler/kind=alloc-out-of-proportion", format!("{largest}"), case.clone()));
                }
            }
        }
    }
    Ok(out)
}

// ------------------------------------------------------------------------------------------
// COSE keys as *structs* (a caller can build what the byte decoder would refuse, e.g. repeated
// labels): every combination of 0..2 entries per coordinate with lengths/types from a menu, both
// label orders, with and without unrelated parameters

fn cose_struct_sweep(stats: &mut Stats) {
    let (x, y) = crate::drivers::public_xy_from_scalar(&crate::drivers::fixed_scalar(1));
    let menu = |good: &[u8; 32]| -> Vec<Cbor> {
        vec![Cbor::Bytes(good.to_vec()), Cbor::Bytes(vec![]), Cbor::Bytes(good[..31].to_vec()), Cbor::Bytes([&good[..], &[1u8][..]].concat()), Cbor::Bytes(vec![7; 66]), Cbor::Text("x".into()), Cbor::Integer(5.into()), Cbor::Null]
    };
    let per_coord = |good: &[u8; 32]| -> Vec<Vec<Cbor>> {
        let m = menu(good);
        let mut v: Vec<Vec<Cbor>> = vec![vec![]];
        for a in &m {
            v.push(vec![a.clone()]);
            for b in &m {
                v.push(vec![a.clone(), b.clone()]);
            }
        }
        v
    };
    let xs = per_coord(&x);
    let ys = per_coord(&y);
    for (xi, xe) in xs.iter().enumerate() {
        for (yi, ye) in ys.iter().enumerate() {
            for order in 0..3u8 {
                let mut params: Vec<(coset::Label, Cbor)> = vec![];
                let xp: Vec<_> = xe.iter().map(|v| (coset::Label::Int(-2), v.clone())).collect();
                let yp: Vec<_> = ye.iter().map(|v| (coset::Label::Int(-3), v.clone())).collect();
                match order {
                    0 => {
                        params.extend(xp);
                        params.extend(yp);
                    }
                    1 => {
                        params.extend(yp);
                        params.extend(xp);
                    }
                    _ => {
                        // interleaved, with unrelated parameters in between
                        params.push((coset::Label::Int(-1), Cbor::Integer(1.into())));
                        let mut xi2 = xp.into_iter();
                        let mut yi2 = yp.into_iter();
                        loop {
                            let (a, b) = (xi2.next(), yi2.next());
                            if a.is_none() && b.is_none() {
                                break;
                            }
                            params.extend(a);
                            params.push((coset::Label::Text("t".into()), Cbor::Null));
                            params.extend(b);
                        }
                    }
                }
                let key = coset::CoseKey { kty: coset::RegisteredLabel::Assigned(iana::KeyType::EC2), alg: Some(coset::RegisteredLabelWithPrivate::Assigned(iana::Algorithm::ES256)), params, ..Default::default() };
                let case = json!({"cose_struct": {"x_entries": xi, "y_entries": yi, "order": order}});
                stats.case(&case.to_string(), true, "cose-struct");
                if let Err(p) = par::catch(|| {
                    let _ = passkey_authenticator::public_key_der_from_cose_key(&key);
                }) {
                    stats.finding(Finding::new(format!("decoder=public_key_der_from_cose_key(struct)/site={}/kind={}", site_file(&p), panic_class(&p)), format!("converter panicked on a key with {} x entries and {} y entries: {p}", xe.len(), ye.len()), case));
                }
            }
        }
    }
}

/// Key kinds.  CBOR lets any data item be a map key; the decoders use derived (de)serialisers plus
/// hand-written code that sorts, compares or looks members up, and such code has one behaviour per
/// *kind* of key (floats - NaN in particular - do not order, containers do not hash).  For every
/// CBOR decoder's richest seed and every map in it (top level and nested), and for authenticator
/// data with the ED flag, every ordered pair of keys from the menu below is added (in front and at
/// the end): well-formed input throughout, so the decoder must return (Ok or Err), never panic.
fn key_menu() -> Vec<(&'static str, Cbor)> {
    vec![
        ("0", Cbor::Integer(0.into())),
        ("-1", Cbor::Integer((-1).into())),
        ("24", Cbor::Integer(24.into())),
        ("u64max", Cbor::Integer(u64::MAX.into())),
        ("i64min", Cbor::Integer(i64::MIN.into())),
        ("text", Cbor::Text("a".into())),
        ("empty-text", Cbor::Text(String::new())),
        ("bytes", Cbor::Bytes(vec![1])),
        ("empty-bytes", Cbor::Bytes(vec![])),
        ("1.0", Cbor::Float(1.0)),
        ("NaN", Cbor::Float(f64::NAN)),
        ("-0.0", Cbor::Float(-0.0)),
        ("inf", Cbor::Float(f64::INFINITY)),
        ("true", Cbor::Bool(true)),
        ("false", Cbor::Bool(false)),
        ("null", Cbor::Null),
        ("array", Cbor::Array(vec![])),
        ("map", Cbor::Map(vec![])),
        ("tag", Cbor::Tag(1, Box::new(Cbor::Integer(0.into())))),
    ]
}
fn count_maps(v: &Cbor) -> usize {
    match v {
        Cbor::Map(es) => 1 + es.iter().map(|(_, x)| count_maps(x)).sum::<usize>(),
        Cbor::Array(a) => a.iter().map(count_maps).sum(),
        Cbor::Tag(_, b) => count_maps(b),
        _ => 0,
    }
}
/// add the two entries to the `target`-th map (pre-order) of `v`
fn add_keys(v: &mut Cbor, target: usize, seen: &mut usize, k1: &Cbor, k2: &Cbor, front: bool) {
    match v {
        Cbor::Map(es) => {
            if *seen == target {
                let extra = vec![(k1.clone(), Cbor::Integer(0.into())), (k2.clone(), Cbor::Integer(0.into()))];
                if front {
                    es.splice(0..0, extra);
                } else {
                    es.extend(extra);
                }
                *seen += 1;
                return;
            }
            *seen += 1;
            for (_, x) in es.iter_mut() {
                add_keys(x, target, seen, k1, k2, front);
            }
        }
        Cbor::Array(a) => {
            for x in a.iter_mut() {
                add_keys(x, target, seen, k1, k2, front);
            }
        }
        Cbor::Tag(_, b) => add_keys(b, target, seen, k1, k2, front),
        _ => {}
    }
}
fn key_kinds(threads: usize, only: Option<&Value>) -> Stats {
    let menu = key_menu();
    // (decoder, seed value or authData prefix)
    let mut jobs: Vec<(String, usize, usize, usize, bool)> = vec![];
    let decs = decoders();
    let mut seeds: Vec<(String, Option<Cbor>, Vec<u8>)> = vec![];
    for d in &decs {
        if d.kind == Kind::Cbor {
            if let Some(seed) = seeds_for(d.name).into_iter().next() {
                if let Ok(v) = ciborium::de::from_reader::<Cbor, _>(&seed[..]) {
                    if count_maps(&v) > 0 {
                        seeds.push((d.name.to_string(), Some(v), vec![]));
                    }
                }
            }
        }
    }
    // authenticator data: header with ED (and once with AT + ED), followed by the extension map
    for (att, label) in [(None, "AuthenticatorData::from_slice(ED)"), (Some((1u8, 16usize)), "AuthenticatorData::from_slice(AT+ED)")] {
        let c = super::c12::Case { rp: 1, counter: 2, flags: 5, assign_flags: true, attested: att, ext: 0, depth: 0, ext_len: None };
        if let Ok(mut b) = super::c12::encode_public(&c) {
            b[32] |= 0x80;
            seeds.push((label.to_string(), None, b));
        }
    }
    for (si, (_, v, _)) in seeds.iter().enumerate() {
        let maps = v.as_ref().map_or(1, count_maps);
        for node in 0..maps {
            for a in 0..menu.len() {
                for front in [false, true] {
                    jobs.push((String::new(), si, node, a, front));
                }
            }
        }
    }
    par::sweep_cases(&jobs, threads, |(_, si, node, a, front), st| {
        let (name, seed, prefix) = &seeds[*si];
        for (b, (bn, k2)) in menu.iter().enumerate() {
            let (an, k1) = &menu[*a];
            let case = json!({"key_kinds": {"decoder": name, "map": node, "first": an, "second": bn, "front": front}});
            if let Some(o) = only {
                if *o != case {
                    continue;
                }
            }
            let _ = b;
            let bytes = match seed {
                Some(v) => {
                    let mut v = v.clone();
                    add_keys(&mut v, *node, &mut 0, k1, k2, *front);
                    let mut out = vec![];
                    if ciborium::ser::into_writer(&v, &mut out).is_err() {
                        continue;
                    }
                    out
                }
                None => {
                    let m = if *front { Cbor::Map(vec![(k1.clone(), Cbor::Integer(0.into())), (k2.clone(), Cbor::Integer(0.into()))]) } else { Cbor::Map(vec![(Cbor::Text("hmac-secret".into()), Cbor::Bool(true)), (k1.clone(), Cbor::Integer(0.into())), (k2.clone(), Cbor::Integer(0.into()))]) };
                    let mut out = prefix.clone();
                    if ciborium::ser::into_writer(&m, &mut out).is_err() {
                        continue;
                    }
                    out
                }
            };
            st.case(&case.to_string(), true, "key-kinds");
            let dec_name = name.split('(').next().unwrap_or(name);
            let run = decs.iter().find(|d| d.name == dec_name || d.name == name.as_str()).map(|d| d.run);
            if let Some(run) = run {
                if let Err(p) = par::catch(|| run(&bytes)) {
                    st.finding(Finding::new(format!("decoder={dec_name}/site={}/kind={}", site_file(&p), panic_class(&p)), format!("panicked on well-formed input whose map has the keys {an} and {bn} added ({} bytes): {p}", bytes.len()), case));
                }
            }
        }
    })
}

/// After user-supplied code panicked once (a suffix provider that panics on its first call; the
/// embedder catches the unwind, or the thread that ran it dies), the same verifier answers every
/// later call as before - it never panics on its own account.
struct PanicsOnce(std::sync::atomic::AtomicBool);
impl public_suffix::EffectiveTLDProvider for PanicsOnce {
    fn effective_tld_plus_one<'a>(&self, domain: &'a str) -> Result<&'a str, public_suffix::Error> {
        if !self.0.swap(true, std::sync::atomic::Ordering::SeqCst) {
            panic!("injected: the suffix provider panicked");
        }
        public_suffix::DEFAULT_PROVIDER.effective_tld_plus_one(domain)
    }
}
fn after_provider_panic(other_thread: bool) -> Vec<(String, String)> {
    let v = std::sync::Arc::new(RpIdVerifier::new(PanicsOnce(Default::default())));
    let v2 = v.clone();
    let first = move || {
        let u = url::Url::parse("https://www.example.com").unwrap();
        let o: Origin = (&u).into();
        let _ = v2.assert_domain(&o, Some("example.com"));
    };
    if other_thread {
        let _ = std::thread::spawn(first).join();
    } else {
        let _ = par::catch(first);
    }
    let mut out = vec![];
    for rp in ["example.com", "co.uk", "www.example.com", "localhost", ""] {
        let v3 = v.clone();
        let r = par::catch(move || {
            let u = url::Url::parse("https://www.example.com").unwrap();
            let o: Origin = (&u).into();
            (v3.is_valid_rp_id(rp), v3.assert_domain(&o, Some(rp)).is_ok())
        });
        let want = (rp == "example.com" || rp == "www.example.com", rp == "example.com" || rp == "www.example.com");
        match r {
            Err(p) => out.push((format!("decoder=RpIdVerifier(after provider panic)/site={}/kind={}", site_file(&p), panic_class(&p)), format!("after the suffix provider panicked once ({}), checking RP ID {rp:?} on the same verifier panics: {p}", if other_thread { "on a thread that died" } else { "caught by the caller" }))),
            Ok(got) if got != want => out.push(("decoder=RpIdVerifier(after provider panic)/kind=answer-changed".into(), format!("after the suffix provider panicked once, RP ID {rp:?} is answered {got:?}, expected {want:?}"))),
            Ok(_) => {}
        }
    }
    out
}

/// Lists with repeated entries: every sequence over three credential ids (with differing transports
/// hints) of length 0..=5 (thorough 6) as allowCredentials / excludeCredentials of the WebAuthn JSON
/// options and as allowList / excludeList of the CTAP2 CBOR requests - well-formed input; code that
/// de-duplicates, merges or indexes list entries has one path per repetition pattern.
fn repeated_one(seq: &[u8]) -> Vec<(&'static str, String)> {
    use passkey_types::webauthn::{AuthenticatorTransport as T, CredentialCreationOptions, CredentialRequestOptions};
    let ids: Vec<Vec<u8>> = seq.iter().map(|k| vec![0x60 + k; 16]).collect();
    let mut out = vec![];
    let with_hints = |mut d: Vec<passkey_types::webauthn::PublicKeyCredentialDescriptor>| {
        for (i, x) in d.iter_mut().enumerate() {
            x.transports = match (i + seq.get(i).copied().unwrap_or(0) as usize) % 3 {
                0 => None,
                1 => Some(vec![T::Usb]),
                _ => Some(vec![T::Internal, T::Hybrid]),
            };
        }
        d
    };
    let mut get = crate::drivers::request_options(crate::drivers::Auth { allow: Some(ids.clone()), ..Default::default() });
    get.public_key.allow_credentials = get.public_key.allow_credentials.map(with_hints);
    let mut create = crate::drivers::creation_options(crate::drivers::Reg { exclude: Some(ids.clone()), ..Default::default() });
    create.public_key.exclude_credentials = create.public_key.exclude_credentials.map(with_hints);
    let gj = serde_json::to_string(&get).unwrap_or_default();
    let cj = serde_json::to_string(&create).unwrap_or_default();
    if let Err(p) = par::catch(|| {
        let _ = serde_json::from_str::<CredentialRequestOptions>(&gj);
        let _ = serde_json::from_str::<Value>(&gj).map(serde_json::from_value::<CredentialRequestOptions>);
    }) {
        out.push(("webauthn::CredentialRequestOptions", p));
    }
    if let Err(p) = par::catch(|| {
        let _ = serde_json::from_str::<CredentialCreationOptions>(&cj);
        let _ = serde_json::from_str::<Value>(&cj).map(serde_json::from_value::<CredentialCreationOptions>);
    }) {
        out.push(("webauthn::CredentialCreationOptions", p));
    }
    let ga = crate::drivers::ga_request("example.com", Some(ids.clone()), false, true, true, false, None);
    let mc = crate::drivers::mc_request("example.com", &[1], Some(ids), true, true, true, false, None);
    let (mut gb, mut mb) = (vec![], vec![]);
    let _ = ciborium::ser::into_writer(&ga, &mut gb);
    let _ = ciborium::ser::into_writer(&mc, &mut mb);
    if let Err(p) = par::catch(|| cbor::<get_assertion::Request>(&gb)) {
        out.push(("ctap2::get_assertion::Request", p));
    }
    if let Err(p) = par::catch(|| cbor::<make_credential::Request>(&mb)) {
        out.push(("ctap2::make_credential::Request", p));
    }
    out
}
fn repeated_entries(tier: Tier, threads: usize, only: Option<&Value>) -> Stats {
    let depth = tier.pick(5usize, 6);
    let mut seqs: Vec<Vec<u8>> = vec![vec![]];
    for d in 1..=depth {
        for idx in 0..3usize.pow(d as u32) {
            let mut x = idx;
            seqs.push((0..d).map(|_| { let o = (x % 3) as u8; x /= 3; o }).collect());
        }
    }
    if let Some(o) = only {
        seqs.retain(|s| json!({"repeated_entries": s}) == *o);
    }
    par::sweep_cases(&seqs, threads, |s, st| {
        st.case(s, true, "repeated-list-entries");
        for (dec, p) in repeated_one(s) {
            st.finding(Finding::new(format!("decoder={dec}/site={}/kind={}", site_file(&p), panic_class(&p)), format!("panicked on a well-formed list with the ids {s:?}: {p}"), json!({"repeated_entries": s})));
        }
    })
}

/// Names derived from the rules of the shipped list (every rule as-is, wildcard instantiations,
/// parents, siblings, and 1..12 further labels in front): the lookups and the RP-ID verifier must
/// return for each - the table walk has paths (deepest rules, wildcard under wildcard, exception
/// under wildcard) that no short or random name reaches.
fn rule_name_one(name: &str) -> Option<String> {
    par::catch(|| {
        let p = public_suffix::DEFAULT_PROVIDER;
        use public_suffix::EffectiveTLDProvider;
        let _ = p.effective_tld_plus_one(name);
        let _ = p.public_suffix(name);
        let _ = p.is_effective_tld(name);
        let v = RpIdVerifier::new(public_suffix::DEFAULT_PROVIDER);
        let _ = v.is_valid_rp_id(name);
        if let Ok(u) = url::Url::parse(&format!("https://{name}")) {
            let o: Origin = (&u).into();
            let _ = v.assert_domain(&o, None);
        }
    })
    .err()
}
fn rule_names(threads: usize) -> Result<Stats, String> {
    let psl = crate::oracles::psl::Psl::load(super::c10::DAT)?;
    let mut names: Vec<String> = psl.rules.iter().flat_map(|r| super::c10::names_for_rule(r)).collect();
    names.sort();
    names.dedup();
    Ok(par::sweep_cases(&names, threads, |n, st| {
        st.case(n, true, "rule-derived-name");
        if let Some(p) = rule_name_one(n) {
            st.finding(Finding::new(format!("decoder=public-suffix(rule-derived-name)/site={}/kind={}", site_file(&p), panic_class(&p)), format!("lookup of {n:?} panicked: {p}"), json!({"rule_name": n})));
        }
    }))
}

/// Every length of well-formed base64 / base64url text (with and without padding) up to `max`
/// decoded bytes, through the three text entry points and a JSON `Bytes` member: a decoder with a
/// size-dependent fast path must not have a boundary at which it panics.
fn base64_lengths(max: usize, threads: usize) -> Stats {
    use crate::oracles::b64;
    par::sweep(max + 1, threads, 64, |n, st| {
        let bytes: Vec<u8> = (0..n).map(|i| (i * 7 + n) as u8 | 0xC0).collect();
        for (form, text) in [("base64url", b64::url_nopad(&bytes)), ("base64url-padded", b64::url_pad(&bytes)), ("base64", b64::std_nopad(&bytes)), ("base64-padded", b64::std_pad(&bytes))] {
            let case = json!({"base64_length": {"decoded_bytes": n, "form": form}});
            st.case(&(n, form), n > 0, "base64-length");
            let r = par::catch(|| {
                let a = Bytes::try_from(text.as_str()).ok().map(|b| b.to_vec());
                let b = encoding::try_from_base64url(&text);
                let c = ();
                let d = serde_json::from_str::<Bytes>(&format!("\"{text}\"")).ok().map(|b| b.to_vec());
                (a, b, c, d)
            });
            match r {
                Err(p) => st.finding(Finding::new(format!("decoder=base64-text/site={}/kind={}", site_file(&p), panic_class(&p)), format!("decoding {form} text of {n} bytes ({} characters) panicked: {p}", text.len()), case)),
                Ok((a, _, _, d)) => {
                    // the lenient entry points accept every spelling and give the bytes back
                    if a.as_deref() != Some(&bytes[..]) || d.as_deref() != Some(&bytes[..]) {
                        st.finding(Finding::new("decoder=base64-text/kind=well-formed-text-not-decoded", format!("{form} text of {n} bytes: Bytes::try_from gives {:?} bytes, JSON Bytes gives {:?} bytes", a.map(|x| x.len()), d.map(|x| x.len())), case));
                    }
                }
            }
        }
    })
}

fn base64_lengths_one(n: usize) -> Stats {
    // the sweep function over a window that contains only n
    let mut st = Stats::new();
    let all = base64_lengths(n, 1);
    for (k, (f, c)) in all.findings {
        if f.case["base64_length"]["decoded_bytes"].as_u64() == Some(n as u64) {
            st.findings.insert(k, (f, c));
        }
    }
    st
}

pub fn run(ctx: &Ctx) -> Result<Run, String> {
    let sp = Space::new(ctx.tier);
    let n = sp.len();
    let cfg = IsoConfig { prop: "C15".into(), mode: "sweep".into(), tier: ctx.tier.name(), workers: ctx.threads, segment: (n / (ctx.threads * 8)).max(1000), every: 2000, stack_mb: 8 };
    let mut stats = iso::run(&sp, &cfg)?;
    stats.count("isolated_cases", n as u64);
    cose_struct_sweep(&mut stats);
    // CTAPHID with many channels transmitting at once (C16's family; here only "no panic")
    for c in super::c16::many_cases(ctx.tier) {
        stats.case(&("many-channels", c.channels, c.restart_first, c.reverse), true, "hid-many-channels");
        for f in super::c16::eval_many(&c) {
            if f.key.contains("kind=panic") {
                stats.finding(Finding::new(format!("decoder=ChannelHandler::handle_packet/{}", f.key), f.detail, f.case));
            }
        }
    }
    for other_thread in [false, true] {
        stats.case(&("after-provider-panic", other_thread), true, "after-user-code-panic");
        for (k, d) in after_provider_panic(other_thread) {
            stats.finding(Finding::new(k, d, json!({"after_provider_panic": other_thread})));
        }
    }
    let re = repeated_entries(ctx.tier, ctx.threads, None);
    stats.count("repeated_entry_lists", re.evaluations);
    stats.merge(re);
    let rn = rule_names(ctx.threads)?;
    stats.count("rule_derived_names", rn.evaluations);
    stats.merge(rn);
    let kk = key_kinds(ctx.threads, None);
    stats.count("key_kind_cases", kk.evaluations);
    stats.merge(kk);
    let bl = base64_lengths(ctx.tier.pick(4200, 20_000), ctx.threads);
    stats.count("base64_length_cases", bl.evaluations);
    stats.merge(bl);
    // (4) scaling families, each family x key pattern in its own isolated worker slot
    let scale = super::c15_scale::ScaleSpace::new(ctx.tier);
    let ns = scale.len();
    let scfg = IsoConfig { prop: "C15".into(), mode: "scale".into(), tier: ctx.tier.name(), workers: ctx.threads.min(ns).max(1), segment: 1, every: 1, stack_mb: 8 };
    let sstats = iso::run(&scale, &scfg)?;
    stats.merge(sstats);
    stats.count("scaling_family_cases", ns as u64);
    let (hs, ht) = hid_search(ctx.tier, ctx.threads, &mut stats);
    stats.count("hid_states", hs);
    stats.count("hid_transitions", ht);
    let ndec = sp.decs.len();
    let mut run = Run::from_stats(
        "exploration",
        "for each of 28 public decoders (CTAP2 CBOR messages, authenticator data, WebAuthn JSON, base64, U2F raw messages, COSE-key converter, fingerprints, asset links, RP-ID verification, public-suffix lookups): (1) all byte strings up to length 2 (3 thorough) / all strings over an 8-symbol alphabet up to length 5 (7 thorough); (2) every single deviation of valid seed encodings of every message type: truncation at every position, every byte value at every position (CBOR/binary; a 17-symbol menu for JSON/text), and splices at every position of CBOR heads of every major type with declared lengths 2^8..2^64-1 / indefinite, 300-, 3000- and 100000-deep nesting (binary layouts that embed CBOR items included), JSON structure/number/escape fragments, long and dotted labels, numbers at and beyond the 16/32/64-bit limits (in the place of a port digit of host:port seeds), and length-preserving overwrites by the 2..4-byte fragments (a multi-byte character in the place of two digits) (thorough: all pairs of byte-level deviations on short seeds); run in isolated worker processes with a counting allocator (single request > 4 MiB + 32 x input length, or > 256 MiB in total = out of proportion; > 1 GiB refused), 8 MiB stack, per-case watchdog; (2c) well-formed base64 / base64url text, padded or not, of every decoded length 0..4200 (thorough 20000) through Bytes::try_from, try_from_base64url and a JSON Bytes member (must decode to the bytes; no panic at any size boundary); (2g) an RP-ID verifier whose user-supplied suffix provider panicked once (unwind caught, or on a thread that died) answers five further RP IDs without panicking and as before; (2f) allow / exclude lists that are every sequence over three ids of length 0..5 (thorough 6), with mixed transports hints, through the JSON option parsers (text and owned value) and the CBOR request decoders; (2e) every name derived from a rule of the shipped list (as-is, wildcard instantiations, parent, sibling, 1..12 further labels in front) through the three lookups and the RP-ID verifier; (2d) key kinds: for the richest seed of every CBOR decoder and every map in it (top level and nested), and for authenticator data with ED resp. AT+ED, every ordered pair of added keys from 19 kinds (small/large/negative integers, text, bytes, floats incl. NaN, -0.0 and infinity, booleans, null, empty array, empty map, tag), in front and at the end - well-formed input, the decoder must return; (2b) COSE keys built as structs (0..2 entries per coordinate from a menu of lengths and types, three label orders, repeated labels included) given to the converter directly; (4) scaling families: 14 well-formed message shapes whose collection (PRF per-credential map, allow/exclude list, parameter list, unknown members, COSE parameters, JSON lists and maps, base64 text) grows to 256, 1024, 4096, 16384 (thorough: 65536) elements, with ids/keys that differ only at the front, only at the end or only in the middle, decoded in isolated workers: 4x the elements may not cost more than 9x the CPU time (judged once the larger run exceeds 10 ms, confirmed by a second measurement) nor an allocation out of proportion; (3b) CTAPHID with 1..300 (4096) channels transmitting at once; (3) CTAPHID: BFS over packet sequences on the real ChannelHandler (alphabet: 2 channels x 8 init heads + 4 continuation sequence numbers x 13 packet sizes), deduplicated on the hook snapshot. Non-trivial = distinct non-empty input",
        true,
        stats,
    );
    run.set("decoders", json!(ndec));
    run.set("hid_states", json!(hs));
    run.set("hid_transitions", json!(ht));
    run.assume("this is the bounded version of an unbounded property: inputs outside the stated alphabets / beyond one (two) deviations are not covered; thresholds for 'out of proportion' are orders of magnitude above normal behaviour");
    Ok(run)
}

pub fn replay(_ctx: &Ctx, case: &Value) -> Result<Vec<Finding>, String> {
    if case.get("packets").is_some() {
        return hid_replay(case);
    }
    if let Some(sc) = case.get("scale") {
        for tier in [Tier::Quick, Tier::Thorough] {
            let sp = super::c15_scale::ScaleSpace::new(tier);
            if let Some(idx) = sp.find(sc["family"].as_str().unwrap_or(""), sc["pattern"].as_u64().unwrap_or(99) as u8) {
                let one = super::c15_scale::OneScale { inner: sp, idx };
                let cfg = IsoConfig { prop: "C15".into(), mode: format!("scale-one:{idx}"), tier: tier.name(), workers: 1, segment: 1, every: 1, stack_mb: 8 };
                let st = iso::run(&one, &cfg)?;
                if !st.findings.is_empty() || tier == Tier::Thorough {
                    return Ok(st.findings.into_values().map(|x| x.0).collect());
                }
            }
        }
        return Err("scaling family not found".into());
    }
    if let Some(m) = case.get("many_channels") {
        let c: super::c16::Many = serde_json::from_value(m.clone()).map_err(|e| format!("bad case: {e}"))?;
        return Ok(super::c16::eval_many(&c).into_iter().filter(|f| f.key.contains("kind=panic")).map(|f| Finding::new(format!("decoder=ChannelHandler::handle_packet/{}", f.key), f.detail, f.case)).collect());
    }
    if let Some(b) = case.get("base64_length") {
        let n = b["decoded_bytes"].as_u64().unwrap_or(0) as usize;
        let st = base64_lengths_one(n);
        return Ok(st.findings.into_values().map(|x| x.0).filter(|f| f.case == *case).collect());
    }
    if let Some(n) = case.get("rule_name").and_then(|n| n.as_str()) {
        return Ok(rule_name_one(n).map(|p| Finding::new(format!("decoder=public-suffix(rule-derived-name)/site={}/kind={}", site_file(&p), panic_class(&p)), format!("lookup of {n:?} panicked: {p}"), case.clone())).into_iter().collect());
    }
    if let Some(t) = case.get("after_provider_panic").and_then(|t| t.as_bool()) {
        return Ok(after_provider_panic(t).into_iter().map(|(k, d)| Finding::new(k, d, case.clone())).collect());
    }
    if case.get("repeated_entries").is_some() {
        let st = repeated_entries(Tier::Thorough, 1, Some(case));
        return Ok(st.findings.into_values().map(|x| x.0).collect());
    }
    if case.get("key_kinds").is_some() {
        let st = key_kinds(1, Some(case));
        return Ok(st.findings.into_values().map(|x| x.0).collect());
    }
    if case.get("cose_struct").is_some() {
        let mut st = Stats::new();
        cose_struct_sweep(&mut st);
        return Ok(st.findings.into_values().map(|x| x.0).filter(|f| f.case == *case).collect());
    }
    let idx = case["index"].as_u64().ok_or("bad C15 case")? as usize;
    // the index is relative to the tier's enumeration: find the tier whose case matches
    for tier in [Tier::Quick, Tier::Thorough] {
        let sp = Space::new(tier);
        if idx < sp.len() && sp.describe(idx)["input_hex"] == case["input_hex"] && sp.describe(idx)["decoder"] == case["decoder"] {
            let one = OneOf { inner: sp, idx };
            let cfg = IsoConfig { prop: "C15".into(), mode: format!("one:{idx}"), tier: tier.name(), workers: 1, segment: 1, every: 1, stack_mb: 8 };
            let st = iso::run(&one, &cfg)?;
            return Ok(st.findings.into_values().map(|x| x.0).collect());
        }
    }
    Err("case not found in either tier's enumeration".into())
}
