//! Signature shapes.  The library signs with deterministic ECDSA (RFC 6979), so for a credential
//! whose private key the harness put into the store, the exact signature over any message is
//! known beforehand.  The DER encoding of (r, s) is 70..72 bytes for most messages, shorter when r
//! or s happen to start with zero bytes (about 1 message in 128), and code that handles the
//! signature (length checks, fixed-size buffers, re-encoding) has one behaviour per shape.  The
//! shapes are therefore an explicit dimension: for every fixed key the harness searches, with its
//! own signer, the smallest varying field (the U2F counter / a 4-byte field of the client data
//! hash) whose signature falls into each shape class, and runs the library on exactly those
//! messages.  Oracle: the ceremony succeeds, the signature is byte-for-byte the predicted one,
//! verifies under the credential's public key, and the response encodes as specified.
use crate::core::exec::block_on;
use crate::core::par;
use crate::core::report::{Finding, Stats, Tier};
use crate::drivers::*;
use crate::oracles::rp;
use p256::ecdsa::{signature::Signer, Signature, SigningKey};
use passkey_authenticator::{Authenticator, U2fApi};
use passkey_types::ctap2::{Aaguid, Flags};
use passkey_types::u2f::{AuthenticationParameter, AuthenticationRequest};
use passkey_types::Passkey;
use serde_json::{json, Value};

/// (bytes of r without leading zeros, r needs a DER pad byte, bytes of s without leading zeros)
fn shape(sig: &Signature) -> (usize, bool, usize) {
    let b = sig.to_bytes();
    let (r, s) = (&b[..32], &b[32..]);
    let rl = 32 - r.iter().take_while(|x| **x == 0).count();
    let sl = 32 - s.iter().take_while(|x| **x == 0).count();
    let pad = r.iter().find(|x| **x != 0).map_or(false, |x| x & 0x80 != 0);
    (rl, pad, sl)
}
pub const CLASSES: [&str; 6] = ["r32pad_s32", "r32_s32", "rshort_s32", "r32_sshort", "r32pad_sshort", "rshort_sshort"];
fn class(sig: &Signature) -> &'static str {
    let (rl, pad, sl) = shape(sig);
    match (rl < 32, pad, sl < 32) {
        (false, true, false) => "r32pad_s32",
        (false, false, false) => "r32_s32",
        (true, _, false) => "rshort_s32",
        (false, false, true) => "r32_sshort",
        (false, true, true) => "r32pad_sshort",
        (true, _, true) => "rshort_sshort",
    }
}
fn own_sign(d: &[u8; 32], msg: &[u8]) -> Signature {
    let k = SigningKey::from_slice(d).expect("harness key");
    k.sign(msg)
}

/// Smallest n in 0..limit per class such that the signature over `msg(n)` is of that class.
fn search(d: &[u8; 32], limit: u32, want: &[&'static str], msg: impl Fn(u32) -> Vec<u8>) -> Vec<(&'static str, u32)> {
    let mut found: Vec<(&'static str, u32)> = vec![];
    for n in 0..limit {
        let c = class(&own_sign(d, &msg(n)));
        if want.contains(&c) && !found.iter().any(|(k, _)| *k == c) {
            found.push((c, n));
            if found.len() == want.len() {
                break;
            }
        }
    }
    found
}

fn u2f_msg(app: &[u8; 32], presence: u8, counter: u32, ch: &[u8; 32]) -> Vec<u8> {
    let mut m = app.to_vec();
    m.push(presence);
    m.extend_from_slice(&counter.to_be_bytes());
    m.extend_from_slice(ch);
    m
}

fn pattern(n: u8) -> [u8; 32] {
    let mut a = [0u8; 32];
    for (i, b) in a.iter_mut().enumerate() {
        *b = n.wrapping_mul(7).wrapping_add(i as u8 * 3);
    }
    a
}

fn u2f_one(key_n: u8, app_n: u8, counter: u32, store_kind: u8) -> Vec<(String, String)> {
    let d = fixed_scalar(key_n);
    let (app, ch) = (pattern(app_n), pattern(app_n ^ 0x5a));
    let handle = cred_id(key_n);
    let pk = Passkey { key: cose_private_from_scalar(&d), credential_id: handle.clone().into(), rp_id: crate::oracles::b64::url_nopad(&app), user_handle: None, counter: Some(0), extensions: Default::default() };
    let want = own_sign(&d, &u2f_msg(&app, 1, counter, &ch));
    let want_der = want.to_der().as_bytes().to_vec();
    let req = || AuthenticationRequest { parameter: AuthenticationParameter::EnforceUserPresence, challenge: ch, application: app, key_handle: handle.clone() };
    let out = par::catch(|| {
        let uv = ScriptedUv::consenting(Log::new());
        match store_kind {
            0 => {
                let mut s = passkey_authenticator::MemoryStore::new();
                s.insert(handle.clone(), pk.clone());
                let a = Authenticator::new(Aaguid::new_empty(), s, uv);
                block_on(U2fApi::authenticate(&a, req(), counter, Flags::UP)).map(|r| (r.signature.clone(), r.encode())).map_err(|e| format!("{e:?}"))
            }
            1 => {
                let a = Authenticator::new(Aaguid::new_empty(), Some(pk.clone()), uv);
                block_on(U2fApi::authenticate(&a, req(), counter, Flags::UP)).map(|r| (r.signature.clone(), r.encode())).map_err(|e| format!("{e:?}"))
            }
            _ => {
                let a = Authenticator::new(Aaguid::new_empty(), Shared::new(RefStore::with(vec![pk.clone()])), uv);
                block_on(U2fApi::authenticate(&a, req(), counter, Flags::UP)).map(|r| (r.signature.clone(), r.encode())).map_err(|e| format!("{e:?}"))
            }
        }
    });
    let mut v = vec![];
    let cls = class(&want);
    match out {
        Err(p) => v.push(("panic-in-authenticate".to_string(), format!("{p}; signature class {cls} ({} DER bytes)", want_der.len()))),
        Ok(Err(e)) => v.push(("authentication-fails".to_string(), format!("authentication with a stored key handle failed ({e}) for a message whose signature is of class {cls} ({} DER bytes)", want_der.len()))),
        Ok(Ok((sig, enc))) => {
            let (x, y) = public_xy_from_scalar(&d);
            match rp::verifying_key(&x, &y).and_then(|k| rp::ecdsa_verify(&k, &u2f_msg(&app, 1, counter, &ch), &sig).map(|_| ())) {
                Ok(()) => {}
                Err(e) => v.push(("authentication-signature".to_string(), format!("{e}; signature class {cls}"))),
            }
            if sig != want_der {
                v.push(("signature-not-the-deterministic-one".to_string(), format!("signature is {} bytes, the RFC 6979 signature of the stored key over the specified message is {} bytes (class {cls})", sig.len(), want_der.len())));
            }
            let mut w = vec![1u8];
            w.extend_from_slice(&counter.to_be_bytes());
            w.extend_from_slice(&sig);
            w.extend_from_slice(&[0x90, 0x00]);
            if enc != w {
                v.push(("authenticate-encoding".to_string(), format!("raw message is not presence || counter(BE) || signature || 9000 (class {cls})")));
            }
        }
    }
    v
}

/// C17: U2F authentication over every signature shape, three keys x two applications x three stores.
pub fn u2f_shapes(tier: Tier, st: &mut Stats) {
    let want: &[&'static str] = match tier {
        Tier::Quick => &CLASSES[..5],
        Tier::Thorough => &CLASSES[..],
    };
    let limit = tier.pick(40_000, 600_000);
    for key_n in [1u8, 2, 3] {
        for app_n in [4u8, 9] {
            let d = fixed_scalar(key_n);
            let (app, ch) = (pattern(app_n), pattern(app_n ^ 0x5a));
            let found = search(&d, limit, want, |n| u2f_msg(&app, 1, n, &ch));
            st.count("signature_shape_searches", 1);
            for (cls, counter) in found {
                for store_kind in 0..3u8 {
                    let case = json!({"sigshape": {"api": "u2f", "key": key_n, "app": app_n, "counter": counter, "store": store_kind}});
                    let vs = u2f_one(key_n, app_n, counter, store_kind);
                    st.case(&(key_n, app_n, counter, store_kind, "u2f"), true, &format!("sigshape:{cls}"));
                    for (k, dd) in vs {
                        st.finding(Finding::new(format!("sigshape/kind={k}"), dd, case.clone()));
                    }
                }
            }
        }
    }
}

fn ctap2_one(key_n: u8, counter: Option<u32>, hash_n: u32) -> Vec<(String, String)> {
    let d = fixed_scalar(key_n);
    let rp = "example.com";
    let pk = Passkey { key: cose_private_from_scalar(&d), credential_id: cred_id(key_n).into(), rp_id: rp.into(), user_handle: Some(vec![7, 7].into()), counter, extensions: Default::default() };
    let cdh = cdh(hash_n);
    let out = par::catch(|| {
        let mut a = Authenticator::new(Aaguid::new_empty(), Some(pk.clone()), ScriptedUv::consenting(Log::new()));
        let mut req = ga_request(rp, Some(vec![cred_id(key_n)]), false, true, true, false, None);
        req.client_data_hash = cdh.to_vec().into();
        block_on(a.get_assertion(req)).map(|r| (r.auth_data.to_vec(), r.signature.to_vec())).map_err(|e| format!("{e:?}"))
    });
    let mut v = vec![];
    match out {
        Err(p) => v.push(("panic-in-get-assertion".to_string(), p)),
        Ok(Err(e)) => v.push(("assertion-fails".to_string(), format!("assertion with a stored credential failed: {e}"))),
        Ok(Ok((ad, sig))) => {
            let mut msg = ad.clone();
            msg.extend_from_slice(&cdh);
            let want = own_sign(&d, &msg);
            let cls = class(&want);
            let (x, y) = public_xy_from_scalar(&d);
            if let Err(e) = rp::verifying_key(&x, &y).and_then(|k| rp::ecdsa_verify(&k, &msg, &sig).map(|_| ())) {
                v.push(("assertion-signature".to_string(), format!("{e}; signature class {cls}")));
            }
            if sig != want.to_der().as_bytes() {
                v.push(("signature-not-the-deterministic-one".to_string(), format!("signature is {} bytes, the RFC 6979 signature over authData || clientDataHash is {} bytes (class {cls})", sig.len(), want.to_der().as_bytes().len())));
            }
        }
    }
    v
}
fn cdh(n: u32) -> [u8; 32] {
    let mut h = pattern(0x21);
    h[..4].copy_from_slice(&n.to_be_bytes());
    h
}

/// C03: CTAP2 assertions over every signature shape.  The authenticator data for a stored
/// credential is learnt from one call (it is a function of the credential and the options), then
/// the client-data hash is varied.
pub fn ctap2_shapes(tier: Tier, st: &mut Stats) {
    let want: &[&'static str] = match tier {
        Tier::Quick => &CLASSES[..5],
        Tier::Thorough => &CLASSES[..],
    };
    let limit = tier.pick(40_000, 600_000);
    for key_n in [1u8, 2, 3] {
        for counter in [None, Some(5u32)] {
            let d = fixed_scalar(key_n);
            // learn the authenticator data
            let rp = "example.com";
            let pk = Passkey { key: cose_private_from_scalar(&d), credential_id: cred_id(key_n).into(), rp_id: rp.into(), user_handle: Some(vec![7, 7].into()), counter, extensions: Default::default() };
            let ad = par::catch(|| {
                let mut a = Authenticator::new(Aaguid::new_empty(), Some(pk.clone()), ScriptedUv::consenting(Log::new()));
                let req = ga_request(rp, Some(vec![cred_id(key_n)]), false, true, true, false, None);
                block_on(a.get_assertion(req)).map(|r| r.auth_data.to_vec()).ok()
            });
            let Ok(Some(ad)) = ad else {
                st.finding(Finding::new("sigshape/kind=assertion-fails", "assertion with a stored credential failed", json!({"sigshape": {"api": "ctap2", "key": key_n, "counter": counter, "hash": 0}})));
                continue;
            };
            let found = search(&d, limit, want, |n| {
                let mut m = ad.clone();
                m.extend_from_slice(&cdh(n));
                m
            });
            st.count("signature_shape_searches", 1);
            for (cls, n) in found {
                let case = json!({"sigshape": {"api": "ctap2", "key": key_n, "counter": counter, "hash": n}});
                let vs = ctap2_one(key_n, counter, n);
                st.case(&(key_n, counter, n, "ctap2"), true, &format!("sigshape:{cls}"));
                for (k, dd) in vs {
                    st.finding(Finding::new(format!("sigshape/kind={k}"), dd, case.clone()));
                }
            }
        }
    }
}

/// C03: a store whose items spell `rp_id` differently from the RP ID they are found under
/// (drivers::RelabelRp).  Assertions at CTAP2 level and through the client: the authenticator data
/// carries SHA-256 of the RP ID of the request, and the signature verifies over exactly that data.
fn relabel_one(how: u8, counter: Option<u32>, client: bool) -> Vec<(String, String)> {
    let d = fixed_scalar(2);
    let rp_id = "example.com";
    let pk = Passkey { key: cose_private_from_scalar(&d), credential_id: cred_id(2).into(), rp_id: rp_id.into(), user_handle: Some(vec![7, 7].into()), counter, extensions: Default::default() };
    let out = par::catch(|| {
        let store = RelabelRp { inner: Shared::new(RefStore::with(vec![pk.clone()])), how };
        let mut a = Authenticator::new(Aaguid::new_empty(), store, ScriptedUv::consenting(Log::new()));
        if client {
            let mut c = passkey_client::Client::new(a);
            let url = url::Url::parse("https://example.com").unwrap();
            let opts = request_options(Auth { allow: Some(vec![cred_id(2)]), ..Default::default() });
            block_on(c.authenticate(&url, opts, passkey_client::DefaultClientData)).map(|r| (r.response.authenticator_data.to_vec(), r.response.signature.to_vec(), rp::sha256(&r.response.client_data_json).to_vec())).map_err(|e| format!("{e:?}"))
        } else {
            let req = ga_request(rp_id, Some(vec![cred_id(2)]), false, true, true, false, None);
            let cdh = req.client_data_hash.to_vec();
            block_on(a.get_assertion(req)).map(|r| (r.auth_data.to_vec(), r.signature.to_vec(), cdh)).map_err(|e| format!("{e:?}"))
        }
    });
    let mut v = vec![];
    match out {
        Err(p) => v.push(("panic".to_string(), p)),
        Ok(Err(e)) => v.push(("assertion-fails".to_string(), format!("assertion with a credential the store lists for the RP failed: {e}"))),
        Ok(Ok((ad, sig, cdh))) => {
            if ad.len() < 37 || ad[..32] != rp::sha256(rp_id.as_bytes())[..] {
                v.push(("rp-id-hash".to_string(), format!("authenticator data does not start with SHA-256 of the request's RP ID {rp_id:?} (the store's item spells its rp_id in another way, variant {how})")));
            }
            let mut msg = ad.clone();
            msg.extend_from_slice(&cdh);
            let (x, y) = public_xy_from_scalar(&d);
            if let Err(e) = rp::verifying_key(&x, &y).and_then(|k| rp::ecdsa_verify(&k, &msg, &sig).map(|_| ())) {
                v.push(("assertion-signature".to_string(), e));
            }
        }
    }
    v
}
pub fn relabelled_rp(st: &mut Stats) {
    for how in 0..5u8 {
        for counter in [None, Some(5u32)] {
            for client in [false, true] {
                let case = json!({"relabel": {"how": how, "counter": counter, "client": client}});
                st.case(&(how, counter, client, "relabel"), true, "relabelled-rp");
                for (k, d) in relabel_one(how, counter, client) {
                    st.finding(Finding::new(format!("relabelled-rp/kind={k}"), d, case.clone()));
                }
            }
        }
    }
}

/// C03: credentials whose private scalar is stored in another encoding than the 32 bytes the
/// library writes (imported keys): a leading zero byte or two (ASN.1 / BigInteger habit), trailing
/// zeros, 31 bytes, 64 bytes, empty.  Whatever the library makes of them - refuse, or accept -
/// an assertion it returns verifies under the credential's PUBLIC key.
fn odd_scalar_one(how: u8, client: bool) -> Vec<(String, String)> {
    // encodings 3 and 6 use a scalar whose first byte is zero: its 31-byte form (leading zero
    // stripped) and its 33-byte form denote the same number
    let mut d = fixed_scalar(2);
    if how == 3 || how == 6 {
        d[0] = 0;
    }
    let (x, y) = public_xy_from_scalar(&d);
    let enc: Vec<u8> = match how {
        0 => [vec![0u8], d.to_vec()].concat(),
        1 => [vec![0u8, 0], d.to_vec()].concat(),
        2 => [d.to_vec(), vec![0u8]].concat(),
        3 => d[1..].to_vec(),
        4 => [d.to_vec(), d.to_vec()].concat(),
        5 => vec![],
        6 => [vec![0u8], d.to_vec()].concat(),
        _ => [vec![0xffu8], d.to_vec()].concat(),
    };
    let key = coset::CoseKeyBuilder::new_ec2_priv_key(coset::iana::EllipticCurve::P_256, x.to_vec(), y.to_vec(), enc.clone()).algorithm(coset::iana::Algorithm::ES256).build();
    let pk = Passkey { key, credential_id: cred_id(2).into(), rp_id: "example.com".into(), user_handle: Some(vec![7, 7].into()), counter: Some(1), extensions: Default::default() };
    let out = par::catch(|| {
        let store = Shared::new(RefStore::with(vec![pk.clone()]));
        let mut a = Authenticator::new(Aaguid::new_empty(), store, ScriptedUv::consenting(Log::new()));
        if client {
            let mut c = passkey_client::Client::new(a);
            let url = url::Url::parse("https://example.com").unwrap();
            let opts = request_options(Auth { allow: Some(vec![cred_id(2)]), ..Default::default() });
            block_on(c.authenticate(&url, opts, passkey_client::DefaultClientData)).map(|r| (r.response.authenticator_data.to_vec(), r.response.signature.to_vec(), rp::sha256(&r.response.client_data_json).to_vec())).map_err(|e| format!("{e:?}"))
        } else {
            let req = ga_request("example.com", Some(vec![cred_id(2)]), false, true, true, false, None);
            let cdh = req.client_data_hash.to_vec();
            block_on(a.get_assertion(req)).map(|r| (r.auth_data.to_vec(), r.signature.to_vec(), cdh)).map_err(|e| format!("{e:?}"))
        }
    });
    match out {
        Err(p) => vec![("panic".to_string(), format!("a stored private scalar of {} bytes (encoding {how}): {p}", enc.len()))],
        Ok(Err(_)) => vec![],
        Ok(Ok((ad, sig, cdh))) => {
            let mut msg = ad;
            msg.extend_from_slice(&cdh);
            match rp::verifying_key(&x, &y).and_then(|k| rp::ecdsa_verify(&k, &msg, &sig).map(|_| ())) {
                Ok(()) => vec![],
                Err(e) => vec![("assertion-signature".to_string(), format!("the credential's private scalar is stored as {} bytes (encoding {how}); the library returned an assertion whose signature does not verify under the credential's public key: {e}", enc.len()))],
            }
        }
    }
}
pub fn odd_scalars(st: &mut Stats) {
    for how in 0..8u8 {
        for client in [false, true] {
            let case = json!({"odd_scalar": {"how": how, "client": client}});
            st.case(&(how, client, "odd-scalar"), true, "odd-scalar-encoding");
            for (k, d) in odd_scalar_one(how, client) {
                st.finding(Finding::new(format!("odd-scalar/kind={k}"), d, case.clone()));
            }
        }
    }
}

pub fn replay(case: &Value) -> Option<Vec<Finding>> {
    if let Some(r) = case.get("odd_scalar") {
        return Some(odd_scalar_one(r["how"].as_u64()? as u8, r["client"].as_bool()?).into_iter().map(|(k, d)| Finding::new(format!("odd-scalar/kind={k}"), d, case.clone())).collect());
    }
    if let Some(r) = case.get("relabel") {
        return Some(relabel_one(r["how"].as_u64()? as u8, r["counter"].as_u64().map(|c| c as u32), r["client"].as_bool()?).into_iter().map(|(k, d)| Finding::new(format!("relabelled-rp/kind={k}"), d, case.clone())).collect());
    }
    let s = case.get("sigshape")?;
    let key_n = s["key"].as_u64()? as u8;
    let vs = match s["api"].as_str()? {
        "u2f" => u2f_one(key_n, s["app"].as_u64()? as u8, s["counter"].as_u64()? as u32, s["store"].as_u64()? as u8),
        _ => ctap2_one(key_n, s["counter"].as_u64().map(|c| c as u32), s["hash"].as_u64()? as u32),
    };
    Some(vs.into_iter().map(|(k, d)| Finding::new(format!("sigshape/kind={k}"), d, case.clone())).collect())
}
