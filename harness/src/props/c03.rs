//! C03 – authentication returns a signature that verifies and is bound to the ceremony.
//! Explicit-state search over histories of registrations and authentications on a real Client.
use super::common::*;
use crate::core::graph::{self, Sys};
use crate::core::report::*;
use crate::drivers::*;
use crate::oracles::rp::{self, AssertResponse, ClientDataExpect};
use passkey_client::WebauthnError;
use passkey_types::webauthn::{self, PublicKeyCredentialType, UserVerificationRequirement as UVR};
use serde::{Deserialize, Serialize};
use serde_json::{json, Value};

const REG_ORGS: [Org; 2] = [Org::HostIsRp, Org::Idn];
const AUTH_ORGS: [Org; 7] = [Org::HostIsRp, Org::Idn, Org::SubDomain, Org::Localhost, Org::Port, Org::Android, Org::AndroidFp2];

#[derive(Clone, Copy, Debug, PartialEq, Eq, Serialize, Deserialize, Hash)]
pub enum Allow {
    Absent,
    Empty,
    Own,
    OwnAndUnknown,
    Unknown,
    OtherRp,
    /// one descriptor of unknown credential *type* naming an id nobody has: whatever the type is
    /// taken to mean, no credential is named
    UnknownTypeUnknownId,
    /// one descriptor whose id is the base64url TEXT of the own credential's id, as bytes (what an RP
    /// library that forgot to decode sends): a byte string that names no credential
    TextOfOwn,
    /// the same as hex text
    HexOfOwn,
}
const ALLOWS: [Allow; 9] = [Allow::Absent, Allow::Empty, Allow::Own, Allow::OwnAndUnknown, Allow::Unknown, Allow::OtherRp, Allow::UnknownTypeUnknownId, Allow::TextOfOwn, Allow::HexOfOwn];

#[derive(Clone, Debug, PartialEq, Serialize, Deserialize)]
pub enum Act {
    Register { rp: u8, user: u8 },
    Authenticate { org: u8, allow: Allow, uv: u8, mode: Mode, challenge: u8 },
}

#[derive(Clone)]
pub struct C03 {
    pub depth: usize,
}

fn init_store(i: usize) -> Shared<RefStore> {
    let u = super::c02::users();
    let items = match i {
        0 => vec![],
        1 => vec![seeded(&Seed { n: 1, rp: "example.com".into(), handle: Some(u[0].0.clone()), counter: Some(41), hmac: None })],
        _ => vec![
            seeded(&Seed { n: 1, rp: "example.com".into(), handle: Some(u[0].0.clone()), counter: None, hmac: None }),
            seeded(&Seed { n: 2, rp: REG_ORGS[1].rp(), handle: Some(u[0].0.clone()), counter: Some(7), hmac: None }),
            seeded(&Seed { n: 3, rp: "example.com".into(), handle: Some(u[1].0.clone()), counter: Some(0), hmac: None }),
        ],
    };
    Shared::new(RefStore::with(items))
}

type Snap = Vec<(String, Option<Vec<u8>>, Option<u32>)>;
fn snap(store: &Shared<RefStore>) -> Snap {
    store.0.lock().unwrap().recs_ordered().into_iter().map(|r| (r.rp, r.handle, r.counter)).collect()
}

/// 0 required, 1 preferred, 2 discouraged (user verifies anyway), 3 discouraged and the user is not verified
fn uvr(n: u8) -> UVR {
    match n {
        0 => UVR::Required,
        1 => UVR::Preferred,
        _ => UVR::Discouraged,
    }
}

fn auth_ext_inputs(ext: u8) -> Option<webauthn::AuthenticationExtensionsClientInputs> {
    use webauthn::{AuthenticationExtensionsPrfInputs as P, AuthenticationExtensionsPrfValues as V};
    match ext {
        0 => None,
        1 => Some(webauthn::AuthenticationExtensionsClientInputs { cred_props: Some(true), prf: None, prf_already_hashed: None }),
        2 => Some(webauthn::AuthenticationExtensionsClientInputs { cred_props: None, prf: Some(P { eval: None, eval_by_credential: None }), prf_already_hashed: None }),
        _ => Some(webauthn::AuthenticationExtensionsClientInputs { cred_props: None, prf: Some(P { eval: Some(V { first: vec![1, 2, 3].into(), second: None }), eval_by_credential: None }), prf_already_hashed: None }),
    }
}

/// Apply one action; findings only matter for the last step of a history.
fn apply(store: &Shared<RefStore>, act: &Act) -> (Vec<(String, String)>, String) {
    let mut fs: Vec<(String, String)> = vec![];
    match act {
        Act::Register { rp, user } => {
            let org = REG_ORGS[*rp as usize % 2];
            let c = super::c02::Case { challenge: challenges()[4].clone(), user: *user, org, algs: 1, mode: Mode::Default, counter: false, memory_store: false, id_len: None, rk: true, decor: false, ext: (*rp + *user) % 4, order: 0 };
            let mut client = mk_client(store.clone(), ScriptedUv::consenting(Log::new()), org, &super::c02::ext_cfg(c.ext, false, None));
            let rc = super::c02::check_registration(&mut client, &|| store.recs(), &c);
            (rc.findings, format!("register:{}", rc.outcome))
        }
        Act::Authenticate { org, allow, uv, mode, challenge } => {
            let org = AUTH_ORGS[*org as usize % AUTH_ORGS.len()];
            let (rp_arg, rp_eff, origin_str) = org.spec();
            let before = store.0.lock().unwrap().recs_ordered();
            let own: Option<Rec> = before.iter().find(|r| r.rp == rp_eff).cloned();
            let other: Option<Rec> = before.iter().find(|r| r.rp != rp_eff).cloned();
            let unknown = vec![0xEE; 16];
            let list: Option<Vec<Vec<u8>>> = match allow {
                Allow::Absent => None,
                Allow::Empty => Some(vec![]),
                Allow::Own => Some(vec![own.as_ref().map(|r| r.id.clone()).unwrap_or(unknown.clone())]),
                Allow::OwnAndUnknown => Some(vec![unknown.clone(), own.as_ref().map(|r| r.id.clone()).unwrap_or(vec![0xEF; 16])]),
                Allow::Unknown => Some(vec![unknown.clone()]),
                Allow::OtherRp => Some(vec![other.as_ref().map(|r| r.id.clone()).unwrap_or(unknown.clone())]),
                Allow::UnknownTypeUnknownId => Some(vec![unknown.clone()]),
                Allow::TextOfOwn => Some(vec![crate::oracles::b64::url_nopad(&own.as_ref().map(|r| r.id.clone()).unwrap_or(unknown.clone())).into_bytes()]),
                Allow::HexOfOwn => Some(vec![hex(&own.as_ref().map(|r| r.id.clone()).unwrap_or(unknown.clone())).into_bytes()]),
            };
            let eligible: Vec<&Rec> = before.iter().filter(|r| r.rp == rp_eff && list.as_ref().map_or(true, |l| l.is_empty() || l.contains(&r.id))).collect();
            let ch = challenges()[*challenge as usize % challenges().len()].clone();
            // extension interplay, decided by challenge index, requirement and origin so that every allow
            // shape meets every value: 0 none; 1 hmac-secret authenticator, request asks credProps; 2
            // authenticator without the capability, empty prf object; 3 the same, prf evaluation
            // requested (no output, no failure).  A prf member on a capable authenticator is C09's
            // subject: it is an error for credentials without secrets, which these histories hold
            let ext = ((*challenge as usize + *uv as usize + org as usize) % 4) as u8;
            let mut opts = request_options(Auth { rp_id: rp_arg.map(|s| s.to_string()), challenge: ch.clone(), allow: list.clone(), uv: uvr(*uv), extensions: auth_ext_inputs(ext) });
            if *allow == Allow::UnknownTypeUnknownId {
                for d in opts.public_key.allow_credentials.iter_mut().flatten() {
                    d.ty = PublicKeyCredentialType::Unknown;
                }
            }
            // irrelevant members: transports hints on the descriptors (disjoint from / overlapping with
            // the authenticator's own), hints, attestation preference, timeout – decided by the
            // challenge index and mode so that both decorated and plain requests occur for every shape
            if (*challenge as usize + *uv as usize) % 2 == 1 || *mode == Mode::Extra {
                use webauthn::AuthenticatorTransport as T;
                if let Some(l) = opts.public_key.allow_credentials.as_mut() {
                    for (i, d) in l.iter_mut().enumerate() {
                        d.transports = Some(if (i + *uv as usize) % 2 == 0 { vec![T::Usb, T::Nfc] } else { vec![T::Internal] });
                    }
                }
                opts.public_key.hints = Some(vec![webauthn::PublicKeyCredentialHints::Hybrid]);
                opts.public_key.attestation = webauthn::AttestationConveyancePreference::Enterprise;
                opts.public_key.timeout = Some(1);
            }
            let log = Log::new();
            let uvm = if *uv == 3 { ScriptedUv::consenting(log.clone()).outcome(UvOutcome::Ok { presence: true, verification: false }) } else { ScriptedUv::consenting(log.clone()) };
            let mut client = mk_client(Logging { inner: store.clone(), log: log.clone() }, uvm, org, &super::c02::ext_cfg(if ext == 1 { 1 } else { 0 }, false, None));
            let res = authenticate(&mut client, org, *mode, opts);
            let after = store.0.lock().unwrap().recs_ordered();
            match res {
                Err(p) => {
                    fs.push((format!("panic/site={}", crate::core::par::panic_site(&p)), format!("Client::authenticate panicked: {p}")));
                    (fs, "auth:panic".into())
                }
                Ok(Err(e)) => {
                    if eligible.is_empty() {
                        if e != WebauthnError::CredentialNotFound {
                            fs.push(("no-eligible-credential-wrong-error".into(), format!("no eligible credential and the user consented, expected CredentialNotFound, got {e:?}")));
                        }
                        if after != before {
                            fs.push(("store-changed-without-assertion".into(), "store changed although no assertion was produced".into()));
                        }
                        (fs, "auth:not-found".into())
                    } else {
                        fs.push(("eligible-credential-but-failure".into(), format!("{} eligible credential(s), user consented, yet the ceremony failed with {e:?}", eligible.len())));
                        (fs, "auth:err".into())
                    }
                }
                Ok(Ok(cred)) => {
                    if eligible.is_empty() {
                        fs.push(("assertion-without-eligible-credential".into(), format!("an assertion was produced with {} although no credential is eligible for {rp_eff:?} under {allow:?}", rp::sha256(&cred.raw_id).len())));
                        return (fs, "auth:ok-ineligible".into());
                    }
                    let used = before.iter().find(|r| r.id == cred.raw_id.to_vec());
                    let Some(used) = used else {
                        fs.push(("unknown-credential-id-returned".into(), "returned raw id names no stored credential".into()));
                        return (fs, "auth:ok-unknown-id".into());
                    };
                    if !eligible.iter().any(|r| r.id == used.id) {
                        fs.push(("ineligible-credential-used".into(), format!("credential of RP {:?} used for {rp_eff:?} under {allow:?}", used.rp)));
                    }
                    let key = match used.d.as_ref().map(|d| rp::public_of(d)) {
                        Some(Ok(k)) => k,
                        _ => {
                            fs.push(("harness-no-key".into(), "cannot derive the registered public key".into()));
                            return (fs, "auth:ok".into());
                        }
                    };
                    let expect = ClientDataExpect { ty: "webauthn.get", challenge: &ch, origin: &origin_str, extra: if *mode == Mode::Extra { extra_expect() } else { vec![] } };
                    let resp = AssertResponse {
                        id: &cred.id,
                        raw_id: &cred.raw_id,
                        ty_is_public_key: cred.ty == PublicKeyCredentialType::PublicKey,
                        client_data_json: &cred.response.client_data_json,
                        authenticator_data: &cred.response.authenticator_data,
                        signature: &cred.response.signature,
                    };
                    let ch_hash = caller_hash();
                    let (problems, ad) = rp::verify_assertion(&resp, &expect, rp_eff, &key, (*mode == Mode::CallerHash).then_some(ch_hash.as_slice()));
                    for (k, d) in problems {
                        fs.push((k.to_string(), d));
                    }
                    if let Some(ad) = ad {
                        if cred.response.authenticator_data.len() != 37 || ad.extensions.is_some() {
                            fs.push(("auth-data-not-37-bytes".into(), format!("{} bytes without any extension requested", cred.response.authenticator_data.len())));
                        }
                        let want_uv = *uv < 2;
                        if *uv == 3 && ad.flags & rp::UV != 0 {
                            fs.push(("uv-flagged-without-verification".into(), "the user was not verified, UV bit set".into()));
                        }
                        if want_uv && ad.flags & rp::UV == 0 {
                            fs.push(("uv-not-flagged".into(), "userVerification required/preferred, user verified, UV bit clear".into()));
                        }
                        if ad.flags & rp::UP == 0 {
                            fs.push(("up-not-flagged".into(), "UP bit clear".into()));
                        }
                    }
                    let got_handle = cred.response.user_handle.as_ref().map(|h| h.to_vec());
                    if got_handle != used.handle {
                        fs.push(("user-handle-differs".into(), format!("returned user handle {:?}, stored {:?}", got_handle.map(|h| crate::drivers::hex(&h)), used.handle.as_ref().map(|h| crate::drivers::hex(h)))));
                    }
                    (fs, "auth:ok".into())
                }
            }
        }
    }
}

impl Sys for C03 {
    type Act = Act;
    type Snap = Snap;
    fn inits(&self) -> usize {
        3
    }
    fn init_snap(&self, i: usize) -> Snap {
        snap(&init_store(i))
    }
    fn actions(&self, _i: usize, s: &Snap, _d: usize) -> Vec<Act> {
        let mut v = vec![];
        if s.len() < 6 {
            for rp in 0..2 {
                for user in 0..2 {
                    v.push(Act::Register { rp, user });
                }
            }
        }
        for org in 0..AUTH_ORGS.len() as u8 {
            for allow in ALLOWS {
                for uv in 0..4 {
                    for mode in MODES {
                        v.push(Act::Authenticate { org, allow, uv, mode, challenge: 5 });
                    }
                }
            }
        }
        // challenge dimension on a 1-deviation basis
        for challenge in 0..challenges().len() as u8 {
            if challenge != 5 {
                v.push(Act::Authenticate { org: 0, allow: Allow::Absent, uv: 1, mode: Mode::Default, challenge });
                v.push(Act::Authenticate { org: 1, allow: Allow::Own, uv: 0, mode: Mode::CallerHash, challenge });
            }
        }
        v
    }
    fn step(&self, init: usize, hist: &[Act], act: &Act, st: &mut Stats) -> Option<Snap> {
        let store = init_store(init);
        for h in hist {
            apply(&store, h);
        }
        let (fs, outcome) = apply(&store, act);
        let mut full = hist.to_vec();
        full.push(act.clone());
        let case = json!({"init": init, "hist": full});
        st.case(&format!("{init}/{full:?}"), true, &outcome);
        if matches!(act, Act::Authenticate { .. }) && outcome == "auth:ok" {
            st.sample(|| case.clone());
        }
        for (k, d) in fs {
            st.finding(Finding::new(format!("kind={k}"), format!("{d}; last action {act:?} after {} earlier actions", hist.len()), case.clone()));
        }
        Some(snap(&store))
    }
    fn max_depth(&self) -> usize {
        self.depth
    }
}

pub fn run(ctx: &Ctx) -> Result<Run, String> {
    let depth = ctx.tier.pick(3, 5);
    let g = graph::bfs(&C03 { depth }, ctx.threads);
    let ok = g.stats.outcomes.get("auth:ok").copied().unwrap_or(0);
    let mut g = g;
    {
        use super::inst::{self, IOp};
        let alphabet = [IOp::Get { who: 0, prf: false, silent: false }, IOp::Get { who: 2, prf: false, silent: false }, IOp::Get { who: 3, prf: false, silent: false }, IOp::Get { who: 4, prf: false, silent: false }, IOp::Make { rk: true, prf: false }, IOp::Make { rk: false, prf: false }, IOp::Info, IOp::Cancelled(0), IOp::Cancelled(1), IOp::GetUnusableKey, IOp::GetUpdateFails, IOp::Panics { op: 1, what: 0 }, IOp::Panics { op: 1, what: 1 }, IOp::Synced(3)];
        let st = inst::sweep(&alphabet, 3, &[0, 1, 2], ctx.threads, "instance");
        g.transitions += st.evaluations;
        g.stats.count("instance_differential_histories", st.evaluations);
        g.stats.merge(st);
        use super::inst::COp;
        let calpha = [COp::Register { rk: true, cred_props: true, origin: 0 }, COp::Register { rk: false, cred_props: false, origin: 1 }, COp::Authenticate { who: 0, origin: 0, prf: false }, COp::Authenticate { who: 2, origin: 1, prf: false }, COp::Authenticate { who: 4, origin: 0, prf: true }, COp::Authenticate { who: 3, origin: 0, prf: false }, COp::BadRpId];
        let st = inst::client_sweep(&calpha, ctx.tier.pick(3, 4), &[0, 1], ctx.threads, "instance");
        g.transitions += st.evaluations;
        g.stats.count("client_instance_differential_histories", st.evaluations);
        g.stats.merge(st);
        let names: Vec<(String, bool)> = extra_names().into_iter().chain([CHANGING.to_string()]).flat_map(|n| [(n.clone(), false), (n, true)]).collect();
        let st = crate::core::par::sweep_cases(&names, ctx.threads, |(n, reg), st| {
            st.case(&(n, reg), true, "extra-name");
            for (k, d) in eval_extra_name(n, *reg) {
                st.finding(Finding::new(format!("extra-name/kind={k}"), d, json!({"extra_name": {"name": n, "register": reg}})));
            }
        });
        g.transitions += st.evaluations;
        g.stats.count("extra_client_data_names", st.evaluations);
        g.stats.merge(st);
        let st = inst::colliding_sweep("shared-state");
        g.transitions += st.evaluations;
        g.stats.merge(st);
        let mut st = crate::core::report::Stats::new();
        super::sigshape::ctap2_shapes(ctx.tier, &mut st);
        super::sigshape::relabelled_rp(&mut st);
        super::sigshape::odd_scalars(&mut st);
        st.case(&"after-conversion-panic", true, "after-user-code-panic");
        for (k, d) in super::vault::after_conversion_panic(1) {
            st.finding(Finding::new(format!("after-panic/kind={k}"), d, json!({"after_conversion_panic": 1})));
        }
        g.stats.merge(inst::repeat_sweep(&[IOp::Get { who: 0, prf: false, silent: false }, IOp::Get { who: 2, prf: false, silent: false }, IOp::Make { rk: true, prf: false }, IOp::Denied(0), IOp::Denied(1), IOp::Cancelled(1)], &[8, 9, 17, 33], &[0, 1], ctx.threads, "instance"));
        g.transitions += st.evaluations;
        g.stats.merge(st);
    }
    let mut run = Run::from_stats(
        "model_checking",
        "explicit-state BFS over histories: register(rp in 2, user in 2) and authenticate(origin/RP in 4 incl. a sub-domain origin of the same RP and an RP without credentials, allow list in {absent, empty, [own], [unknown, own], [unknown], [credential of another RP], [unknown id with an unknown credential type], [the base64url text of the own id as bytes], [its hex text]}, userVerification in {required, preferred, discouraged with and without the user verifying anyway}, client-data mode in 3) plus 10 challenges on two base assertions, from the empty and two seeded stores, on a real Client over the contract store; every assertion is verified by an independent relying party (ECDSA verify under the key derived from the stored scalar, client data, rpIdHash, flags, user handle). Plus the instance differential: the complete tree of histories to depth 3 (thorough 4) over {assertion with the seeded / no / an unknown / the first created credential, registration rk on/off, getInfo, a registration and an assertion dropped while the user step is pending, an assertion with a credential whose key cannot sign (refused late), an assertion whose counter write-back the store refuses, an assertion during which the user-validation method / the store's lookup panics (the unwind caught, the instance used on)} on ONE long-lived Authenticator against fresh Authenticators per operation, on the contract store, Arc<Mutex<MemoryStore>> and Arc<Mutex<Option<Passkey>>> (results and final store must agree), and the same for ONE long-lived Client against fresh Clients over {registration rk/credProps on two origins, authentication with the seeded / no / an unknown / the first created credential, with and without prf, a request refused for its RP id}. Extra client data under every identifier-like literal of the client and types sources and the member names of related specifications (payment, topOrigin, tokenBinding, ...), and a caller-supplied ClientData whose extra data differs at every call: type, challenge, origin and signature as always. State shared between instances: on one fresh thread, three authenticators whose stores hold the SAME credential id with three different keys (two RPs) assert in turn, twice, and one key handle is U2F-registered, used, re-registered and used again; every signature must verify under the key its own store holds. Stored private scalars in eight other encodings than the library's 32 bytes (leading / trailing zero bytes, 31, 64, 0 bytes): an assertion that is returned verifies under the credential's public key. A store whose items spell their rp_id differently from the RP ID they are found under (empty, upper case, trailing dot, a URL, another host): rpIdHash is that of the request's RP ID and the signature verifies. Repetition histories (one of six granted / denied / dropped ceremonies 8, 9, 17, 33 times in a row on one authenticator, then each as a probe). Signature shapes: for 3 fixed stored keys x counter {absent, 5} the smallest client-data hash whose RFC 6979 signature falls into each DER shape class (r padded / not / shorter than 32 bytes x s full / shorter) is searched with the harness's own signer and asserted - success, byte-equality with the predicted signature and verification demanded. States are deduplicated on (RP, user handle, counter) per record in creation order; every transition is a distinct non-trivial real ceremony",
        true,
        g.stats,
    );
    run.graph(g.states, g.transitions, g.transitions);
    run.set("depth_bound", json!(depth));
    run.set("verified_assertions", json!(ok));
    run.assume("credential ids and keys are random per run; they are compared only for equality, so the snapshot replaces them by their creation position; the contract store (RefStore) is used – the shipped stores' lookup is C05's subject");
    Ok(run)
}

// ------------------------------------------------------------------------------------------
// caller-supplied extra client data under every name the sources know (and the names of other
// WebAuthn-family client data): whatever the extra member is called, the assertion's client data
// stays a webauthn.get with the request's challenge and the caller's origin, and the signature
// verifies

pub fn extra_names() -> Vec<String> {
    let mut v: Vec<String> = crate::core::dict::source_literals(&["passkey-client", "passkey-types"], 32)
        .into_iter()
        .filter_map(|l| String::from_utf8(l).ok())
        .filter(|t| t.len() >= 2 && t.chars().next().is_some_and(|c| c.is_ascii_alphabetic()) && t.chars().all(|c| c.is_ascii_alphanumeric() || "_-.".contains(c)))
        .collect();
    v.extend(["payment", "payment.get", "payment.create", "topOrigin", "tokenBinding", "androidPackageName", "appid", "extensions", "hashAlgorithm", "clientExtensions", "authenticatorExtensions"].map(String::from));
    v.sort();
    v.dedup();
    // members the client itself writes cannot be supplied as extras without colliding (C14's subject)
    v.retain(|n| !["type", "challenge", "origin", "crossOrigin"].contains(&n.as_str()));
    v
}

/// A caller-supplied `ClientData` whose extra data differs at every call (a serial number, a
/// timestamp) and which counts how often it is asked: what is signed must be what is returned.
struct ChangingExtra(std::sync::atomic::AtomicU32);
impl passkey_client::ClientData<Value> for ChangingExtra {
    fn extra_client_data(&self) -> Value {
        json!({"serial": self.0.fetch_add(1, std::sync::atomic::Ordering::SeqCst)})
    }
    fn client_data_hash(&self) -> Option<Vec<u8>> {
        None
    }
}
const CHANGING: &str = "<value changes at every call>";

pub fn eval_extra_name(name: &str, register: bool) -> Vec<(String, String)> {
    use passkey_client::DefaultClientDataWithExtra;
    let mut fs: Vec<(String, String)> = vec![];
    let store = init_store(1);
    let mut client = mk_client(store.clone(), ScriptedUv::consenting(Log::new()), Org::HostIsRp, &AuthCfg::default());
    let origin = Org::HostIsRp.url().unwrap();
    let ch = challenges()[4].clone();
    let mut m = serde_json::Map::new();
    m.insert(name.to_string(), json!({"rpId": "example.com", "total": {"value": "1.00", "currency": "EUR"}, "instrument": {"displayName": "x"}}));
    let extra = Value::Object(m.clone());
    let expect_extra: Vec<(String, Value)> = m.into_iter().collect();
    let changing = name == CHANGING;
    let r = crate::core::par::catch(|| {
        if register {
            let opts = creation_options(Reg { challenge: ch.clone(), ..Default::default() });
            let r = if changing { crate::core::exec::block_on(client.register(&origin, opts, ChangingExtra(Default::default()))) } else { crate::core::exec::block_on(client.register(&origin, opts, DefaultClientDataWithExtra(extra.clone()))) };
            r.map(|c| (c.response.client_data_json.clone(), None)).map_err(|e| format!("{e:?}"))
        } else {
            let opts = request_options(Auth { challenge: ch.clone(), allow: Some(vec![cred_id(1)]), ..Default::default() });
            let r = if changing { crate::core::exec::block_on(client.authenticate(&origin, opts, ChangingExtra(Default::default()))) } else { crate::core::exec::block_on(client.authenticate(&origin, opts, DefaultClientDataWithExtra(extra.clone()))) };
            r.map(|c| (c.response.client_data_json.clone(), Some((c.response.authenticator_data.to_vec(), c.response.signature.to_vec())))).map_err(|e| format!("{e:?}"))
        }
    });
    // with changing extra data any serial is fine: the member is not compared, the signature is
    let expect_extra = if changing { vec![] } else { expect_extra };
    let what = if register { "webauthn.create" } else { "webauthn.get" };
    match r {
        Err(p) => fs.push(("panic".into(), p)),
        Ok(Err(e)) => fs.push(("extra-data-name-breaks-ceremony".into(), format!("extra client data named {name:?}: the ceremony failed with {e}"))),
        Ok(Ok((cdj, sig))) => {
            let expect = ClientDataExpect { ty: what, challenge: &ch, origin: "https://example.com", extra: expect_extra };
            for (k, d) in rp::check_client_data(&cdj, &expect) {
                fs.push((format!("client-data/{k}"), format!("extra client data named {name:?}: {d}")));
            }
            if let Some((ad, sig)) = sig {
                let (x, y) = public_xy_from_scalar(&fixed_scalar(1));
                let mut msg = ad.clone();
                msg.extend_from_slice(&rp::sha256(&cdj));
                if let Err(e) = rp::verifying_key(&x, &y).and_then(|k| rp::ecdsa_verify(&k, &msg, &sig)) {
                    fs.push(("signature-does-not-verify".into(), format!("extra client data named {name:?}: {e}")));
                }
            }
        }
    }
    fs
}

pub fn replay(_ctx: &Ctx, case: &Value) -> Result<Vec<Finding>, String> {
    if let Some(api) = case.get("after_conversion_panic").and_then(|a| a.as_u64()) {
        return Ok(super::vault::after_conversion_panic(api as u8).into_iter().map(|(k, d)| Finding::new(format!("after-panic/kind={k}"), d, case.clone())).collect());
    }
    if let Some(fs) = super::sigshape::replay(case) {
        return Ok(fs);
    }
    if let Some(e) = case.get("extra_name") {
        return Ok(eval_extra_name(e["name"].as_str().unwrap_or(""), e["register"].as_bool().unwrap_or(false)).into_iter().map(|(k, d)| Finding::new(format!("extra-name/kind={k}"), d, case.clone())).collect());
    }
    if let Some(fs) = super::inst::replay(case, "instance") {
        return Ok(fs);
    }
    if let Some(fs) = super::inst::client_replay(case, "instance") {
        return Ok(fs);
    }
    if let Some(fs) = super::inst::colliding_replay(case, "shared-state") {
        return Ok(fs);
    }
    let init = case["init"].as_u64().unwrap_or(0) as usize;
    let hist: Vec<Act> = serde_json::from_value(case["hist"].clone()).map_err(|e| format!("bad C03 case: {e}"))?;
    let store = init_store(init);
    let mut out = vec![];
    for (i, h) in hist.iter().enumerate() {
        let (fs, _) = apply(&store, h);
        if i + 1 == hist.len() {
            out = fs.into_iter().map(|(k, d)| Finding::new(format!("kind={k}"), d, case.clone())).collect();
        }
    }
    Ok(out)
}
