//! C15, part 4 – scaling families: well-formed inputs whose collections grow (n elements, keys
//! following a pattern), decoded at n, 4n, 16n…; the oracle is proportionality: four times the
//! elements may not cost (much) more than four times the CPU time, and no single allocation may be
//! out of proportion to the input.  Every family x key pattern is one isolated case.
use super::c15::{decoders, Dec};
use crate::core::alloc;
use crate::core::iso::IsoSpace;
use crate::core::par;
use crate::core::report::*;
use crate::drivers::{es256_param, hex};
use ciborium::value::Value as Cbor;
use passkey_types::ctap2::extensions::{AuthenticatorPrfInputs, AuthenticatorPrfValues};
use passkey_types::ctap2::{get_assertion, make_credential};
use passkey_types::webauthn;
use serde_json::{json, Value};

const MARK: [u8; 32] = [0xEE; 32];

/// key / id number `i` under pattern `pat`: the counter sits at the front, at the end or in the
/// middle of an otherwise constant 32-byte string (3 = 20-byte ids, counter at the end)
fn key(i: usize, pat: u8) -> Vec<u8> {
    let mut k = vec![0xAA; if pat == 3 { 20 } else { 32 }];
    let at = match pat {
        0 => 0,
        1 => 28,
        2 => 14,
        _ => 16,
    };
    k[at..at + 4].copy_from_slice(&(i as u32).to_be_bytes());
    k
}
pub const PATTERNS: [&str; 4] = ["counter-first", "counter-last", "counter-middle", "20-byte-counter-last"];

fn contains_mark(v: &Cbor) -> bool {
    match v {
        Cbor::Bytes(b) => b[..] == MARK[..],
        Cbor::Array(a) => a.iter().any(contains_mark),
        Cbor::Map(m) => m.iter().any(|(k, v)| contains_mark(k) || contains_mark(v)),
        _ => false,
    }
}
fn subst(v: &Cbor, with: &[u8]) -> Cbor {
    match v {
        Cbor::Bytes(b) if b[..] == MARK[..] => Cbor::Bytes(with.to_vec()),
        Cbor::Array(a) => Cbor::Array(a.iter().map(|x| subst(x, with)).collect()),
        Cbor::Map(m) => Cbor::Map(m.iter().map(|(k, x)| (subst(k, with), subst(x, with))).collect()),
        other => other.clone(),
    }
}
/// Replicates the innermost container element that carries the marker n times.
fn grow(v: &Cbor, n: usize, pat: u8) -> Cbor {
    match v {
        Cbor::Map(m) => {
            if m.iter().any(|(k, _)| matches!(k, Cbor::Bytes(b) if b[..] == MARK[..])) {
                let proto = m.iter().find(|(k, _)| contains_mark(k)).unwrap().1.clone();
                let mut out: Vec<(Cbor, Cbor)> = m.iter().filter(|(k, _)| !contains_mark(k)).cloned().collect();
                out.extend((0..n).map(|i| (Cbor::Bytes(key(i, pat)), proto.clone())));
                Cbor::Map(out)
            } else {
                Cbor::Map(m.iter().map(|(k, x)| (k.clone(), grow(x, n, pat))).collect())
            }
        }
        Cbor::Array(a) => {
            let direct = a.iter().any(|x| match x {
                Cbor::Bytes(b) => b[..] == MARK[..],
                Cbor::Map(m) => m.iter().any(|(_, v)| matches!(v, Cbor::Bytes(b) if b[..] == MARK[..])),
                _ => false,
            });
            if direct {
                let proto = a.iter().find(|x| contains_mark(x)).unwrap().clone();
                Cbor::Array((0..n).map(|i| subst(&proto, &key(i, pat))).collect())
            } else {
                Cbor::Array(a.iter().map(|x| grow(x, n, pat)).collect())
            }
        }
        other => other.clone(),
    }
}
fn to_value<T: serde::Serialize>(t: &T) -> Cbor {
    let mut b = vec![];
    ciborium::ser::into_writer(t, &mut b).expect("harness: seed serialises");
    ciborium::de::from_reader(b.as_slice()).expect("harness: seed parses as generic CBOR")
}
fn bytes_of(v: &Cbor) -> Vec<u8> {
    let mut b = vec![];
    ciborium::ser::into_writer(v, &mut b).expect("harness: grown value serialises");
    b
}

fn prf_by_cred() -> AuthenticatorPrfInputs {
    AuthenticatorPrfInputs { eval: None, eval_by_credential: Some([(MARK.to_vec().into(), AuthenticatorPrfValues { first: [3; 32], second: None })].into_iter().collect()) }
}
fn desc_mark() -> webauthn::PublicKeyCredentialDescriptor {
    webauthn::PublicKeyCredentialDescriptor { ty: webauthn::PublicKeyCredentialType::PublicKey, id: MARK.to_vec().into(), transports: Some(vec![webauthn::AuthenticatorTransport::Usb]) }
}
fn ga(allow: bool, prf: bool) -> Cbor {
    to_value(&get_assertion::Request {
        rp_id: "example.com".into(),
        client_data_hash: vec![2; 32].into(),
        allow_list: allow.then(|| vec![desc_mark()]),
        extensions: prf.then(|| get_assertion::ExtensionInputs { hmac_secret: None, prf: Some(prf_by_cred()) }),
        options: get_assertion::Options { rk: false, up: true, uv: false },
        pin_auth: None,
        pin_protocol: None,
    })
}
fn mc(exclude: bool, prf: bool) -> Cbor {
    to_value(&make_credential::Request {
        client_data_hash: vec![1; 32].into(),
        rp: make_credential::PublicKeyCredentialRpEntity { id: "example.com".into(), name: None },
        user: webauthn::PublicKeyCredentialUserEntity { id: vec![7].into(), name: "n".into(), display_name: "d".into() },
        pub_key_cred_params: vec![es256_param()],
        exclude_list: exclude.then(|| vec![desc_mark()]),
        extensions: prf.then(|| make_credential::ExtensionInputs { hmac_secret: None, hmac_secret_mc: None, prf: Some(prf_by_cred()) }),
        options: make_credential::Options { rk: false, up: true, uv: false },
        pin_auth: None,
        pin_protocol: None,
    })
}
fn b64u(b: &[u8]) -> String {
    crate::oracles::b64::url_nopad(b)
}

pub struct Family {
    pub name: &'static str,
    pub decoder: &'static str,
    pub build: fn(usize, u8) -> Vec<u8>,
    /// patterns that make a difference for this family (others are skipped)
    pub patterns: &'static [u8],
}

pub fn families() -> Vec<Family> {
    vec![
        Family { name: "getAssertion.request/prf.evalByCredential", decoder: "ctap2::get_assertion::Request", build: |n, p| bytes_of(&grow(&ga(false, true), n, p)), patterns: &[0, 1, 2, 3] },
        Family { name: "makeCredential.request/prf.evalByCredential", decoder: "ctap2::make_credential::Request", build: |n, p| bytes_of(&grow(&mc(false, true), n, p)), patterns: &[0, 1, 2, 3] },
        Family { name: "AuthenticatorPrfInputs/evalByCredential", decoder: "ctap2::AuthenticatorPrfInputs", build: |n, p| bytes_of(&grow(&to_value(&prf_by_cred()), n, p)), patterns: &[0, 1, 2, 3] },
        Family { name: "getAssertion.request/allowList", decoder: "ctap2::get_assertion::Request", build: |n, p| bytes_of(&grow(&ga(true, false), n, p)), patterns: &[0, 1] },
        Family { name: "makeCredential.request/excludeList", decoder: "ctap2::make_credential::Request", build: |n, p| bytes_of(&grow(&mc(true, false), n, p)), patterns: &[0, 1] },
        Family {
            name: "makeCredential.request/pubKeyCredParams",
            decoder: "ctap2::make_credential::Request",
            build: |n, p| {
                let Cbor::Map(mut m) = mc(false, false) else { unreachable!() };
                for (k, v) in m.iter_mut() {
                    if *k == Cbor::Integer(4.into()) {
                        *v = Cbor::Array((0..n).map(|i| Cbor::Map(vec![(Cbor::Text("alg".into()), Cbor::Integer((if p == 0 { -7 } else { -(i as i64) - 7 }).into())), (Cbor::Text("type".into()), Cbor::Text("public-key".into()))])).collect());
                    }
                }
                bytes_of(&Cbor::Map(m))
            },
            patterns: &[0, 1],
        },
        Family {
            name: "getAssertion.request/unknown-top-level-keys",
            decoder: "ctap2::get_assertion::Request",
            build: |n, p| {
                let Cbor::Map(mut m) = ga(false, false) else { unreachable!() };
                for i in 0..n {
                    let k = if p == 0 { Cbor::Integer((1000 + i as i64).into()) } else { Cbor::Text(format!("k{i}")) };
                    m.push((k, Cbor::Integer(0.into())));
                }
                bytes_of(&Cbor::Map(m))
            },
            patterns: &[0, 1],
        },
        Family {
            name: "getInfo.response/transports+extensions",
            decoder: "ctap2::get_info::Response",
            build: |n, p| {
                let list = |known: &str| Cbor::Array((0..n).map(|i| Cbor::Text(if p == 0 { known.to_string() } else { format!("x{i}") })).collect());
                bytes_of(&Cbor::Map(vec![
                    (Cbor::Integer(1.into()), Cbor::Array(vec![Cbor::Text("FIDO_2_0".into())])),
                    (Cbor::Integer(2.into()), list("hmac-secret")),
                    (Cbor::Integer(3.into()), Cbor::Bytes(vec![7; 16])),
                    (Cbor::Integer(9.into()), list("usb")),
                ]))
            },
            patterns: &[0, 1],
        },
        Family {
            name: "cose-key/extra-parameters",
            decoder: "public_key_der_from_cose_key",
            build: |n, p| {
                let mut m = vec![(Cbor::Integer(1.into()), Cbor::Integer(2.into())), (Cbor::Integer(3.into()), Cbor::Integer((-7).into())), (Cbor::Integer((-1).into()), Cbor::Integer(1.into())), (Cbor::Integer((-2).into()), Cbor::Bytes(vec![1; 32])), (Cbor::Integer((-3).into()), Cbor::Bytes(vec![2; 32]))];
                for i in 0..n {
                    m.push((if p == 0 { Cbor::Integer((-100 - i as i64).into()) } else { Cbor::Text(format!("p{i}")) }, Cbor::Bytes(key(i, 1))));
                }
                bytes_of(&Cbor::Map(m))
            },
            patterns: &[0, 1],
        },
        Family {
            name: "CredentialRequestOptions/allowCredentials",
            decoder: "webauthn::CredentialRequestOptions",
            build: |n, p| {
                let list: Vec<Value> = (0..n).map(|i| json!({"type": "public-key", "id": b64u(&key(i, p)), "transports": ["usb", "weird"]})).collect();
                json!({"publicKey": {"challenge": "AAAA", "rpId": "example.com", "allowCredentials": list}}).to_string().into_bytes()
            },
            patterns: &[0, 1],
        },
        Family {
            name: "CredentialRequestOptions/prf.evalByCredential",
            decoder: "webauthn::CredentialRequestOptions",
            build: |n, p| {
                let mut by = serde_json::Map::new();
                for i in 0..n {
                    by.insert(b64u(&key(i, p)), json!({"first": "AQID"}));
                }
                let list: Vec<Value> = (0..n.min(4)).map(|i| json!({"type": "public-key", "id": b64u(&key(i, p))})).collect();
                json!({"publicKey": {"challenge": "AAAA", "rpId": "example.com", "allowCredentials": list, "extensions": {"prf": {"evalByCredential": by}}}}).to_string().into_bytes()
            },
            patterns: &[0, 1, 2, 3],
        },
        Family {
            name: "CredentialCreationOptions/excludeCredentials+pubKeyCredParams+hints",
            decoder: "webauthn::CredentialCreationOptions",
            build: |n, p| {
                let list: Vec<Value> = (0..n).map(|i| json!({"type": if p == 0 { "public-key" } else { "other" }, "id": b64u(&key(i, 1))})).collect();
                let params: Vec<Value> = (0..n).map(|i| json!({"type": "public-key", "alg": if p == 0 { -7 } else { -(i as i64) - 7 }})).collect();
                let hints: Vec<Value> = (0..n).map(|i| if p == 0 { json!("security-key") } else { json!(format!("h{i}")) }).collect();
                json!({"publicKey": {"rp": {"name": "x", "id": "example.com"}, "user": {"id": "AQ", "name": "n", "displayName": "d"}, "challenge": "AAAA", "pubKeyCredParams": params, "excludeCredentials": list, "hints": hints}}).to_string().into_bytes()
            },
            patterns: &[0, 1],
        },
        Family {
            name: "CollectedClientData/unknown-members",
            decoder: "webauthn::CollectedClientData",
            build: |n, p| {
                let mut m = serde_json::Map::new();
                m.insert("type".into(), json!("webauthn.get"));
                m.insert("challenge".into(), json!("AAAA"));
                m.insert("origin".into(), json!("https://example.com"));
                for i in 0..n {
                    m.insert(if p == 0 { format!("k{i}") } else { format!("{}k", i) }, json!(i));
                }
                Value::Object(m).to_string().into_bytes()
            },
            patterns: &[0, 1],
        },
        Family {
            name: "Bytes/base64url-text",
            decoder: "Bytes::try_from(&str)",
            build: |n, p| b64u(&(0..n * 24).map(|i| if p == 0 { 0xfb } else { i as u8 }).collect::<Vec<u8>>()).into_bytes(),
            patterns: &[0, 1],
        },
    ]
}

fn thread_cpu_us() -> u128 {
    let mut ts = libc::timespec { tv_sec: 0, tv_nsec: 0 };
    unsafe {
        libc::clock_gettime(libc::CLOCK_THREAD_CPUTIME_ID, &mut ts);
    }
    (ts.tv_sec as u128) * 1_000_000 + (ts.tv_nsec as u128) / 1000
}

pub struct ScaleSpace {
    decs: Vec<Dec>,
    fams: Vec<Family>,
    /// (family index, pattern)
    cases: Vec<(usize, u8)>,
    sizes: Vec<usize>,
}
impl ScaleSpace {
    pub fn new(tier: Tier) -> Self {
        let fams = families();
        let mut cases = vec![];
        for (fi, f) in fams.iter().enumerate() {
            for p in f.patterns {
                cases.push((fi, *p));
            }
        }
        ScaleSpace { decs: decoders(), fams, cases, sizes: tier.pick(vec![256, 1024, 4096, 16384], vec![256, 1024, 4096, 16384, 65536]) }
    }
    pub fn find(&self, family: &str, pattern: u8) -> Option<usize> {
        self.cases.iter().position(|(fi, p)| self.fams[*fi].name == family && *p == pattern)
    }
    /// minimum CPU time of `reps` runs, µs; Err = panic message
    fn measure(&self, d: &Dec, input: &[u8], reps: usize) -> Result<u128, String> {
        let mut best = u128::MAX;
        for _ in 0..reps {
            let t0 = thread_cpu_us();
            par::catch(|| (d.run)(input))?;
            best = best.min(thread_cpu_us().saturating_sub(t0));
            if best > 50_000 {
                break; // long runs are not noise; repeating them only costs time
            }
        }
        Ok(best)
    }
}

/// four times the elements may cost at most this many times the CPU time …
const GROWTH_LIMIT: u128 = 9;
/// … once the larger run takes at least this long (µs); below it constant costs dominate
const GROWTH_FLOOR_US: u128 = 10_000;

impl IsoSpace for ScaleSpace {
    fn len(&self) -> usize {
        self.cases.len()
    }
    fn eval(&self, idx: usize, st: &mut Stats) {
        let (fi, pat) = self.cases[idx];
        let f = &self.fams[fi];
        let d = self.decs.iter().find(|d| d.name == f.decoder).expect("harness: family names a decoder");
        let case = |n: usize| json!({"scale": {"family": f.name, "pattern": pat, "pattern_name": PATTERNS[pat as usize % 4], "n": n}});
        let mut times: Vec<(usize, usize, u128)> = vec![];
        for &n in &self.sizes {
            let input = (f.build)(n, pat);
            alloc::reset();
            let t = match self.measure(d, &input, 3) {
                Ok(t) => t,
                Err(p) => {
                    st.case(&(fi, pat, n), true, "panic");
                    st.finding(Finding::new(format!("decoder={}/family={}/kind=panic", d.name, f.name), format!("{} panicked on the {}-element member of the family (pattern {}): {p}", d.name, n, PATTERNS[pat as usize % 4]), case(n)));
                    return;
                }
            };
            let (largest, _) = alloc::read();
            st.case(&(fi, pat, n), true, "returned");
            st.max("max_scale_input_bytes", input.len() as u64);
            if largest > (4 << 20) + 32 * input.len() {
                st.finding(Finding::new(format!("decoder={}/family={}/kind=alloc-out-of-proportion", d.name, f.name), format!("{}-byte input ({} elements) made {} request {} bytes in one allocation", input.len(), n, d.name, largest), case(n)));
            }
            times.push((n, input.len(), t));
        }
        for w in times.windows(2) {
            let ((n0, _, t0), (n1, len1, t1)) = (w[0], w[1]);
            if t1 >= GROWTH_FLOOR_US && t1 > GROWTH_LIMIT * t0.max(1) * (n1 as u128) / (4 * n0 as u128) {
                // confirm with a fresh pair of measurements
                let (a, b) = ((f.build)(n0, pat), (f.build)(n1, pat));
                let (Ok(c0), Ok(c1)) = (self.measure(d, &a, 3), self.measure(d, &b, 2)) else { continue };
                if c1 >= GROWTH_FLOOR_US && c1 > GROWTH_LIMIT * c0.max(1) * (n1 as u128) / (4 * n0 as u128) {
                    st.finding(Finding::new(
                        format!("decoder={}/family={}/kind=time-grows-faster-than-input", d.name, f.name),
                        format!("{} elements take {} µs of CPU time, {} elements ({} bytes) take {} µs (measured twice: {} → {} µs): growth by more than {}x for 4x the input", n0, t0, n1, len1, t1, c0, c1, GROWTH_LIMIT),
                        case(n1),
                    ));
                    break;
                }
            }
        }
        if let Some((n, len, t)) = times.last() {
            st.max("max_scale_case_cpu_us", *t as u64);
            if idx % 7 == 0 {
                st.sample(|| json!({"family": f.name, "pattern": PATTERNS[pat as usize % 4], "elements": n, "input_bytes": len, "cpu_us": *t as u64, "head_hex": hex(&(f.build)(2, pat)[..48.min((f.build)(2, pat).len())])}));
            }
        }
    }
    fn describe(&self, idx: usize) -> Value {
        let (fi, pat) = self.cases[idx];
        json!({"scale": {"family": self.fams[fi].name, "pattern": pat, "pattern_name": PATTERNS[pat as usize % 4]}})
    }
    fn death_key(&self, idx: usize) -> String {
        let (fi, _) = self.cases[idx];
        format!("decoder={}/family={}", self.fams[fi].decoder, self.fams[fi].name)
    }
    fn limit_ms(&self) -> u64 {
        60_000
    }
}

pub struct OneScale {
    pub inner: ScaleSpace,
    pub idx: usize,
}
impl IsoSpace for OneScale {
    fn len(&self) -> usize {
        1
    }
    fn eval(&self, _: usize, st: &mut Stats) {
        self.inner.eval(self.idx, st)
    }
    fn describe(&self, _: usize) -> Value {
        self.inner.describe(self.idx)
    }
    fn death_key(&self, _: usize) -> String {
        self.inner.death_key(self.idx)
    }
    fn limit_ms(&self) -> u64 {
        60_000
    }
}
