//! A contract-abiding store and user-validation method whose item type is NOT `Passkey`
//! (`TryInto<Passkey>` can fail: a locked vault entry).  The library documents that it takes the
//! FIRST item the store lists; an item that does not convert is an error, never a reason to use
//! another credential than the one shown to the user.
use crate::core::exec::block_on;
use crate::core::par;
use crate::drivers::*;
use passkey_authenticator::{Authenticator, CredentialStore, DiscoverabilitySupport, StoreInfo, UserCheck, UserValidationMethod};
use passkey_types::ctap2::{get_assertion::Options, make_credential::PublicKeyCredentialRpEntity, make_credential::PublicKeyCredentialUserEntity, Aaguid, Ctap2Error, StatusCode};
use passkey_types::webauthn::PublicKeyCredentialDescriptor;
use passkey_types::Passkey;
use std::sync::{Arc, Mutex};

#[derive(Clone, Debug)]
pub struct VaultItem {
    pub passkey: Passkey,
    pub locked: bool,
}
thread_local! {
    /// the next item conversion on this thread panics (user-supplied code may panic)
    static PANIC_NEXT_CONVERSION: std::cell::Cell<bool> = const { std::cell::Cell::new(false) };
}
impl TryFrom<VaultItem> for Passkey {
    type Error = &'static str;
    fn try_from(v: VaultItem) -> Result<Passkey, Self::Error> {
        if PANIC_NEXT_CONVERSION.with(|p| p.replace(false)) {
            panic!("injected: the item conversion panicked");
        }
        if v.locked {
            Err("locked")
        } else {
            Ok(v.passkey)
        }
    }
}

#[derive(Clone, Default)]
pub struct Vault {
    pub items: Arc<Mutex<Vec<VaultItem>>>,
    pub updates: Arc<Mutex<Vec<Vec<u8>>>>,
}
#[async_trait::async_trait]
impl CredentialStore for Vault {
    type PasskeyItem = VaultItem;
    async fn find_credentials(&self, ids: Option<&[PublicKeyCredentialDescriptor]>, rp_id: &str) -> Result<Vec<VaultItem>, StatusCode> {
        let v: Vec<VaultItem> = self.items.lock().unwrap().iter().filter(|i| i.passkey.rp_id == rp_id && ids.map_or(true, |l| l.iter().any(|d| *d.id == *i.passkey.credential_id))).cloned().collect();
        if v.is_empty() {
            Err(Ctap2Error::NoCredentials.into())
        } else {
            Ok(v)
        }
    }
    async fn save_credential(&mut self, cred: Passkey, _: PublicKeyCredentialUserEntity, _: PublicKeyCredentialRpEntity, _: Options) -> Result<(), StatusCode> {
        self.items.lock().unwrap().push(VaultItem { passkey: cred, locked: false });
        Ok(())
    }
    async fn update_credential(&mut self, cred: Passkey) -> Result<(), StatusCode> {
        self.updates.lock().unwrap().push(cred.credential_id.to_vec());
        for i in self.items.lock().unwrap().iter_mut() {
            if i.passkey.credential_id == cred.credential_id {
                i.passkey = cred.clone();
            }
        }
        Ok(())
    }
    async fn get_info(&self) -> StoreInfo {
        StoreInfo { discoverability: DiscoverabilitySupport::Full }
    }
}

#[derive(Clone, Default)]
pub struct VaultUv {
    pub shown: Arc<Mutex<Vec<Option<Vec<u8>>>>>,
}
#[async_trait::async_trait]
impl UserValidationMethod for VaultUv {
    type PasskeyItem = VaultItem;
    async fn check_user<'a>(&self, credential: Option<&'a VaultItem>, _presence: bool, _verification: bool) -> Result<UserCheck, Ctap2Error> {
        self.shown.lock().unwrap().push(credential.map(|c| c.passkey.credential_id.to_vec()));
        Ok(UserCheck { presence: true, verification: true })
    }
    fn is_presence_enabled(&self) -> bool {
        true
    }
    fn is_verification_enabled(&self) -> Option<bool> {
        Some(true)
    }
}

const RP: &str = "example.com";

/// One assertion on a vault listing credentials `order` (seed numbers) of which `locked` (bit i =
/// i-th listed) do not convert; `list`: allow list naming all of them, or absent.
pub fn eval(order: &[u8], locked: u8, list: bool) -> Vec<(String, String)> {
    let mut fs = vec![];
    let items: Vec<VaultItem> = order.iter().enumerate().map(|(i, n)| VaultItem { passkey: seeded(&Seed { n: *n, rp: RP.into(), handle: Some(vec![*n]), counter: Some(10 * *n as u32), hmac: None }), locked: locked & (1 << i) != 0 }).collect();
    let vault = Vault { items: Arc::new(Mutex::new(items.clone())), updates: Default::default() };
    let uv = VaultUv::default();
    let mut auth = Authenticator::new(Aaguid::new_empty(), vault.clone(), uv.clone());
    let allow = list.then(|| order.iter().rev().map(|n| cred_id(*n)).collect::<Vec<_>>());
    let r = par::catch(|| block_on(auth.get_assertion(ga_request(RP, allow, false, true, true, false, None))));
    let first = &items[0];
    let shown = uv.shown.lock().unwrap().clone();
    let updates = vault.updates.lock().unwrap().clone();
    let what = format!("store lists {:?} (locked bits {locked:#b}), allow list {}", order, if list { "names all" } else { "absent" });
    match r {
        Err(p) => fs.push(("panic".into(), format!("{what}: {p}"))),
        Ok(Ok(resp)) => {
            let used = resp.credential.as_ref().map(|d| d.id.to_vec()).unwrap_or_default();
            if first.locked {
                fs.push(("first-listed-does-not-convert-yet-assertion".into(), format!("{what}: the first listed item cannot be used, yet an assertion was produced with {}", hex(&used[..4]))));
            } else if used != first.passkey.credential_id.to_vec() {
                fs.push(("not-first-listed".into(), format!("{what}: signed with {} instead of the first listed credential", hex(&used[..4]))));
            }
            if shown.last().cloned().flatten() != Some(used.clone()) {
                fs.push(("shown-credential-differs".into(), format!("{what}: the user was shown {:?}, the assertion is by {}", shown.last().cloned().flatten().map(|s| hex(&s[..4])), hex(&used[..4]))));
            }
            if updates.iter().any(|u| *u != used) {
                fs.push(("other-credential-updated".into(), format!("{what}: credentials other than the one used were written back")));
            }
        }
        Ok(Err(_)) => {
            if !first.locked {
                fs.push(("first-listed-usable-yet-failure".into(), format!("{what}: the first listed credential is usable, yet the assertion failed")));
            }
            if !updates.is_empty() {
                fs.push(("failed-assertion-wrote-store".into(), format!("{what}: {} write-backs by a failed assertion", updates.len())));
            }
        }
    }
    fs
}

pub fn cases() -> Vec<(Vec<u8>, u8, bool)> {
    let mut v = vec![];
    for order in [vec![1u8], vec![1, 2], vec![2, 1], vec![1, 2, 3], vec![3, 1, 2], vec![2, 3, 1]] {
        for locked in 0..(1u8 << order.len()) {
            for list in [false, true] {
                v.push((order.clone(), locked, list));
            }
        }
    }
    v
}


/// After the user-supplied item conversion panicked once during a ceremony (the embedder caught
/// the unwind), the same authenticator performs the next ceremony like a fresh one would.
/// api 0: U2F register, authenticate (conversion panics), authenticate; api 1: CTAP2 assertion
/// (conversion panics), assertion.
pub fn after_conversion_panic(api: u8) -> Vec<(String, String)> {
    use passkey_authenticator::U2fApi;
    use passkey_types::u2f::{AuthenticationParameter, AuthenticationRequest, RegisterRequest};
    let mut out = vec![];
    let vault = Vault::default();
    let r = par::catch(|| {
        if api == 0 {
            let mut a = Authenticator::new(Aaguid::new_empty(), vault.clone(), VaultUv::default());
            let handle = vec![0x51u8; 24];
            let (ch, app) = ([7u8; 32], [9u8; 32]);
            block_on(U2fApi::register(&mut a, RegisterRequest { challenge: ch, application: app }, &handle)).map_err(|e| format!("registration failed: {e:?}"))?;
            let req = || AuthenticationRequest { parameter: AuthenticationParameter::EnforceUserPresence, challenge: ch, application: app, key_handle: handle.clone() };
            PANIC_NEXT_CONVERSION.with(|p| p.set(true));
            let first = std::panic::catch_unwind(std::panic::AssertUnwindSafe(|| block_on(U2fApi::authenticate(&a, req(), 1, passkey_types::ctap2::Flags::UP)).is_ok()));
            PANIC_NEXT_CONVERSION.with(|p| p.set(false));
            let second = block_on(U2fApi::authenticate(&a, req(), 2, passkey_types::ctap2::Flags::UP));
            Ok::<_, String>((first.is_err(), second.map(|_| ()).map_err(|e| format!("{e:?}"))))
        } else {
            vault.items.lock().unwrap().push(VaultItem { passkey: seeded(&Seed { n: 1, rp: "example.com".into(), handle: Some(vec![1]), counter: Some(4), hmac: None }), locked: false });
            let mut a = Authenticator::new(Aaguid::new_empty(), vault.clone(), VaultUv::default());
            let req = || ga_request("example.com", Some(vec![cred_id(1)]), false, true, true, false, None);
            PANIC_NEXT_CONVERSION.with(|p| p.set(true));
            let first = std::panic::catch_unwind(std::panic::AssertUnwindSafe(|| block_on(a.get_assertion(req())).is_ok()));
            PANIC_NEXT_CONVERSION.with(|p| p.set(false));
            let second = block_on(a.get_assertion(req()));
            Ok((first.is_err(), second.map(|_| ()).map_err(|e| format!("{e:?}"))))
        }
    });
    match r {
        Err(p) => out.push(("panic-after-user-code-panic".into(), format!("the ceremony after the one in which the item conversion panicked panics itself: {p}"))),
        Ok(Err(e)) => out.push(("harness".into(), e)),
        Ok(Ok((_, Err(e)))) => out.push(("ceremony-fails-after-user-code-panic".into(), format!("the item conversion panicked once (unwind caught); the next {} on the same authenticator fails with {e} although a fresh authenticator performs it", if api == 0 { "U2F authentication with the registered key handle" } else { "assertion" }))),
        Ok(Ok((_, Ok(())))) => {}
    }
    out
}
