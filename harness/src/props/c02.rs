//! C02 – registration returns a credential that a standard relying party can verify.
use super::common::*;
use crate::core::graph::{self, Sys};
use crate::core::par;
use crate::core::report::*;
use crate::drivers::*;
use crate::oracles::rp::{self, ClientDataExpect, RegResponse};
use coset::iana::Algorithm as A;
use passkey_authenticator::MemoryStore;
use passkey_types::webauthn::{self, PublicKeyCredentialType};
use serde::{Deserialize, Serialize};
use serde_json::{json, Value};
use std::sync::Arc;

#[derive(Clone, Debug, Serialize, Deserialize, PartialEq, Eq, Hash)]
pub struct Case {
    pub challenge: Vec<u8>,
    pub user: u8,
    pub org: Org,
    pub algs: u8,
    pub mode: Mode,
    pub counter: bool,
    pub memory_store: bool,
    /// requested credential id length (None = default)
    pub id_len: Option<u8>,
    pub rk: bool,
    /// irrelevant-member decoration: timeout, hints, attestation preference and formats,
    /// attachment, and a non-matching exclude list whose descriptors carry transports hints
    #[serde(default)]
    pub decor: bool,
    /// extension interplay: 0 none; 1 authenticator with hmac-secret (non-UV secret, evaluation at
    /// creation), request asks credProps + prf eval; 2 authenticator with UV-only hmac-secret,
    /// request carries an empty prf object; 3 default authenticator, request asks credProps + prf
    #[serde(default)]
    pub ext: u8,
    /// order in which the authenticator's configuration is applied (common::AuthCfg::order)
    #[serde(default)]
    pub order: u8,
}

pub fn alg_list(n: u8) -> (Vec<webauthn::PublicKeyCredentialParameters>, bool) {
    // (list, whether a supported entry exists) – [] means the WebAuthn defaults ES256, RS256
    match n {
        0 => (vec![], true),
        1 => (vec![param(A::ES256)], true),
        2 => (vec![param(A::RS256), param(A::ES256)], true),
        3 => (vec![param(A::ES256), param(A::RS256)], true),
        4 => (vec![param(A::ES256), param(A::ES256)], true),
        5 => (vec![param(A::RS256)], false),
        6 => (vec![param(A::EdDSA), param(A::RS256)], false),
        // entries of unknown credential *type* carrying an unsupported algorithm: whatever the type is
        // taken to mean, the list has no supported entry (7) / its first supported entry is ES256 (8)
        7 => (vec![unknown_type(A::RS256)], false),
        _ => (vec![unknown_type(A::RS256), param(A::ES256), unknown_type(A::EdDSA)], true),
    }
}
fn unknown_type(alg: A) -> webauthn::PublicKeyCredentialParameters {
    webauthn::PublicKeyCredentialParameters { ty: PublicKeyCredentialType::Unknown, alg }
}
pub fn users() -> Vec<(Vec<u8>, String)> {
    vec![
        (vec![0x00], "a".into()),
        ((0..16).collect(), "alice@example.com".into()),
        ((0..64).map(|i| if i % 2 == 0 { 0x00 } else { 0xff }).collect(), "Ünï¢ødé 用户 🔑".into()),
        (vec![0xff, 0x00, 0x7f], "".into()),
    ]
}

fn base() -> Case {
    Case { challenge: challenges()[5].clone(), user: 1, org: Org::HostIsRp, algs: 1, mode: Mode::Default, counter: false, memory_store: false, id_len: None, rk: true, decor: false, ext: 0, order: 0 }
}

pub fn cases(tier: Tier) -> Vec<Case> {
    let mut v = vec![];
    let chs = challenges();
    // full product of the small dimensions
    for ch in &chs {
        for org in ORGS {
            for algs in 0..9u8 {
                for mode in MODES {
                    for counter in [false, true] {
                        for memory_store in [false, true] {
                            v.push(Case { challenge: ch.clone(), user: ((ch.len() + algs as usize) % 4) as u8, org, algs, mode, counter, memory_store, id_len: None, rk: true, decor: (ch.len() + algs as usize) % 2 == 1, ext: 0, order: 0 });
                        }
                    }
                }
            }
        }
    }
    // users x orgs x modes
    for user in 0..4u8 {
        for org in ORGS {
            for mode in MODES {
                for rk in [false, true] {
                    for decor in [false, true] {
                        for ext in 0..4u8 {
                            v.push(Case { user, org, mode, rk, decor, ext, ..base() });
                        }
                    }
                }
            }
        }
    }
    // every requested credential-id length against the base point (and, thorough, against each org/mode)
    for n in 0..=255u8 {
        v.push(Case { id_len: Some(n), ..base() });
        v.push(Case { id_len: Some(n), memory_store: true, counter: true, ext: 1 + n % 3, ..base() });
        // the same configuration applied in the other orders (builder first; transports builder last)
        if matches!(n, 0 | 16 | 17 | 32 | 40 | 64 | 65 | 255) {
            for order in 1..4u8 {
                for ext in 0..4u8 {
                    for counter in [false, true] {
                        v.push(Case { id_len: Some(n), counter, ext, order, ..base() });
                    }
                }
            }
        }
        if tier == Tier::Thorough {
            for org in ORGS {
                for mode in MODES {
                    v.push(Case { id_len: Some(n), org, mode, ..base() });
                }
            }
        }
    }
    v
}

pub fn ext_inputs(ext: u8) -> Option<webauthn::AuthenticationExtensionsClientInputs> {
    use webauthn::{AuthenticationExtensionsPrfInputs as P, AuthenticationExtensionsPrfValues as V};
    match ext {
        0 => None,
        2 => Some(webauthn::AuthenticationExtensionsClientInputs { cred_props: None, prf: Some(P { eval: None, eval_by_credential: None }), prf_already_hashed: None }),
        _ => Some(webauthn::AuthenticationExtensionsClientInputs { cred_props: Some(true), prf: Some(P { eval: Some(V { first: vec![1, 2, 3].into(), second: Some(vec![4].into()) }), eval_by_credential: None }), prf_already_hashed: None }),
    }
}
pub fn ext_cfg(ext: u8, counter: bool, id_len: Option<u8>) -> AuthCfg {
    match ext {
        1 => AuthCfg { counter, id_len, hmac: 2, hmac_mc: true, order: 0 },
        2 => AuthCfg { counter, id_len, hmac: 1, hmac_mc: false, order: 0 },
        _ => AuthCfg { counter, id_len, hmac: 0, hmac_mc: false, order: 0 },
    }
}

pub struct RegCheck {
    pub findings: Vec<(String, String)>,
    pub outcome: String,
    pub new_rec: Option<Rec>,
}

/// Run one registration on `client` whose store contents are observable through `snapshot`.
pub fn check_registration<S>(client: &mut StdClient<S>, snapshot: &dyn Fn() -> Vec<Rec>, c: &Case) -> RegCheck
where
    S: passkey_authenticator::CredentialStore<PasskeyItem = passkey_types::Passkey> + Send + Sync,
{
    let mut fs: Vec<(String, String)> = vec![];
    let (uid, uname) = users()[c.user as usize % 4].clone();
    let (list, supported) = alg_list(c.algs);
    let (rp_arg, rp_eff, origin_str) = c.org.spec();
    let before = snapshot();
    let selection = Some(webauthn::AuthenticatorSelectionCriteria { authenticator_attachment: None, resident_key: None, require_resident_key: c.rk, user_verification: Default::default() });
    let mut opts = creation_options(Reg { rp_id: rp_arg.map(|s| s.to_string()), challenge: c.challenge.clone(), user_id: uid.clone(), user_name: uname, params: list, exclude: None, selection, extensions: ext_inputs(c.ext) });
    if c.decor {
        use webauthn::AuthenticatorTransport as T;
        let pk = &mut opts.public_key;
        pk.timeout = Some(120_000);
        pk.hints = Some(vec![webauthn::PublicKeyCredentialHints::SecurityKey, webauthn::PublicKeyCredentialHints::ClientDevice]);
        pk.attestation = webauthn::AttestationConveyancePreference::Direct;
        pk.attestation_formats = Some(vec![webauthn::AttestationStatementFormatIdentifiers::Packed]);
        if let Some(sel) = pk.authenticator_selection.as_mut() {
            sel.authenticator_attachment = Some(webauthn::AuthenticatorAttachment::CrossPlatform);
        }
        let mut d1 = descriptor(&[0xEE; 16]);
        d1.transports = Some(vec![T::Usb]);
        let mut d2 = descriptor(&[0xEF; 20]);
        d2.transports = Some(vec![T::Internal, T::Hybrid]);
        pk.exclude_credentials = Some(vec![d1, d2]);
    }
    let res = register(client, c.org, c.mode, opts);
    let after = snapshot();
    let cred = match res {
        Err(p) => {
            fs.push((format!("panic/site={}", par::panic_site(&p)), format!("Client::register panicked: {p}")));
            return RegCheck { findings: fs, outcome: "panic".into(), new_rec: None };
        }
        Ok(Err(e)) => {
            if supported {
                fs.push(("supported-list-fails".into(), format!("a preference list with a supported entry failed: {e:?}")));
            }
            if after != before {
                fs.push(("failed-registration-changed-store".into(), format!("store {} → {} records after a failed registration", before.len(), after.len())));
            }
            return RegCheck { findings: fs, outcome: format!("err:{}", if supported { "unexpected" } else { "unsupported-alg" }), new_rec: None };
        }
        Ok(Ok(c)) => c,
    };
    if !supported {
        fs.push(("unsupported-list-succeeds".into(), "a preference list without any supported algorithm produced a credential".into()));
    }
    let expect = ClientDataExpect { ty: "webauthn.create", challenge: &c.challenge, origin: &origin_str, extra: if c.mode == Mode::Extra { extra_expect() } else { vec![] } };
    let resp = RegResponse {
        id: &cred.id,
        raw_id: &cred.raw_id,
        ty_is_public_key: cred.ty == PublicKeyCredentialType::PublicKey,
        client_data_json: &cred.response.client_data_json,
        authenticator_data: &cred.response.authenticator_data,
        attestation_object: &cred.response.attestation_object,
        public_key_der: cred.response.public_key.as_ref().map(|b| b.as_slice()),
        public_key_algorithm: cred.response.public_key_algorithm,
    };
    let (problems, xy, ad) = rp::verify_registration(&resp, &expect, rp_eff);
    for (k, d) in problems {
        fs.push((k.to_string(), d));
    }
    // store: exactly one new record, matching private key, effective RP ID, fresh id of the configured length
    let new: Vec<&Rec> = after.iter().filter(|r| !before.iter().any(|b| b.id == r.id)).collect();
    let unchanged_old = before.iter().all(|b| after.contains(b));
    let mut new_rec = None;
    if new.len() != 1 || after.len() != before.len() + 1 || !unchanged_old {
        fs.push(("store-not-extended-by-exactly-one".into(), format!("store {} → {} records, {} new ids, old records intact: {unchanged_old}", before.len(), after.len(), new.len())));
    } else {
        let r = new[0].clone();
        if r.id != cred.raw_id.to_vec() {
            fs.push(("stored-id-differs".into(), "the stored credential id is not the returned raw id".into()));
        }
        if r.rp != rp_eff {
            fs.push(("stored-rp-id".into(), format!("stored RP ID {:?}, effective RP ID {rp_eff:?}", r.rp)));
        }
        let want_len = c.id_len.map_or(16, |n| n.clamp(16, 64)) as usize;
        if r.id.len() != want_len {
            fs.push(("credential-id-length".into(), format!("requested {:?}, got {} bytes, expected {want_len}", c.id_len, r.id.len())));
        }
        match (&r.d, &xy) {
            (Some(d), Some((x, y))) => match rp::public_of(d) {
                Ok((px, py)) => {
                    if &px != x || &py != y {
                        fs.push(("stored-private-key-mismatch".into(), "d·G of the stored private key is not the returned public key".into()));
                    }
                }
                Err(e) => fs.push(("stored-private-key-invalid".into(), e)),
            },
            (None, _) => fs.push(("stored-private-key-missing".into(), "stored COSE key has no d".into())),
            _ => {}
        }
        let want_counter = c.counter.then_some(0);
        if r.counter != want_counter {
            fs.push(("stored-counter".into(), format!("counters enabled={}, stored {:?}", c.counter, r.counter)));
        }
        if let Some(ad) = &ad {
            if ad.counter != 0 {
                fs.push(("reported-counter-nonzero".into(), format!("{}", ad.counter)));
            }
            if ad.flags & rp::UP == 0 {
                fs.push(("up-flag-clear".into(), "registration without UP bit".into()));
            }
        }
        new_rec = Some(r);
    }
    RegCheck { findings: fs, outcome: "ok".into(), new_rec }
}

pub fn eval(c: &Case) -> (Vec<Finding>, String) {
    let case = serde_json::to_value(c).unwrap();
    let log = Log::new();
    let uv = ScriptedUv::consenting(log.clone());
    let seeds = vec![seeded(&Seed { n: 1, rp: c.org.rp(), handle: Some(vec![1]), counter: Some(3), hmac: None }), seeded(&Seed { n: 2, rp: "other.org".into(), handle: Some(vec![2]), counter: None, hmac: None })];
    let tweak = &AuthCfg { order: c.order, ..ext_cfg(c.ext, c.counter, c.id_len) };
    let rc = if c.memory_store {
        let mut m = MemoryStore::new();
        for s in seeds {
            m.insert(s.credential_id.to_vec(), s);
        }
        let shared = Arc::new(tokio::sync::Mutex::new(m));
        let mut client = mk_client(shared.clone(), uv, c.org, tweak);
        check_registration(&mut client, &|| shared.recs(), c)
    } else {
        let shared = Shared::new(RefStore::with(seeds));
        let mut client = mk_client(shared.clone(), uv, c.org, tweak);
        check_registration(&mut client, &|| shared.recs(), c)
    };
    let fs = rc.findings.into_iter().map(|(k, d)| Finding::new(format!("kind={k}"), format!("{d}; org={:?} mode={:?} algs={} store={}", c.org, c.mode, c.algs, if c.memory_store { "MemoryStore" } else { "RefStore" }), case.clone())).collect();
    (fs, rc.outcome)
}

// ---- sequences of registrations into one store (explicit-state search)

#[derive(Clone, Debug, PartialEq, Serialize, Deserialize)]
pub struct RegAct {
    pub rp: u8,
    pub user: u8,
    pub rk: bool,
}
#[derive(Clone)]
pub struct Seq {
    pub depth: usize,
    /// run the sequence on Arc<Mutex<MemoryStore>> instead of the contract store
    pub memory: bool,
}
#[derive(Clone)]
enum SeqStore {
    Ref(Shared<RefStore>),
    Mem(Arc<tokio::sync::Mutex<MemoryStore>>),
}
impl SeqStore {
    fn recs_sorted(&self) -> Vec<Rec> {
        match self {
            SeqStore::Ref(s) => s.recs(),
            SeqStore::Mem(m) => m.recs(),
        }
    }
}
const SEQ_ORGS: [Org; 2] = [Org::HostIsRp, Org::Idn];

fn seq_init_any(init: usize, memory: bool) -> SeqStore {
    let r = seq_init(init);
    if memory {
        let m: MemoryStore = r.0.lock().unwrap().items.iter().map(|p| (p.credential_id.to_vec(), p.clone())).collect();
        SeqStore::Mem(Arc::new(tokio::sync::Mutex::new(m)))
    } else {
        SeqStore::Ref(r)
    }
}
fn seq_apply_any(store: &SeqStore, a: &RegAct) -> RegCheck {
    match store {
        SeqStore::Ref(r) => seq_apply(r, a),
        SeqStore::Mem(m) => {
            let org = SEQ_ORGS[a.rp as usize % 2];
            let c = Case { user: a.user, org, rk: a.rk, counter: a.rk, decor: a.user % 2 == 1, memory_store: true, ext: (a.user + a.rp) % 4, ..base() };
            let mut client = mk_client(m.clone(), ScriptedUv::consenting(Log::new()), org, &ext_cfg(c.ext, c.counter, None));
            check_registration(&mut client, &|| m.recs(), &c)
        }
    }
}
fn seq_init(init: usize) -> Shared<RefStore> {
    let items = match init {
        0 => vec![],
        1 => vec![seeded(&Seed { n: 1, rp: "example.com".into(), handle: Some(users()[0].0.clone()), counter: Some(0), hmac: None })],
        _ => vec![seeded(&Seed { n: 1, rp: "example.com".into(), handle: Some(users()[0].0.clone()), counter: None, hmac: None }), seeded(&Seed { n: 2, rp: SEQ_ORGS[1].rp(), handle: Some(users()[1].0.clone()), counter: Some(9), hmac: None })],
    };
    Shared::new(RefStore::with(items))
}
fn seq_apply(store: &Shared<RefStore>, a: &RegAct) -> RegCheck {
    let org = SEQ_ORGS[a.rp as usize % 2];
    let c = Case { user: a.user, org, rk: a.rk, counter: a.rk, decor: a.user % 2 == 1, ext: (a.user + a.rp) % 4, ..base() };
    let mut client = mk_client(store.clone(), ScriptedUv::consenting(Log::new()), org, &ext_cfg(c.ext, c.counter, None));
    check_registration(&mut client, &|| store.recs(), &c)
}
/// canonical snapshot: (rp, handle, has counter) per record in creation order – ids and keys are
/// random and only ever compared for equality, so they are replaced by their position
type SeqSnap = Vec<(String, Option<Vec<u8>>, Option<u32>)>;
fn seq_snap(store: &Shared<RefStore>) -> SeqSnap {
    store.0.lock().unwrap().recs_ordered().into_iter().map(|r| (r.rp, r.handle, r.counter)).collect()
}
fn seq_snap_any(store: &SeqStore) -> SeqSnap {
    match store {
        SeqStore::Ref(r) => seq_snap(r),
        SeqStore::Mem(_) => {
            // the map has no order: canonical form is the sorted multiset
            let mut v: SeqSnap = store.recs_sorted().into_iter().map(|r| (r.rp, r.handle, r.counter)).collect();
            v.sort();
            v
        }
    }
}
impl Sys for Seq {
    type Act = RegAct;
    type Snap = SeqSnap;
    fn inits(&self) -> usize {
        3
    }
    fn init_snap(&self, i: usize) -> SeqSnap {
        seq_snap_any(&seq_init_any(i, self.memory))
    }
    fn actions(&self, _i: usize, _s: &SeqSnap, _d: usize) -> Vec<RegAct> {
        let mut v = vec![];
        for rp in 0..2 {
            for user in 0..2 {
                for rk in [false, true] {
                    v.push(RegAct { rp, user, rk });
                }
            }
        }
        v
    }
    fn step(&self, init: usize, hist: &[RegAct], act: &RegAct, st: &mut Stats) -> Option<SeqSnap> {
        let store = seq_init_any(init, self.memory);
        for h in hist {
            seq_apply_any(&store, h);
        }
        let rc = seq_apply_any(&store, act);
        let mut full = hist.to_vec();
        full.push(act.clone());
        let case = json!({"seq_init": init, "hist": full, "memory": self.memory});
        st.case(&format!("{init}/{full:?}"), true, &format!("seq:{}", rc.outcome));
        st.sample(|| case.clone());
        for (k, d) in rc.findings {
            st.finding(Finding::new(format!("kind={k}"), format!("{d}; in a sequence of {} registrations", full.len()), case.clone()));
        }
        // ids must be pairwise distinct in the store
        let recs = store.recs_sorted();
        let mut ids: Vec<&Vec<u8>> = recs.iter().map(|r| &r.id).collect();
        ids.sort();
        ids.dedup();
        if ids.len() != recs.len() {
            st.finding(Finding::new("kind=credential-id-reused", "two stored credentials share an id", case));
        }
        Some(seq_snap_any(&store))
    }
    fn max_depth(&self) -> usize {
        self.depth
    }
}

// ------------------------------------------------------------------------------------------
// origins given as full URLs (path, query, fragment, user info; characters that need escaping in
// JSON or survive URL serialisation raw): clientDataJSON of the registration and of a following
// assertion is a JSON object whose origin member names the caller's origin - either the origin's
// serialisation or the URL the caller passed (what the pinned client puts there), never anything else
pub const ORIGIN_URLS: [&str; 14] = [
    "https://example.com/sso?return=\\billing",
    "https://example.com/sso?return=\\home#\\next",
    "https://example.com/#frag\\ment",
    "https://example.com/a%22b?q=%22quoted%22",
    "https://example.com/p\u{e4}th?q=\u{fc}#\u{f6}",
    "https://example.com:8443/x/../y?z",
    "https://user:pw@example.com/",
    "https://example.com/?a=1&b=\\u0041",
    "https://example.com/?\\\\",
    "https://example.com/#\\\"",
    "https://example.com/?tab=\t&nl=x",
    "https://example.com/'single'",
    "https://example.com/%5C?x=%5C",
    "https://example.com",
];
fn eval_origin_url(text: &str) -> Vec<(String, String)> {
    use passkey_client::DefaultClientData;
    let mut v = vec![];
    let Ok(url) = url::Url::parse(text) else { return v };
    let accepted: Vec<String> = vec![url.origin().ascii_serialization(), url.origin().unicode_serialization(), url.as_str().trim_end_matches('/').to_string(), url.as_str().to_string()];
    let store = Shared::new(RefStore::new());
    let mut client = passkey_client::Client::new(passkey_authenticator::Authenticator::new(passkey_types::ctap2::Aaguid::new_empty(), store.clone(), ScriptedUv::consenting(Log::new())));
    let check = |what: &str, cdj: &[u8], ty: &str, challenge: &[u8], v: &mut Vec<(String, String)>| match serde_json::from_slice::<Value>(cdj) {
        Err(e) => v.push((format!("{what}-client-data-not-json"), format!("clientDataJSON of the {what} from {text:?} does not parse as JSON: {e}"))),
        Ok(j) => {
            if j["type"] != ty {
                v.push((format!("{what}-client-data-type"), format!("type = {}", j["type"])));
            }
            if j["challenge"].as_str() != Some(&crate::oracles::b64::url_nopad(challenge)) {
                v.push((format!("{what}-client-data-challenge"), format!("challenge = {}", j["challenge"])));
            }
            match j["origin"].as_str() {
                Some(o) if accepted.iter().any(|a| a == o) => {}
                other => v.push((format!("{what}-client-data-origin"), format!("origin member {other:?} names neither the origin nor the URL the caller passed ({text:?})"))),
            }
        }
    };
    let opts = creation_options(Reg { challenge: vec![5, 6, 7, 8], ..Default::default() });
    match par::catch(|| crate::core::exec::block_on(client.register(&url, opts, DefaultClientData))) {
        Err(p) => v.push(("panic".into(), p)),
        Ok(Err(e)) => v.push(("registration-fails".into(), format!("registration from {text:?} failed: {e:?}"))),
        Ok(Ok(c)) => {
            check("registration", &c.response.client_data_json, "webauthn.create", &[5, 6, 7, 8], &mut v);
            let opts = request_options(Auth { challenge: vec![9, 9, 9], allow: Some(vec![c.raw_id.to_vec()]), ..Default::default() });
            match par::catch(|| crate::core::exec::block_on(client.authenticate(&url, opts, DefaultClientData))) {
                Err(p) => v.push(("panic".into(), p)),
                Ok(Err(e)) => v.push(("assertion-fails".into(), format!("assertion from {text:?} failed: {e:?}"))),
                Ok(Ok(a)) => check("assertion", &a.response.client_data_json, "webauthn.get", &[9, 9, 9], &mut v),
            }
        }
    }
    v
}

/// A store that executes the write and then answers with an error status (the acknowledgement was
/// lost on the way), for every status byte: if the registration nevertheless reports success, it
/// has made exactly one write.
fn eval_lost_ack(status: u8, memory: bool) -> Vec<(String, String)> {
    use passkey_client::DefaultClientData;
    let mut v = vec![];
    let inner = Shared::new(RefStore::new());
    let sw = SwitchStore { status, ..SwitchStore::new(inner.clone()) };
    sw.switch.store(2, std::sync::atomic::Ordering::SeqCst);
    let saves = sw.persisted_saves.clone();
    let url = url::Url::parse("https://example.com").unwrap();
    let opts = creation_options(Reg::default());
    let r = if memory {
        let mut client = passkey_client::Client::new(passkey_authenticator::Authenticator::new(passkey_types::ctap2::Aaguid::new_empty(), Arc::new(tokio::sync::Mutex::new(sw)), ScriptedUv::consenting(Log::new())));
        par::catch(|| crate::core::exec::block_on(client.register(&url, opts, DefaultClientData)).is_ok())
    } else {
        let mut client = passkey_client::Client::new(passkey_authenticator::Authenticator::new(passkey_types::ctap2::Aaguid::new_empty(), sw, ScriptedUv::consenting(Log::new())));
        par::catch(|| crate::core::exec::block_on(client.register(&url, opts, DefaultClientData)).is_ok())
    };
    let n = saves.load(std::sync::atomic::Ordering::SeqCst);
    match r {
        Err(p) => v.push(("panic".into(), p)),
        Ok(true) if n != 1 => v.push(("successful-registration-wrote-more-than-once".into(), format!("the store executed the write and answered {status:#04x}; the registration reports success after {n} executed writes (an append-only store now holds {n} credentials for one registration)"))),
        _ => {}
    }
    v
}

pub fn run(ctx: &Ctx) -> Result<Run, String> {
    let cs = cases(ctx.tier);
    let mut stats = par::sweep_cases(&cs, ctx.threads, |c, st| {
        let (fs, o) = eval(c);
        st.case(c, o == "ok" || o.contains("unsupported"), &o);
        st.findings_from(fs);
    });
    for c in cs.iter().step_by(cs.len() / 3 + 1) {
        stats.samples.push(serde_json::to_value(c).unwrap());
    }
    for status in 0..=255u8 {
        for memory in [false, true] {
            stats.case(&("lost-ack", status, memory), true, "lost-acknowledgement");
            for (k, d) in eval_lost_ack(status, memory) {
                stats.finding(Finding::new(format!("lost-ack/kind={k}"), d, json!({"lost_ack": {"status": status, "memory": memory}})));
            }
        }
    }
    for (i, u) in ORIGIN_URLS.iter().enumerate() {
        stats.case(&("origin-url", i), true, "origin-url");
        for (k, d) in eval_origin_url(u) {
            stats.finding(Finding::new(format!("origin-url/kind={k}"), d, json!({"origin_url": i})));
        }
    }
    let (mut states, mut transitions) = (0u64, 0u64);
    for memory in [false, true] {
        let g = graph::bfs(&Seq { depth: ctx.tier.pick(3, 5), memory }, ctx.threads);
        states += g.states;
        transitions += g.transitions;
        stats.merge(g.stats);
    }
    // a long run of registrations on one thread (mixed id lengths, PRF secrets, seven authenticators):
    // every credential id and secret must be fresh random material
    let lr = super::inst::long_run_sweep(ctx.tier.pick(96, 400), "long-run");
    transitions += ctx.tier.pick(96, 400);
    stats.merge(lr);
    let single = cs.len() as u64;
    let mut run = Run::from_stats(
        "model_checking",
        "a run of 96 (thorough 400) registrations on one thread over seven authenticators with credential-id lengths 16/20/33/60/64/32/48 and PRF secrets: no 8-byte window of a credential id or secret may occur in one drawn earlier; a store that executes the write and answers with each of the 256 status bytes (a lost acknowledgement): a registration that reports success has made exactly one write; 14 origins given as full URLs (paths, queries, fragments, user info; backslashes, quotes, non-ASCII and escapes that survive URL serialisation): clientDataJSON of the registration and of a following assertion parses as JSON and names the caller's origin; single registrations: full product of 10 challenges (lengths 0..64, base64url-discriminating bytes) x 6 accepted origin/RP pairs (host=RP, sub-domain, port, IDN, localhost, Android) x 9 algorithm lists (incl. entries of unknown credential type that carry an unsupported algorithm) x 3 client-data modes x counter on/off x {RefStore, Arc<Mutex<MemoryStore>>}, users x orgs x modes x rk, and all 256 requested credential-id lengths; sequences: BFS over register(rp in 2, user in 2, rk) – so the same account registers repeatedly – from the empty and two seeded stores, on the contract store and on Arc<Mutex<MemoryStore>>. Every response is verified by an independent relying-party implementation and the store delta is compared. Non-trivial = distinct case that produced a credential or the unsupported-algorithm refusal",
        true,
        stats,
    );
    run.graph(states + single, transitions + single, transitions + single);
    run.set("sequence_states", json!(states));
    run.set("sequence_transitions", json!(transitions));
    run.assume("p256, sha2, ciborium::Value and serde_json::Value are trusted; credential-id freshness is checked as 'never equal to an id already in the store'");
    Ok(run)
}

pub fn replay(_ctx: &Ctx, case: &Value) -> Result<Vec<Finding>, String> {
    if let Some(fs) = super::inst::long_run_replay(case, "long-run") {
        return Ok(fs);
    }
    if let Some(l) = case.get("lost_ack") {
        return Ok(eval_lost_ack(l["status"].as_u64().unwrap_or(0) as u8, l["memory"].as_bool().unwrap_or(false)).into_iter().map(|(k, d)| Finding::new(format!("lost-ack/kind={k}"), d, case.clone())).collect());
    }
    if let Some(i) = case.get("origin_url").and_then(|i| i.as_u64()) {
        return Ok(eval_origin_url(ORIGIN_URLS[i as usize % ORIGIN_URLS.len()]).into_iter().map(|(k, d)| Finding::new(format!("origin-url/kind={k}"), d, case.clone())).collect());
    }
    if case.get("seq_init").is_some() {
        let init = case["seq_init"].as_u64().unwrap_or(0) as usize;
        let hist: Vec<RegAct> = serde_json::from_value(case["hist"].clone()).map_err(|e| format!("bad C02 sequence: {e}"))?;
        let store = seq_init_any(init, case["memory"].as_bool().unwrap_or(false));
        let mut out = vec![];
        for (i, h) in hist.iter().enumerate() {
            let rc = seq_apply_any(&store, h);
            if i + 1 == hist.len() {
                out = rc.findings.into_iter().map(|(k, d)| Finding::new(format!("kind={k}"), d, case.clone())).collect();
                let recs = store.recs_sorted();
                let mut ids: Vec<&Vec<u8>> = recs.iter().map(|r| &r.id).collect();
                ids.sort();
                ids.dedup();
                if ids.len() != recs.len() {
                    out.push(Finding::new("kind=credential-id-reused", "two stored credentials share an id", case.clone()));
                }
            }
        }
        return Ok(out);
    }
    let c: Case = serde_json::from_value(case.clone()).map_err(|e| format!("bad C02 case: {e}"))?;
    Ok(eval(&c).0)
}
