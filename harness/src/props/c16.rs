//! C16 – CTAPHID fragmentation and reassembly preserve every message, per channel.
use crate::core::par;
use crate::core::report::*;
use passkey_transports::hid::{ChannelHandler, Command, Message};
use serde::{Deserialize, Serialize};
use serde_json::{json, Value};
use stateright::{Checker, Model, Property};
use std::hash::{Hash, Hasher};
use std::sync::atomic::{AtomicU64, Ordering};
use std::sync::{Arc, Mutex};

pub const COMMANDS: [(Command, u8); 9] = [(Command::Msg, 0x03), (Command::Cbor, 0x10), (Command::Init, 0x06), (Command::Ping, 0x01), (Command::Cancel, 0x11), (Command::Err, 0x3F), (Command::KeepAlive, 0x3B), (Command::Wink, 0x08), (Command::Lock, 0x04)];
const CHANNELS: [u32; 4] = [0, 1, 0x0102_0304, 0xFFFF_FFFF];
pub const MAX: usize = 7609;

fn content(pattern: u8, len: usize) -> Vec<u8> {
    match pattern {
        0 => vec![0; len],
        1 => vec![0xFF; len],
        _ => (0..len).map(|i| (i % 251) as u8 ^ 0x5A).collect(),
    }
}

/// A writer that implements only `write` and `flush` (everything else is std's default) and
/// records every call: what a report-per-write HID device wrapper looks like.
#[derive(Default)]
struct PlainWriter {
    calls: Vec<Vec<u8>>,
}
impl std::io::Write for PlainWriter {
    fn write(&mut self, buf: &[u8]) -> std::io::Result<usize> {
        self.calls.push(buf.to_vec());
        Ok(buf.len())
    }
    fn flush(&mut self) -> std::io::Result<()> {
        Ok(())
    }
}
/// A buffering adapter in front of a report-oriented device (what `BufWriter<hid device>` is): writes
/// are collected, and a flush hands the collected bytes to the device as ONE report, of which a HID
/// device takes 64 bytes.  What is never flushed never reaches the device.
#[derive(Default)]
struct ReportWriter {
    buf: Vec<u8>,
    reports: Vec<Vec<u8>>,
}
impl std::io::Write for ReportWriter {
    fn write(&mut self, b: &[u8]) -> std::io::Result<usize> {
        self.buf.extend_from_slice(b);
        Ok(b.len())
    }
    fn flush(&mut self) -> std::io::Result<()> {
        if !self.buf.is_empty() {
            self.reports.push(std::mem::take(&mut self.buf));
        }
        Ok(())
    }
}
/// the reports such a device receives for one message (None: refused)
fn send_reports(channel: u32, cmd: Command, payload: &[u8]) -> Result<Option<Vec<Vec<u8>>>, String> {
    par::catch(|| match Message::new(channel, cmd, payload) {
        Err(_) => None,
        Ok(m) => {
            let mut w = ReportWriter::default();
            m.send(&mut w).ok().map(|_| w.reports)
        }
    })
}
/// the same message through the plain writer: the concatenation of what it was handed
fn send_plain(channel: u32, cmd: Command, payload: &[u8]) -> Result<Option<(Vec<u8>, Vec<usize>)>, String> {
    par::catch(|| match Message::new(channel, cmd, payload) {
        Err(_) => None,
        Ok(m) => {
            let mut w = PlainWriter::default();
            m.send(&mut w).ok().map(|_| (w.calls.concat(), w.calls.iter().map(|c| c.len()).collect()))
        }
    })
}

/// bytes the sender writes, or None when the message is refused
fn send(channel: u32, cmd: Command, payload: &[u8]) -> Result<Option<Vec<u8>>, String> {
    par::catch(|| match Message::new(channel, cmd, payload) {
        Err(_) => None,
        Ok(m) => {
            let mut out: Vec<u8> = vec![];
            m.send(&mut out).ok().map(|_| out)
        }
    })
}

#[derive(Clone, Debug, Serialize, Deserialize, PartialEq, Eq, Hash)]
pub struct Single {
    pub len: usize,
    pub cmd: usize,
    pub channel: u32,
    pub pattern: u8,
}

pub fn eval_single(c: &Single) -> (Vec<Finding>, &'static str) {
    let case = json!({"single": c});
    let mut fs = vec![];
    let (cmd, cmd_byte) = COMMANDS[c.cmd % 9];
    let payload = content(c.pattern, c.len);
    let mut bad = |kind: &str, d: String| fs.push(Finding::new(format!("single/kind={kind}"), d, case.clone()));
    let wire = match send(c.channel, cmd, &payload) {
        Err(p) => {
            bad(&format!("panic-in-sender/site={}", par::panic_site(&p)), p);
            return (fs, "panic");
        }
        Ok(None) => {
            if c.len < MAX {
                bad("valid-length-refused", format!("a {}-byte payload (below the protocol maximum of {MAX}) was refused", c.len));
            }
            return (fs, "refused");
        }
        Ok(Some(w)) => w,
    };
    if c.len > MAX {
        bad("oversized-payload-accepted", format!("a {}-byte payload (> {MAX}) was accepted ({} bytes written)", c.len, wire.len()));
        return (fs, "accepted-oversized");
    }
    // the same message into a writer that only implements write/flush: the same bytes, in whole packets
    match send_plain(c.channel, cmd, &payload) {
        Err(p) => bad(&format!("panic-in-sender/site={}", par::panic_site(&p)), format!("plain writer: {p}")),
        Ok(None) => bad("writer-dependent", "the message is written into a Vec but refused for a writer that only implements write/flush".into()),
        Ok(Some((bytes, calls))) => {
            if bytes != wire {
                bad("writer-dependent", format!("a writer that only implements write/flush receives {} bytes in calls of {:?}, a Vec receives {} bytes", bytes.len(), &calls[..calls.len().min(6)], wire.len()));
            }
        }
    }
    // the same message through a buffering adapter in front of a report-oriented device: the
    // packets the receiver gets are the flushed reports (64 bytes of each)
    if let Ok(Some(reports)) = send_reports(c.channel, cmd, &payload) {
        let got = par::catch(|| {
            let mut h = ChannelHandler::default();
            let mut out = None;
            for r in &reports {
                let mut p = r.clone();
                p.truncate(64);
                p.resize(64, 0);
                if let Some(m) = h.handle_packet(&p) {
                    out = Some((m.channel, m.payload));
                }
            }
            out
        });
        if got != Ok(Some((c.channel, payload.clone()))) {
            bad("report-device-loses-message", format!("through a buffering adapter that hands each flush to a report-oriented device the receiver does not get the message: the device received {} reports of {:?} bytes for {} packets", reports.len(), reports.iter().map(|r| r.len()).take(4).collect::<Vec<_>>(), wire.len() / 64));
        }
    }
    if wire.len() % 64 != 0 || wire.is_empty() {
        bad("not-64-byte-packets", format!("{} bytes written", wire.len()));
        return (fs, "accepted");
    }
    let packets: Vec<&[u8]> = wire.chunks(64).collect();
    let want_packets = if c.len <= 57 { 1 } else { 1 + (c.len - 57).div_ceil(59) };
    if packets.len() != want_packets {
        bad("packet-count", format!("{} packets for {} bytes, expected {want_packets}", packets.len(), c.len));
    }
    // packet 0: cid || cmd|0x80 || BE length || data
    let cid = &packets[0][..4];
    if cid != c.channel.to_be_bytes() && cid != c.channel.to_le_bytes() {
        bad("channel-id-bytes", format!("{cid:02x?} is no byte order of {:#010x}", c.channel));
    }
    if packets[0][4] != (cmd_byte | 0x80) {
        bad("command-byte", format!("{:#04x}, expected {:#04x}", packets[0][4], cmd_byte | 0x80));
    }
    if u16::from_be_bytes([packets[0][5], packets[0][6]]) as usize != c.len {
        bad("length-field", format!("{:02x}{:02x} for {} bytes", packets[0][5], packets[0][6], c.len));
    }
    let mut data: Vec<u8> = packets[0][7..].to_vec();
    for (i, p) in packets.iter().enumerate().skip(1) {
        if &p[..4] != cid {
            bad("channel-id-changes-between-packets", format!("packet {i}"));
        }
        if p[4] as usize != i - 1 || p[4] & 0x80 != 0 {
            bad("sequence-numbers", format!("packet {i} carries sequence byte {:#04x}, expected {}", p[4], i - 1));
        }
        data.extend_from_slice(&p[5..]);
    }
    if data.len() < c.len || data[..c.len] != payload[..] {
        bad("payload-bytes", "concatenated packet data is not the payload".into());
    } else if data[c.len..].iter().any(|b| *b != 0) {
        bad("padding-not-zero", format!("bytes after the payload in the last packet are not zero ({} padding bytes)", data.len() - c.len));
    }
    // receiver
    let r = par::catch(|| {
        let mut h = ChannelHandler::default();
        let mut outs = vec![];
        // the reassembled message sent on as it is (an echo / a relay): must be the same packets
        let mut echo: Option<Vec<u8>> = None;
        for p in &packets {
            let m = h.handle_packet(p);
            if let Some(m) = &m {
                let mut again: Vec<u8> = vec![];
                if m.clone().send(&mut again).is_ok() {
                    echo = Some(again);
                }
            }
            outs.push(m.map(|m| (m.channel, m.command.encode(), m.payload)));
        }
        (outs, h.verif_snapshot().len(), echo)
    });
    match r {
        Err(p) => bad(&format!("panic-in-receiver/site={}", par::panic_site(&p)), p),
        Ok((outs, left, echo)) => {
            match echo {
                Some(e) if e != wire => bad("resent-message-differs", format!("the message as delivered by the handler, sent again, is written as {} bytes that differ from the {} bytes it arrived as (first difference at byte {:?})", e.len(), wire.len(), e.iter().zip(wire.iter()).position(|(a, b)| a != b))),
                _ => {}
            }
            for (i, o) in outs.iter().enumerate() {
                let last = i + 1 == outs.len();
                match (o, last) {
                    (Some(_), false) => bad("delivered-early", format!("a message was delivered on packet {i} of {}", outs.len())),
                    (None, true) => bad("not-delivered-on-last-packet", format!("no message after all {} packets", outs.len())),
                    (Some((ch, cm, pl)), true) => {
                        if *ch != c.channel || *cm != (cmd_byte | 0x80) || *pl != payload {
                            bad("reassembled-message-differs", format!("channel {ch:#x} cmd {cm:#x} payload {} bytes vs sent channel {:#x} cmd {:#x} {} bytes", pl.len(), c.channel, cmd_byte | 0x80, payload.len()));
                        }
                    }
                    (None, false) => {}
                }
            }
            if left != 0 {
                bad("partial-state-left-behind", format!("{left} channels still in progress after a complete message"));
            }
        }
    }
    (fs, "accepted")
}

pub fn singles(tier: Tier) -> Vec<Single> {
    let mut v = vec![];
    let boundary = |l: usize| matches!(l, 0 | 1 | 56 | 57 | 58 | 115 | 116 | 117) || (7550..=7700).contains(&l);
    for len in (0..=7700usize).chain([65535, 65536, 70000]) {
        if boundary(len) || tier == Tier::Thorough && len % 59 <= 1 {
            for cmd in 0..9 {
                for (ci, channel) in CHANNELS.iter().enumerate() {
                    v.push(Single { len, cmd, channel: *channel, pattern: ((cmd + ci) % 3) as u8 });
                }
            }
        } else {
            for pattern in 0..3u8 {
                v.push(Single { len, cmd: (len + pattern as usize) % 9, channel: CHANNELS[(len + pattern as usize) % 4], pattern });
            }
        }
    }
    v
}

// ------------------------------------------------------------------------------------------
// interleavings: stateright over the real ChannelHandler (cloned through the verif hook)

pub const LENS: [usize; 7] = [0, 57, 58, 116, 117, 175, 234];
const STREAM_CH: [u32; 4] = [1, 2, 0x0102_0304, 0xFFFF_FFFF];

#[derive(Clone, Debug, Serialize, Deserialize, PartialEq, Eq, Hash)]
pub struct Combo {
    /// per stream: payload lengths of the messages sent back to back on that channel
    pub streams: Vec<Vec<usize>>,
}

pub struct Plan {
    /// per stream: packets, and for each packet Some(index of message completed by it)
    pub packets: Vec<Vec<(Vec<u8>, Option<usize>)>>,
    pub messages: Vec<Vec<(u8, Vec<u8>)>>,
}

pub fn plan(c: &Combo) -> Result<Plan, String> {
    let mut packets = vec![];
    let mut messages = vec![];
    for (s, lens) in c.streams.iter().enumerate() {
        let mut ps = vec![];
        let mut ms = vec![];
        for (mi, &l) in lens.iter().enumerate() {
            let (cmd, byte) = COMMANDS[(s + mi + l) % 9];
            let payload: Vec<u8> = (0..l).map(|i| (i as u8).wrapping_mul(3).wrapping_add(s as u8 * 64 + mi as u8)).collect();
            let wire = send(STREAM_CH[s], cmd, &payload)?.ok_or("harness: sender refused a short message")?;
            let chunks: Vec<Vec<u8>> = wire.chunks(64).map(|p| p.to_vec()).collect();
            let n = chunks.len();
            for (i, p) in chunks.into_iter().enumerate() {
                ps.push((p, (i + 1 == n).then_some(mi)));
            }
            ms.push((byte | 0x80, payload));
        }
        packets.push(ps);
        messages.push(ms);
    }
    Ok(Plan { packets, messages })
}

#[derive(Clone)]
pub struct HState {
    pub init: usize,
    pub pos: Vec<u8>,
    pub handler: ChannelHandler,
    pub hist: Vec<u8>,
}
impl Hash for HState {
    fn hash<H: Hasher>(&self, h: &mut H) {
        self.init.hash(h);
        self.pos.hash(h);
        self.handler.verif_snapshot().hash(h);
    }
}
impl PartialEq for HState {
    fn eq(&self, o: &Self) -> bool {
        self.init == o.init && self.pos == o.pos && self.handler.verif_snapshot() == o.handler.verif_snapshot()
    }
}
impl std::fmt::Debug for HState {
    fn fmt(&self, f: &mut std::fmt::Formatter<'_>) -> std::fmt::Result {
        write!(f, "HState(init={}, pos={:?}, hist={:?})", self.init, self.pos, self.hist)
    }
}

pub struct Hid {
    pub combos: Vec<Combo>,
    pub plans: Vec<Plan>,
    pub transitions: Arc<AtomicU64>,
    pub stats: Arc<Mutex<Stats>>,
}
/// action: deliver the next packet of stream i (0..k), or k = a stray continuation packet for an idle channel
fn deliver(plan: &Plan, combo: &Combo, init: usize, s: &HState, a: u8, st: &mut Stats) -> Option<HState> {
    let k = plan.packets.len();
    let mut n = s.clone();
    n.hist.push(a);
    let case = || json!({"interleave": {"combo": combo, "order": n.hist}});
    if a as usize == k {
        // continuation for a channel with no message in progress
        let mut p = vec![0u8; 64];
        p[..4].copy_from_slice(&0xDEAD_BEEFu32.to_ne_bytes());
        p[4] = 0;
        let before = n.handler.verif_snapshot();
        match par::catch(|| n.handler.handle_packet(&p).is_some()) {
            Err(e) => st.finding(Finding::new(format!("interleave/kind=panic/site={}", par::panic_site(&e)), e, case())),
            Ok(true) => st.finding(Finding::new("interleave/kind=stray-continuation-delivers", "a continuation packet for an idle channel produced a message".to_string(), case())),
            Ok(false) => {
                if n.handler.verif_snapshot() != before {
                    st.finding(Finding::new("interleave/kind=stray-continuation-changes-state", "a continuation packet for an idle channel changed the reassembly state".to_string(), case()));
                }
            }
        }
        st.case(&(init, &n.hist), true, "stray-continuation");
        return Some(n);
    }
    let i = a as usize;
    let (pkt, completes) = &plan.packets[i][s.pos[i] as usize];
    n.pos[i] += 1;
    let out = par::catch(|| n.handler.handle_packet(pkt).map(|m| (m.channel, m.command.encode(), m.payload)));
    match out {
        Err(e) => st.finding(Finding::new(format!("interleave/kind=panic/site={}", par::panic_site(&e)), e, case())),
        Ok(o) => match (o, completes) {
            (None, None) => {}
            (Some(_), None) => st.finding(Finding::new("interleave/kind=delivered-early", format!("stream {i}: a message was delivered before its last packet"), case())),
            (None, Some(mi)) => st.finding(Finding::new("interleave/kind=message-lost", format!("stream {i}: message {mi} was not delivered on its last packet"), case())),
            (Some((ch, cmd, pl)), Some(mi)) => {
                let (wc, wp) = &plan.messages[i][*mi];
                if ch != STREAM_CH[i] || cmd != *wc || &pl != wp {
                    st.finding(Finding::new("interleave/kind=message-corrupted", format!("stream {i} message {mi}: delivered (channel {ch:#x}, cmd {cmd:#x}, {} bytes) differs from what was sent on {:#x}", pl.len(), STREAM_CH[i]), case()));
                }
            }
        },
    }
    st.case(&(init, &n.hist), true, if completes.is_some() { "last-packet" } else { "packet" });
    Some(n)
}

impl Model for Hid {
    type State = HState;
    type Action = u8;
    fn init_states(&self) -> Vec<HState> {
        (0..self.combos.len()).map(|i| HState { init: i, pos: vec![0; self.combos[i].streams.len()], handler: ChannelHandler::default(), hist: vec![] }).collect()
    }
    fn actions(&self, s: &HState, out: &mut Vec<u8>) {
        let p = &self.plans[s.init];
        let mut any = false;
        for i in 0..p.packets.len() {
            if (s.pos[i] as usize) < p.packets[i].len() {
                out.push(i as u8);
                any = true;
            }
        }
        // one stray continuation somewhere in the middle of every interleaving
        if any && !s.hist.contains(&(p.packets.len() as u8)) {
            out.push(p.packets.len() as u8);
        }
    }
    fn next_state(&self, s: &HState, a: u8) -> Option<HState> {
        self.transitions.fetch_add(1, Ordering::Relaxed);
        let mut st = Stats::new();
        let n = deliver(&self.plans[s.init], &self.combos[s.init], s.init, s, a, &mut st);
        // merging per transition would serialise the search: keep findings and counters only
        if !st.findings.is_empty() || st.evaluations > 0 {
            let mut g = self.stats.lock().unwrap();
            g.evaluations += st.evaluations;
            g.distinct_nontrivial.extend(st.distinct_nontrivial);
            for (k, v) in st.outcomes {
                *g.outcomes.entry(k).or_insert(0) += v;
            }
            for (_, (f, _)) in st.findings {
                g.finding(f);
            }
        }
        n
    }
    fn properties(&self) -> Vec<Property<Self>> {
        vec![Property::always("enumerate", |_, _| true)]
    }
}

pub fn combos(k: usize, lens: &[usize], two_messages: bool) -> Vec<Combo> {
    let mut v = vec![];
    let n = lens.len().pow(k as u32);
    for idx in 0..n {
        let mut x = idx;
        let mut streams = vec![];
        for _ in 0..k {
            streams.push(vec![lens[x % lens.len()]]);
            x /= lens.len();
        }
        v.push(Combo { streams });
    }
    if two_messages {
        // a channel that sends two messages back to back, against one or two other channels
        for a in [58usize, 117] {
            for b in [0usize, 58, 175] {
                v.push(Combo { streams: vec![vec![a, b], vec![116]] });
                v.push(Combo { streams: vec![vec![a, b], vec![b, a]] });
                if k >= 3 {
                    v.push(Combo { streams: vec![vec![a, b], vec![117], vec![b]] });
                }
            }
        }
    }
    v
}

fn explore(cs: Vec<Combo>, threads: usize) -> Result<(u64, u64, Stats), String> {
    let plans: Result<Vec<Plan>, String> = cs.iter().map(plan).collect();
    let transitions = Arc::new(AtomicU64::new(0));
    let stats = Arc::new(Mutex::new(Stats::new()));
    let model = Hid { combos: cs, plans: plans?, transitions: transitions.clone(), stats: stats.clone() };
    let checker = model.checker().threads(threads).spawn_bfs().join();
    let states = checker.unique_state_count() as u64;
    let st = std::mem::take(&mut *stats.lock().unwrap());
    Ok((states, transitions.load(Ordering::Relaxed), st))
}

/// Cross-check without the hook and without deduplication: every complete interleaving replayed
/// from scratch on a fresh handler.
fn plain_enumeration(c: &Combo, st: &mut Stats) -> Result<u64, String> {
    let p = plan(c)?;
    let k = p.packets.len();
    let mut count = 0u64;
    let mut order: Vec<u8> = vec![];
    let mut pos = vec![0usize; k];
    fn rec(p: &Plan, c: &Combo, pos: &mut Vec<usize>, order: &mut Vec<u8>, count: &mut u64, st: &mut Stats) {
        let k = p.packets.len();
        if (0..k).all(|i| pos[i] == p.packets[i].len()) {
            *count += 1;
            let mut h = ChannelHandler::default();
            let mut at = vec![0usize; k];
            for &s in order.iter() {
                let s = s as usize;
                let (pkt, completes) = &p.packets[s][at[s]];
                at[s] += 1;
                let out = par::catch(|| h.handle_packet(pkt).map(|m| (m.channel, m.command.encode(), m.payload)));
                let ok = match (&out, completes) {
                    (Ok(None), None) => true,
                    (Ok(Some((ch, cmd, pl))), Some(mi)) => *ch == STREAM_CH[s] && *cmd == p.messages[s][*mi].0 && *pl == p.messages[s][*mi].1,
                    _ => false,
                };
                if !ok {
                    st.finding(Finding::new("interleave/kind=plain-enumeration-mismatch", format!("stream {s}: wrong delivery in a complete interleaving ({out:?} vs completes={completes:?})").chars().take(300).collect::<String>(), json!({"interleave": {"combo": c, "order": order}})));
                }
            }
            return;
        }
        for i in 0..k {
            if pos[i] < p.packets[i].len() {
                pos[i] += 1;
                order.push(i as u8);
                rec(p, c, pos, order, count, st);
                order.pop();
                pos[i] -= 1;
            }
        }
    }
    rec(&p, c, &mut pos, &mut order, &mut count, st);
    Ok(count)
}

// ------------------------------------------------------------------------------------------
// many channels at once: n channels each start a two-packet message (optionally channel 0 starts
// twice), then each sends its second packet; every message is delivered on its last packet.

#[derive(Clone, Debug, Serialize, Deserialize, PartialEq, Eq, Hash)]
pub struct Many {
    pub channels: usize,
    /// the first channel sends its initialisation packet twice (a restarted transaction)
    pub restart_first: bool,
    /// second packets arrive in reverse channel order
    pub reverse: bool,
}
pub fn many_cases(tier: Tier) -> Vec<Many> {
    let mut v = vec![];
    for channels in [1usize, 2, 3, 16, 63, 64, 65, 66, 100, 127, 128, 129, 255, 256, 257, 300].into_iter().chain(tier.pick(vec![], vec![1000, 4096])) {
        for restart_first in [false, true] {
            for reverse in [false, true] {
                v.push(Many { channels, restart_first, reverse });
            }
        }
    }
    v
}
pub fn eval_many(c: &Many) -> Vec<Finding> {
    let case = json!({"many_channels": c});
    let mut fs = vec![];
    let r = par::catch(|| -> Result<Option<String>, String> {
        let mut h = ChannelHandler::default();
        let mut firsts = vec![];
        let mut seconds = vec![];
        let payload = |ch: u32| -> Vec<u8> { (0..80u32).map(|i| (i ^ ch) as u8).collect() };
        for k in 0..c.channels {
            let ch = 0x1000 + k as u32;
            let wire = send(ch, Command::Cbor, &payload(ch))?.ok_or("harness: sender refused a short message")?;
            let ps: Vec<Vec<u8>> = wire.chunks(64).map(|p| p.to_vec()).collect();
            firsts.push(ps[0].clone());
            seconds.push((ch, ps[1].clone()));
        }
        for (k, p) in firsts.iter().enumerate() {
            if h.handle_packet(p).is_some() {
                return Ok(Some(format!("channel #{k} delivered on its first packet")));
            }
            if k == 0 && c.restart_first && h.handle_packet(p).is_some() {
                return Ok(Some("channel #0 delivered on its repeated first packet".into()));
            }
        }
        if c.reverse {
            seconds.reverse();
        }
        for (ch, p) in &seconds {
            match h.handle_packet(p) {
                Some(m) if m.channel == *ch && m.payload == payload(*ch) => {}
                Some(_) => return Ok(Some(format!("channel {ch:#x}: another message was delivered on its last packet"))),
                None => return Ok(Some(format!("channel {ch:#x}: no message on its last packet while {} channels were transmitting", c.channels))),
            }
        }
        Ok(None)
    });
    match r {
        Err(p) => fs.push(Finding::new(format!("many-channels/kind=panic/site={}", par::panic_site(&p)), format!("{} channels transmitting at once: {p}", c.channels), case)),
        Ok(Err(e)) => fs.push(Finding::new("many-channels/kind=harness", e, case)),
        Ok(Ok(Some(d))) => fs.push(Finding::new("many-channels/kind=message-lost", d, case)),
        Ok(Ok(None)) => {}
    }
    fs
}

// ------------------------------------------------------------------------------------------
// a channel that abandons a message: after its initialisation packet and k continuation packets
// the sender starts over with another message on the same channel.  The new message (and the one
// after it) is delivered exactly as a fresh receiver would deliver it.
pub fn eval_restart(k: usize, len1: usize, len2: usize) -> Vec<Finding> {
    let case = json!({"restart": {"k": k, "len1": len1, "len2": len2}});
    let ch = 0x0e0e_0003u32;
    let r = par::catch(|| -> Result<Option<String>, String> {
        let p1: Vec<u8> = (0..len1).map(|i| (i % 249) as u8).collect();
        let p2: Vec<u8> = (0..len2).map(|i| (i % 247) as u8 ^ 0x55).collect();
        let w1: Vec<Vec<u8>> = send(ch, Command::Cbor, &p1)?.ok_or("harness: refused")?.chunks(64).map(|p| p.to_vec()).collect();
        let w2: Vec<Vec<u8>> = send(ch, Command::Msg, &p2)?.ok_or("harness: refused")?.chunks(64).map(|p| p.to_vec()).collect();
        if w1.len() < k + 2 {
            return Ok(None); // the first message would be complete: not an abandonment
        }
        let mut h = ChannelHandler::default();
        for p in w1.iter().take(1 + k) {
            if h.handle_packet(p).is_some() {
                return Ok(Some("the abandoned message was delivered before its last packet".into()));
            }
        }
        for round in 0..2 {
            let mut got = None;
            for (i, p) in w2.iter().enumerate() {
                let r = h.handle_packet(p);
                if r.is_some() && i + 1 < w2.len() {
                    return Ok(Some(format!("round {round}: delivered early at packet {i}")));
                }
                got = r;
            }
            match got {
                Some(m) if m.channel == ch && m.payload == p2 && m.command.encode() == 0x83 => {}
                Some(m) => return Ok(Some(format!("round {round}: the message after the abandoned one arrives altered ({} bytes, command {:#04x})", m.payload.len(), m.command.encode()))),
                None => return Ok(Some(format!("round {round}: after a message of {len1} bytes was abandoned following its initialisation packet and {k} continuation packet(s), the next message of {len2} bytes on the same channel is not delivered"))),
            }
        }
        Ok(None)
    });
    match r {
        Err(p) => vec![Finding::new(format!("restart/kind=panic/site={}", par::panic_site(&p)), p, case)],
        Ok(Err(e)) => vec![Finding::new("restart/kind=harness", e, case)],
        Ok(Ok(Some(d))) => vec![Finding::new("restart/kind=message-lost-or-altered", d, case)],
        Ok(Ok(None)) => vec![],
    }
}

// ------------------------------------------------------------------------------------------
// a long-lived receiver: after any number of completed messages the handler reassembles the next
// one like a fresh handler does (no budget, counter or table that fills up over its lifetime)
pub fn eval_long_lived(messages: usize) -> Vec<Finding> {
    let case = json!({"long_lived": {"messages": messages}});
    let r = par::catch(|| -> Result<Option<String>, String> {
        let lens = [58usize, 117, 60, 1, 176, 59];
        let chans = [0x0c0c_0001u32, 0x0c0c_0002, 0x7fff_fff0];
        // pre-built wires per (channel, length)
        let mut wires: Vec<Vec<(Vec<Vec<u8>>, Vec<u8>)>> = vec![];
        for (ci, ch) in chans.iter().enumerate() {
            let mut per = vec![];
            for (li, l) in lens.iter().enumerate() {
                let payload: Vec<u8> = (0..*l).map(|i| (i as u8).wrapping_mul(5).wrapping_add((ci * 8 + li) as u8)).collect();
                let w = send(*ch, Command::Cbor, &payload)?.ok_or("harness: sender refused a short message")?;
                per.push((w.chunks(64).map(|p| p.to_vec()).collect::<Vec<_>>(), payload));
            }
            wires.push(per);
        }
        let big: Vec<u8> = (0..7608usize).map(|i| (i % 251) as u8).collect();
        let big_wire: Vec<Vec<u8>> = send(0x0d0d_0009, Command::Cbor, &big)?.ok_or("harness: sender refused the 7608-byte message")?.chunks(64).map(|p| p.to_vec()).collect();
        let mut h = ChannelHandler::default();
        let probe_at: Vec<usize> = (0..).map(|k| 1usize << k).take_while(|n| *n < messages).chain([messages]).collect();
        for m in 0..=messages {
            if probe_at.contains(&m) {
                // the maximal message, after m completed messages
                let mut got = None;
                for (i, p) in big_wire.iter().enumerate() {
                    let r = h.handle_packet(p);
                    if i + 1 < big_wire.len() && r.is_some() {
                        return Ok(Some(format!("after {m} completed messages: the 7608-byte message was delivered early (packet {i})")));
                    }
                    got = r;
                }
                match got {
                    Some(x) if x.payload == big && x.channel == 0x0d0d_0009 => {}
                    Some(_) => return Ok(Some(format!("after {m} completed messages: the 7608-byte message was delivered altered"))),
                    None => return Ok(Some(format!("after {m} completed messages on this handler a 7608-byte message is no longer delivered (a fresh handler delivers it)"))),
                }
            }
            if m == messages {
                break;
            }
            let (ps, payload) = &wires[m % chans.len()][(m / chans.len()) % lens.len()];
            let mut got = None;
            for p in ps {
                got = h.handle_packet(p);
            }
            match got {
                Some(x) if x.payload == *payload => {}
                Some(_) => return Ok(Some(format!("message #{m} ({} bytes) was delivered altered", payload.len()))),
                None => return Ok(Some(format!("message #{m} ({} bytes, {} packets) was not delivered although {m} earlier messages on this handler were", payload.len(), ps.len()))),
            }
        }
        Ok(None)
    });
    match r {
        Err(p) => vec![Finding::new(format!("long-lived/kind=panic/site={}", par::panic_site(&p)), p, case)],
        Ok(Err(e)) => vec![Finding::new("long-lived/kind=harness", e, case)],
        Ok(Ok(Some(d))) => vec![Finding::new("long-lived/kind=message-lost", d, case)],
        Ok(Ok(None)) => vec![],
    }
}

// ------------------------------------------------------------------------------------------
// every command with short payloads of every value class on one channel, against traffic on
// another: a complete message of any command on channel A - whatever its payload says - does not
// make the receiver lose, delay or alter the messages of channel B or the next message of A.
// The receiver hands complete messages to its caller; it has no business interpreting them.
pub const CROSS_PAYLOADS: [&[u8]; 14] = [&[], &[0], &[1], &[2], &[5], &[10], &[11], &[0x7f], &[0xff], &[1, 0], &[0, 1], &[10, 10, 10, 10], &[1, 2, 3, 4, 5, 6, 7, 8], &[0; 17]];
#[derive(Clone, Debug, serde::Serialize, serde::Deserialize, Hash)]
pub struct Cross {
    pub cmd: usize,
    pub payload: usize,
    /// 0: A's message, then B's whole message, then A again; 1: B's first packet, A's message, B's
    /// remaining packets, then A again; 2: A's message twice, then B; 3: as 0 with B = the broadcast channel
    pub order: u8,
}
pub fn cross_cases() -> Vec<Cross> {
    let mut v = vec![];
    for cmd in 0..9 {
        for payload in 0..CROSS_PAYLOADS.len() + 28 {
            for order in 0..5u8 {
                v.push(Cross { cmd, payload, order });
            }
        }
    }
    v
}
/// payloads 0..14 are the fixed ones; 14..28 are 17 bytes (the size of an INIT answer) holding the
/// OTHER channel's id in little-endian at offset 0..13, 28..42 the same in big-endian: what a message
/// says about another channel is content, not an instruction to the receiver
fn cross_payload(idx: usize, other: u32) -> Vec<u8> {
    if idx < CROSS_PAYLOADS.len() {
        return CROSS_PAYLOADS[idx].to_vec();
    }
    let k = idx - CROSS_PAYLOADS.len();
    let mut p: Vec<u8> = (0..17u8).map(|i| 0xA0 + i).collect();
    let (off, bytes) = if k < 14 { (k, other.to_le_bytes()) } else { ((k - 14) % 14, other.to_be_bytes()) };
    p[off..off + 4].copy_from_slice(&bytes);
    p
}
pub fn eval_cross(c: &Cross) -> Vec<Finding> {
    let case = json!({"cross_command": c});
    let (cmd, byte) = COMMANDS[c.cmd % 9];
    // order 4: as order 1 with the broadcast channel as the sender of the short message
    let a_ch = if c.order == 4 { 0xffff_ffffu32 } else { 0x0a0a_0001u32 };
    let b_ch = if c.order == 3 { 0xffff_ffffu32 } else { 0x0b0b_0002u32 };
    let a_payload = cross_payload(c.payload, b_ch);
    let b_payload: Vec<u8> = (0..100u8).collect();
    let a2_payload: Vec<u8> = (0..70u8).map(|i| i ^ 0x5a).collect();
    let r = par::catch(|| -> Result<Option<String>, String> {
        let a = send(a_ch, cmd, &a_payload)?.ok_or("harness: sender refused a short message")?;
        let b = send(b_ch, Command::Ping, &b_payload)?.ok_or("harness: sender refused a short message")?;
        let a2 = send(a_ch, Command::Cbor, &a2_payload)?.ok_or("harness: sender refused a short message")?;
        let pk = |w: &[u8]| -> Vec<Vec<u8>> { w.chunks(64).map(|p| p.to_vec()).collect() };
        let (ap, bp, a2p) = (pk(&a), pk(&b), pk(&a2));
        // (packet, what must be delivered by it)
        let mut seq: Vec<(Vec<u8>, Option<(u32, u8, Vec<u8>)>)> = vec![];
        let whole = |ps: &[Vec<u8>], want: (u32, u8, Vec<u8>), seq: &mut Vec<(Vec<u8>, Option<(u32, u8, Vec<u8>)>)>| {
            for (i, p) in ps.iter().enumerate() {
                seq.push((p.clone(), (i + 1 == ps.len()).then(|| want.clone())));
            }
        };
        let a_want = (a_ch, byte | 0x80, a_payload.clone());
        let b_want = (b_ch, 0x81u8, b_payload.clone());
        let a2_want = (a_ch, 0x90u8, a2_payload.clone());
        match c.order {
            1 | 4 => {
                seq.push((bp[0].clone(), None));
                whole(&ap, a_want.clone(), &mut seq);
                for (i, p) in bp.iter().enumerate().skip(1) {
                    seq.push((p.clone(), (i + 1 == bp.len()).then(|| b_want.clone())));
                }
                whole(&a2p, a2_want.clone(), &mut seq);
            }
            2 => {
                whole(&ap, a_want.clone(), &mut seq);
                whole(&ap, a_want.clone(), &mut seq);
                whole(&bp, b_want.clone(), &mut seq);
                whole(&a2p, a2_want.clone(), &mut seq);
            }
            _ => {
                whole(&ap, a_want.clone(), &mut seq);
                whole(&bp, b_want.clone(), &mut seq);
                whole(&a2p, a2_want.clone(), &mut seq);
            }
        }
        let mut h = ChannelHandler::default();
        for (i, (p, want)) in seq.iter().enumerate() {
            let got = h.handle_packet(p).map(|m| (m.channel, m.command.encode(), m.payload.clone()));
            if got != *want {
                return Ok(Some(format!("packet {i} of the sequence: delivered {:?}, expected {:?} (after a complete {:#04x} message with payload {:02x?} on channel {a_ch:#x})", got.as_ref().map(|g| (g.0, g.1, g.2.len())), want.as_ref().map(|g| (g.0, g.1, g.2.len())), byte | 0x80, a_payload)));
            }
        }
        Ok(None)
    });
    match r {
        Err(p) => vec![Finding::new(format!("cross-command/kind=panic/site={}", par::panic_site(&p)), p, case)],
        Ok(Err(e)) => vec![Finding::new("cross-command/kind=harness", e, case)],
        Ok(Ok(Some(d))) => vec![Finding::new("cross-command/kind=message-lost-or-altered", d, case)],
        Ok(Ok(None)) => vec![],
    }
}

// ------------------------------------------------------------------------------------------
// a writer that fails: whatever `send` returns, it never reports success for a message whose
// packets were not all handed to the writer, in order.

struct FailingWriter {
    calls: usize,
    fail_at: usize,
    kind: std::io::ErrorKind,
    /// fail only once (the next write succeeds)
    once: bool,
    written: Vec<u8>,
}
impl std::io::Write for FailingWriter {
    fn write(&mut self, buf: &[u8]) -> std::io::Result<usize> {
        let k = self.calls;
        self.calls += 1;
        if k == self.fail_at || (!self.once && k > self.fail_at) {
            return Err(std::io::Error::new(self.kind, "harness: injected write failure"));
        }
        self.written.extend_from_slice(buf);
        Ok(buf.len())
    }
    fn flush(&mut self) -> std::io::Result<()> {
        Ok(())
    }
}
pub fn eval_failing_writer(len: usize, fail_at: usize, kind: u8, once: bool) -> Vec<Finding> {
    use std::io::ErrorKind as K;
    let kinds = [K::Interrupted, K::WouldBlock, K::BrokenPipe, K::Other, K::TimedOut];
    let case = json!({"failing_writer": {"len": len, "fail_at": fail_at, "kind": kind, "once": once}});
    let mut fs = vec![];
    let payload: Vec<u8> = (0..len).map(|i| (i % 249) as u8).collect();
    let Ok(Some(wire)) = send(1, Command::Cbor, &payload) else { return fs };
    let r = par::catch(|| {
        let m = Message::new(1, Command::Cbor, &payload).map_err(|_| ())?;
        let mut w = FailingWriter { calls: 0, fail_at, kind: kinds[kind as usize % kinds.len()], once, written: vec![] };
        let res = m.send(&mut w);
        Ok::<_, ()>((res.is_ok(), w.written))
    });
    match r {
        Err(p) => fs.push(Finding::new(format!("failing-writer/kind=panic/site={}", par::panic_site(&p)), p, case)),
        Ok(Err(())) => {}
        Ok(Ok((ok, written))) => {
            if ok && written != wire {
                fs.push(Finding::new("failing-writer/kind=success-reported-for-incomplete-message", format!("write call #{fail_at} failed with {:?}{}; send returned Ok although the writer received {} of {} bytes{}", kinds[kind as usize % kinds.len()], if once { " once" } else { " from then on" }, written.len(), wire.len(), if wire.starts_with(&written) { "" } else { " (not even a prefix: a packet is missing in the middle)" }), case));
            } else if !ok && !wire.starts_with(&written) {
                fs.push(Finding::new("failing-writer/kind=packets-out-of-order-after-failure", format!("after a failed write the writer holds {} bytes that are not a prefix of the message's packets", written.len()), case));
            }
        }
    }
    fs
}

// ------------------------------------------------------------------------------------------
// starvation: one channel is held back between two of its packets while other channels send
// `gap` packets (whole messages); its message must still be delivered on its last packet.
// Deterministic family: victim length x position of the gap x gap size x traffic shape.

#[derive(Clone, Debug, Serialize, Deserialize, PartialEq, Eq, Hash)]
pub struct Starve {
    /// victim payload length (3 packets: 57 + 59 + rest)
    pub len: usize,
    /// the gap opens after this many victim packets (1 or 2)
    pub after: usize,
    /// packets sent by the other channels during the gap
    pub gap: usize,
    /// 0: one other channel sending maximal messages; 1: two other channels alternating one-packet
    /// messages; 2: one other channel sending 2-packet messages
    pub traffic: u8,
}
pub fn starvations(tier: Tier) -> Vec<Starve> {
    let mut v = vec![];
    let gaps: Vec<usize> = (0..=tier.pick(300, 1100)).chain([1024, 2048, 4096, 10_000]).collect();
    for gap in gaps {
        for after in [1usize, 2] {
            for traffic in 0..3u8 {
                v.push(Starve { len: 150, after, gap, traffic });
            }
        }
    }
    v
}
pub fn eval_starve(c: &Starve) -> Vec<Finding> {
    let case = json!({"starve": c});
    let mut fs = vec![];
    let mut bad = |kind: &str, d: String| fs.push(Finding::new(format!("starve/kind={kind}"), d, case.clone()));
    let r = par::catch(|| -> Result<Option<String>, String> {
        let victim_payload: Vec<u8> = (0..c.len).map(|i| (i % 253) as u8).collect();
        let wire = send(STREAM_CH[0], Command::Cbor, &victim_payload)?.ok_or("harness: sender refused the victim message")?;
        let vp: Vec<&[u8]> = wire.chunks(64).collect();
        let mut h = ChannelHandler::default();
        let mut sent = 0usize;
        for p in &vp[..c.after.min(vp.len() - 1)] {
            if h.handle_packet(p).is_some() {
                return Ok(Some("victim delivered before its last packet".into()));
            }
        }
        // the gap: whole messages of other channels, each checked for delivery
        let mut k = 0usize;
        while sent < c.gap {
            let (ch, len) = match c.traffic {
                0 => (STREAM_CH[1], (MAX - 1).min(57 + 59 * (c.gap - sent).saturating_sub(1))),
                1 => (STREAM_CH[1 + k % 2], 10 + k % 40),
                _ => (STREAM_CH[1], 58 + k % 50),
            };
            let payload: Vec<u8> = (0..len).map(|i| (i as u8) ^ (k as u8)).collect();
            let w = send(ch, Command::Ping, &payload)?.ok_or("harness: sender refused a gap message")?;
            let ps: Vec<&[u8]> = w.chunks(64).collect();
            for (i, p) in ps.iter().enumerate() {
                let out = h.handle_packet(p);
                sent += 1;
                match (out, i + 1 == ps.len()) {
                    (Some(m), true) if m.payload == payload && m.channel == ch => {}
                    (Some(_), true) => return Ok(Some(format!("gap message {k} delivered with other content"))),
                    (None, true) => return Ok(Some(format!("gap message {k} was not delivered"))),
                    (Some(_), false) => return Ok(Some(format!("gap message {k} delivered early"))),
                    (None, false) => {}
                }
            }
            k += 1;
        }
        let rest = &vp[c.after.min(vp.len() - 1)..];
        for (i, p) in rest.iter().enumerate() {
            match (h.handle_packet(p), i + 1 == rest.len()) {
                (Some(m), true) => {
                    if m.payload != victim_payload || m.channel != STREAM_CH[0] {
                        return Ok(Some("the held-back message was delivered with other content".into()));
                    }
                }
                (None, true) => return Ok(Some(format!("the held-back message was not delivered on its last packet ({sent} packets of other channels in between)"))),
                (Some(_), false) => return Ok(Some("the held-back message was delivered early".into())),
                (None, false) => {}
            }
        }
        Ok(None)
    });
    match r {
        Err(p) => bad(&format!("panic/site={}", par::panic_site(&p)), p),
        Ok(Err(e)) => bad("harness", e),
        Ok(Ok(Some(d))) => bad("held-back-message-lost", d),
        Ok(Ok(None)) => {}
    }
    fs
}

pub fn run(ctx: &Ctx) -> Result<Run, String> {
    let ss = singles(ctx.tier);
    let mut stats = par::sweep_cases(&ss, ctx.threads, |c, st| {
        let (fs, o) = eval_single(c);
        st.case(c, true, o);
        st.findings_from(fs);
    });
    stats.count("single_channel_messages", ss.len() as u64);
    for c in ss.iter().step_by(ss.len() / 3 + 1) {
        stats.samples.push(json!({"single": c}));
    }
    // interleavings
    let mut cs = combos(2, &LENS, true);
    cs.extend(combos(3, &LENS, true));
    cs.extend(combos(4, &LENS, false));
    if ctx.tier == Tier::Thorough {
        // longer streams (5 and 6 packets) for two and three channels
        cs.extend(combos(2, &[0, 58, 117, 234, 293, 352], false));
        cs.extend(combos(3, &[58, 234, 293, 352], false));
    }
    let ncombos = cs.len();
    let sample_combo = cs[cs.len() / 2].clone();
    let (states, transitions, st) = explore(cs.clone(), ctx.threads)?;
    stats.merge(st);
    // determinism / dedup soundness: a second run with another thread count must agree
    let (states2, transitions2, _) = explore(cs.clone(), (ctx.threads / 2).max(1))?;
    let nondeterministic = states != states2 || transitions != transitions2;
    if nondeterministic && stats.findings.is_empty() {
        // counts differ between two runs and nothing was found: the search itself cannot be trusted
        return Err(format!("HID interleaving search not deterministic: {states}/{transitions} vs {states2}/{transitions2}"));
    }
    let n_pk: Vec<usize> = plan(&sample_combo).map(|p| p.packets.iter().map(|x| x.len()).collect()).unwrap_or_default();
    let mut round_robin: Vec<u8> = vec![];
    for r in 0..*n_pk.iter().max().unwrap_or(&0) {
        for (i, n) in n_pk.iter().enumerate() {
            if r < *n {
                round_robin.push(i as u8);
            }
        }
    }
    stats.samples.push(json!({"interleave": {"combo": sample_combo, "order": round_robin, "note": "one of the orders; all orders of every combination are explored"}}));
    // plain enumeration (no hook, no dedup) for k = 2 (all) and k = 3 (lengths up to 3 packets)
    let mut plain: Vec<Combo> = combos(2, &LENS, true);
    plain.extend(combos(3, &[0, 58, 117, 175], false));
    let plain_stats = par::sweep_cases(&plain, ctx.threads, |c, st| match plain_enumeration(c, st) {
        Ok(n) => st.count("plain_complete_interleavings", n),
        Err(e) => st.finding(Finding::new("interleave/kind=harness-plan-failed", e, json!({"interleave": {"combo": c, "order": []}}))),
    });
    stats.merge(plain_stats);
    // many channels at once; failing writers
    let mc = many_cases(ctx.tier);
    let mc_stats = par::sweep_cases(&mc, ctx.threads, |c, st| {
        st.case(c, true, "many-channels");
        st.findings_from(eval_many(c));
    });
    stats.merge(mc_stats);
    {
        let n = ctx.tier.pick(600_000usize, 6_000_000);
        stats.case(&("long-lived", n), true, "long-lived-handler");
        stats.count("long_lived_messages", n as u64);
        stats.findings_from(eval_long_lived(n));
    }
    for k in 0..6usize {
        for len1 in [117usize, 300, 1000, 7608] {
            for len2 in [0usize, 57, 58, 117, 300, 7608] {
                stats.case(&("restart", k, len1, len2), true, "restart-after-partial-message");
                stats.findings_from(eval_restart(k, len1, len2));
            }
        }
    }
    let cc = cross_cases();
    let cc_stats = par::sweep_cases(&cc, ctx.threads, |c, st| {
        st.case(c, true, "cross-command");
        st.findings_from(eval_cross(c));
    });
    stats.merge(cc_stats);
    let mut fw: Vec<(usize, usize, u8, bool)> = vec![];
    for len in [0usize, 57, 58, 116, 117, 300, 7608] {
        let packets = if len <= 57 { 1 } else { 1 + (len - 57).div_ceil(59) };
        for fail_at in (0..packets.min(8)).chain(packets.saturating_sub(2)..packets) {
            for kind in 0..5u8 {
                for once in [true, false] {
                    fw.push((len, fail_at, kind, once));
                }
            }
        }
    }
    fw.sort();
    fw.dedup();
    let fw_stats = par::sweep_cases(&fw, ctx.threads, |c, st| {
        st.case(c, true, "failing-writer");
        st.findings_from(eval_failing_writer(c.0, c.1, c.2, c.3));
    });
    stats.merge(fw_stats);
    // starvation family
    let sv = starvations(ctx.tier);
    let sv_stats = par::sweep_cases(&sv, ctx.threads, |c, st| {
        st.case(c, true, "starvation");
        st.count("starvation_gap_packets", c.gap as u64);
        st.findings_from(eval_starve(c));
    });
    stats.merge(sv_stats);
    stats.samples.push(json!({"starve": sv[sv.len() / 2]}));
    let mut run = Run::from_stats(
        "model_checking",
        "single channel: every payload length 0..7700 and 65535/65536/70000 (all 9 commands x 4 channel ids at the boundary lengths, rotating command/channel and 3 content patterns elsewhere): written into a Vec, into a writer that only implements write/flush (same bytes) and into a buffering adapter that hands each flush as one report to a report-oriented device (the receiver fed with 64 bytes of each report gets the message); written bytes parsed by the harness (64-byte packets, header layout, sequence numbers, zero padding, packet count) and fed to a fresh receiver, and the message the receiver delivers is sent again (must be written as the same packets); interleavings: stateright BFS whose state is the real ChannelHandler (cloned via the verif hook) plus the next-packet index per stream, over all combinations of 2, 3 and 4 concurrently transmitting channels with payload lengths from {0,57,58,116,117,175,234} (1..4 packets; thorough adds streams of 5 and 6 packets for 2 and 3 channels), channels sending two messages back to back, and one stray continuation packet for an idle channel at any point; deduplicated on (indices, hook snapshot); run twice with different thread counts; cross-checked by a hook-free enumeration of all complete interleavings for 2 and 3 channels; many channels: 1..300 (thorough 4096) channels each start a two-packet message (the first optionally twice) and then complete, in channel order and in reverse – every message is delivered; abandoned messages: a channel sends the initialisation packet and 0..5 continuation packets of a message of 117..7608 bytes and then starts over with another message of 0..7608 bytes, twice - each is delivered as by a fresh receiver; a long-lived receiver: 600 000 (thorough 6 000 000) completed messages of 1..3 packets on three channels through ONE handler, each delivered unaltered, and after 1, 2, 4, ... and all of them the maximal 7608-byte message is still reassembled; commands across channels: a complete message of each of the 9 commands with 14 short payloads (empty, single bytes 0/1/2/5/10/11/0x7f/0xff, pairs, 4, 8 and 17 bytes, and 17-byte payloads holding the other channel's id at every offset in both byte orders) on one channel (also sent from the broadcast channel) before, inside or twice before a two-packet message of another channel (also the broadcast channel), followed by a further message of the first channel - every message is delivered, unaltered, by its own last packet; failing writers: a write call fails at any of the first eight / last two packets with five error kinds, once or from then on – success is never reported for a message the writer did not receive in full and in order; starvation: a 3-packet message held back after its first / second packet while other channels send every number of packets 0..300 (thorough 0..1100) and 1024, 2048, 4096, 10000 as whole messages in three traffic shapes (maximal messages, two channels alternating single packets, 2-packet messages), each of which must be delivered too",
        true,
        stats,
    );
    run.graph(states, transitions, transitions);
    run.set("stream_combinations", json!(ncombos));
    run.set("second_run_counts_differ", json!(nondeterministic));
    run.assume("the long-stream interleavings the quantifier mentions as 'sampled' are not sampled (sampling is another technique): long streams are covered one channel at a time, interleavings exhaustively for streams of up to 4 packets; 7609 bytes itself may be refused (the statement only forbids accepting more)");
    Ok(run)
}

pub fn replay(_ctx: &Ctx, case: &Value) -> Result<Vec<Finding>, String> {
    if let Some(m) = case.get("many_channels") {
        let c: Many = serde_json::from_value(m.clone()).map_err(|e| format!("bad C16 case: {e}"))?;
        return Ok(eval_many(&c));
    }
    if let Some(m) = case.get("restart") {
        return Ok(eval_restart(m["k"].as_u64().unwrap_or(0) as usize, m["len1"].as_u64().unwrap_or(0) as usize, m["len2"].as_u64().unwrap_or(0) as usize));
    }
    if let Some(m) = case.get("long_lived") {
        return Ok(eval_long_lived(m["messages"].as_u64().unwrap_or(0) as usize));
    }
    if let Some(m) = case.get("cross_command") {
        let c: Cross = serde_json::from_value(m.clone()).map_err(|e| format!("bad C16 case: {e}"))?;
        return Ok(eval_cross(&c));
    }
    if let Some(f) = case.get("failing_writer") {
        return Ok(eval_failing_writer(f["len"].as_u64().unwrap_or(0) as usize, f["fail_at"].as_u64().unwrap_or(0) as usize, f["kind"].as_u64().unwrap_or(0) as u8, f["once"].as_bool().unwrap_or(true)));
    }
    if let Some(sv) = case.get("starve") {
        let c: Starve = serde_json::from_value(sv.clone()).map_err(|e| format!("bad C16 starvation case: {e}"))?;
        return Ok(eval_starve(&c));
    }
    if let Some(s) = case.get("single") {
        let c: Single = serde_json::from_value(s.clone()).map_err(|e| e.to_string())?;
        return Ok(eval_single(&c).0);
    }
    let il = &case["interleave"];
    let combo: Combo = serde_json::from_value(il["combo"].clone()).map_err(|e| format!("bad C16 case: {e}"))?;
    let order: Vec<u8> = serde_json::from_value(il["order"].clone()).map_err(|e| format!("bad C16 order: {e}"))?;
    let p = plan(&combo)?;
    let mut s = HState { init: 0, pos: vec![0; combo.streams.len()], handler: ChannelHandler::default(), hist: vec![] };
    let mut out = vec![];
    for (i, a) in order.iter().enumerate() {
        let mut st = Stats::new();
        if (*a as usize) < p.packets.len() && s.pos[*a as usize] as usize >= p.packets[*a as usize].len() {
            return Err("replay order exceeds a stream".into());
        }
        s = deliver(&p, &combo, 0, &s, *a, &mut st).ok_or("replay failed")?;
        if i + 1 == order.len() {
            out = st.findings.into_values().map(|x| x.0).collect();
        }
    }
    // complete orders also get the plain check
    let mut st = Stats::new();
    if order.len() == p.packets.iter().map(|x| x.len()).sum::<usize>() && !order.contains(&(p.packets.len() as u8)) {
        let _ = plain_enumeration(&combo, &mut st);
        out.extend(st.findings.into_values().map(|x| x.0).filter(|f| f.case["interleave"]["order"] == il["order"]));
    }
    Ok(out)
}
