//! C06 – private keys and PRF secrets never appear in anything handed back to callers.
use super::common::*;
use crate::core::exec::block_on;
use crate::core::par;
use crate::core::report::*;
use crate::drivers::*;
use crate::oracles::b64;
use coset::CborSerializable;
use passkey_authenticator::U2fApi;
use passkey_types::ctap2::extensions::{AuthenticatorPrfInputs, AuthenticatorPrfValues};
use passkey_types::ctap2::{get_assertion, make_credential, Flags};
use passkey_types::u2f::{AuthenticationParameter, AuthenticationRequest, RegisterRequest};
use passkey_types::webauthn::{self, AuthenticationExtensionsPrfInputs as PrfIn, AuthenticationExtensionsPrfValues as PrfVals, UserVerificationRequirement as UVR};
use serde::{Deserialize, Serialize};
use serde_json::Value;

#[derive(Clone, Debug, Serialize, Deserialize, PartialEq, Eq, Hash)]
pub struct Case {
    /// client-register, client-authenticate, ctap-make, ctap-get, u2f-register, u2f-authenticate,
    /// get-info, error-paths
    pub op: String,
    pub hmac: u8,
    pub hmac_mc: bool,
    pub prf: u8, // 0 none, 1 eval first, 2 eval first+second
    pub verified: bool,
    pub mode: Mode,
    pub counter: bool,
    /// configured credential id length (None = default 16)
    #[serde(default)]
    pub id_len: Option<u8>,
    /// make-then-get: the 32-byte PRF salt(s) handed to getAssertion, hex
    #[serde(default)]
    pub salt: Option<String>,
    #[serde(default)]
    pub salt2: Option<String>,
}

/// Salts worth trying against a credential the library itself created: every string literal of
/// the library sources (current working tree), hashed with SHA-256 and zero-padded to 32 bytes,
/// plus a few structural values.  A derivation that relates the two PRF secrets, or a secret and a
/// public value, through such a constant shows up as a secret in the output.
pub fn dictionary_salts() -> Vec<[u8; 32]> {
    use sha2::{Digest, Sha256};
    let mut v: Vec<[u8; 32]> = vec![[0; 32], [0xff; 32], [9; 32]];
    for l in crate::core::dict::source_literals(&["passkey-authenticator", "passkey-types", "passkey-client"], 64) {
        v.push(Sha256::digest(&l).into());
        if l.len() <= 32 {
            let mut a = [0u8; 32];
            a[..l.len()].copy_from_slice(&l);
            v.push(a);
        }
        // the client's own salt derivation applied to the literal
        v.push(Sha256::digest([&b"WebAuthn PRF\0"[..], &l[..]].concat()).into());
    }
    v.sort();
    v.dedup();
    v
}

pub const OPS: [&str; 8] = ["client-register", "client-authenticate", "ctap-make", "ctap-get", "u2f-register", "u2f-authenticate", "get-info", "error-paths"];

pub fn cases() -> Vec<Case> {
    let mut v = vec![];
    for op in OPS {
        for hmac in 0..3u8 {
            for hmac_mc in [false, true] {
                for prf in 0..3u8 {
                    for verified in [false, true] {
                        for mode in MODES {
                            for counter in [false, true] {
                                let c = Case { op: op.into(), hmac, hmac_mc, prf, verified, mode, counter, id_len: None, salt: None, salt2: None };
                                let client = op.starts_with("client");
                                if !client && mode != Mode::Default {
                                    continue;
                                }
                                if op.starts_with("u2f") && (prf != 0 || hmac_mc) {
                                    continue;
                                }
                                // registrations also with the longest configurable credential ids
                                if (op == "client-register" || op == "ctap-make") && mode == Mode::Default {
                                    for n in [32u8, 48, 64] {
                                        v.push(Case { id_len: Some(n), ..c.clone() });
                                    }
                                }
                                v.push(c);
                            }
                        }
                    }
                }
            }
        }
    }
    // a credential created by the library itself, then asserted with dictionary salts
    let salts = dictionary_salts();
    for (i, s) in salts.iter().enumerate() {
        for hmac in 1..3u8 {
            for hmac_mc in [false, true] {
                for verified in [false, true] {
                    let s2 = (i % 7 == 0).then(|| hex(&salts[(i + 1) % salts.len()]));
                    v.push(Case { op: "make-then-get".into(), hmac, hmac_mc, prf: 1, verified, mode: Mode::Default, counter: true, id_len: None, salt: Some(hex(s)), salt2: s2.clone() });
                    if hmac == 2 {
                        v.push(Case { op: "client-make-then-get".into(), hmac, hmac_mc, prf: 1, verified, mode: Mode::Default, counter: true, id_len: None, salt: Some(hex(s)), salt2: s2 });
                    }
                }
            }
        }
    }
    v
}

fn unhex32(s: &str) -> [u8; 32] {
    let mut a = [0u8; 32];
    for (i, b) in a.iter_mut().enumerate() {
        *b = u8::from_str_radix(s.get(2 * i..2 * i + 2).unwrap_or("00"), 16).unwrap_or(0);
    }
    a
}

/// All textual / binary spellings under which `secret` is searched.
pub struct Needles {
    raw: Vec<u8>,
    texts: Vec<String>,
    /// comma-joined decimals, searched in the whitespace-stripped haystack
    decimal: String,
}
pub fn needles(secret: &[u8]) -> Needles {
    let mut texts = vec![];
    let hexl: String = secret.iter().map(|b| format!("{b:02x}")).collect();
    texts.push(hexl.to_uppercase());
    texts.push(hexl);
    // base64 / base64url in all three bit alignments, core characters only
    for k in 0..3usize {
        let mut padded = vec![0u8; k];
        padded.extend_from_slice(secret);
        let drop_front = (k * 8).div_ceil(6);
        let full_chars = (padded.len() * 8) / 6;
        for enc in [b64::std_nopad(&padded), b64::url_nopad(&padded)] {
            let core: String = enc.chars().skip(drop_front).take(full_chars - drop_front).collect();
            if !texts.contains(&core) {
                texts.push(core);
            }
        }
    }
    let decimal = secret.iter().map(|b| b.to_string()).collect::<Vec<_>>().join(",");
    Needles { raw: secret.to_vec(), texts, decimal }
}
fn find_bytes(h: &[u8], n: &[u8]) -> bool {
    !n.is_empty() && h.windows(n.len()).any(|w| w == n)
}
pub fn scan(hay: &[u8], n: &Needles) -> Option<&'static str> {
    if find_bytes(hay, &n.raw) {
        return Some("raw");
    }
    for (i, t) in n.texts.iter().enumerate() {
        if find_bytes(hay, t.as_bytes()) {
            return Some(if i < 2 { "hex" } else { "base64" });
        }
    }
    let stripped: Vec<u8> = hay.iter().copied().filter(|b| !b.is_ascii_whitespace()).collect();
    if find_bytes(&stripped, n.decimal.as_bytes()) {
        return Some("decimal-list");
    }
    None
}

fn cbor<T: serde::Serialize>(v: &T) -> Vec<u8> {
    let mut b = vec![];
    let _ = ciborium::ser::into_writer(v, &mut b);
    b
}

/// Runs the ceremony and returns the named outputs (everything handed back to the caller).
fn outputs(c: &Case, store: &Shared<RefStore>) -> Result<Vec<(String, Vec<u8>)>, String> {
    let mut out: Vec<(String, Vec<u8>)> = vec![];
    let log = Log::new();
    let uv = ScriptedUv { verification_cap: Some(true), presence_cap: true, outcome: UvOutcome::Ok { presence: true, verification: c.verified }, yields: 0, log: log.clone() };
    let cfg = AuthCfg { counter: c.counter, id_len: c.id_len, hmac: c.hmac, hmac_mc: c.hmac_mc, order: 0 };
    let uvr = if c.verified { UVR::Required } else { UVR::Discouraged };
    let prf_in = |n: u8| -> Option<PrfIn> { (n != 0).then(|| PrfIn { eval: Some(PrfVals { first: vec![1, 2, 3].into(), second: (n == 2).then(|| vec![4, 5].into()) }), eval_by_credential: None }) };
    let ctap_prf = |n: u8| -> Option<AuthenticatorPrfInputs> { (n != 0).then(|| AuthenticatorPrfInputs { eval: Some(AuthenticatorPrfValues { first: [9; 32], second: (n == 2).then_some([8; 32]) }), eval_by_credential: None }) };
    let mut push = |name: &str, dbg: String, pretty: String, ser: Vec<(&str, Vec<u8>)>| {
        out.push((format!("{name}:debug"), dbg.into_bytes()));
        out.push((format!("{name}:pretty-debug"), pretty.into_bytes()));
        for (k, b) in ser {
            out.push((format!("{name}:{k}"), b));
        }
    };
    par::catch(|| match c.op.as_str() {
        "client-register" | "client-authenticate" => {
            let mut client = passkey_client::Client::new(mk_auth(store.clone(), uv.clone(), &cfg));
            let ext = Some(webauthn::AuthenticationExtensionsClientInputs { cred_props: Some(true), prf: prf_in(c.prf), prf_already_hashed: None });
            if c.op == "client-register" {
                let sel = Some(webauthn::AuthenticatorSelectionCriteria { authenticator_attachment: None, resident_key: None, require_resident_key: true, user_verification: uvr });
                let r = register(&mut client, Org::HostIsRp, c.mode, creation_options(Reg { selection: sel, extensions: ext, ..Default::default() })).unwrap_or_else(|p| panic!("{p}"));
                match r {
                    Ok(cr) => push("CreatedPublicKeyCredential", format!("{cr:?}"), format!("{cr:#?}"), vec![("json", serde_json::to_vec(&cr).unwrap_or_default()), ("cbor", cbor(&cr))]),
                    Err(e) => push("WebauthnError", format!("{e:?}"), format!("{e:#?}"), vec![("json", serde_json::to_vec(&e).unwrap_or_default())]),
                }
            } else {
                let r = authenticate(&mut client, Org::HostIsRp, c.mode, request_options(Auth { uv: uvr, extensions: ext, ..Default::default() })).unwrap_or_else(|p| panic!("{p}"));
                match r {
                    Ok(cr) => push("AuthenticatedPublicKeyCredential", format!("{cr:?}"), format!("{cr:#?}"), vec![("json", serde_json::to_vec(&cr).unwrap_or_default()), ("cbor", cbor(&cr))]),
                    Err(e) => push("WebauthnError", format!("{e:?}"), format!("{e:#?}"), vec![("json", serde_json::to_vec(&e).unwrap_or_default())]),
                }
            }
        }
        "ctap-make" => {
            let mut auth = mk_auth(store.clone(), uv.clone(), &cfg);
            let ext = make_credential::ExtensionInputs { hmac_secret: Some(true), hmac_secret_mc: None, prf: ctap_prf(c.prf) };
            match block_on(auth.make_credential(mc_request("example.com", &[5], None, true, true, c.verified, false, Some(ext)))) {
                Ok(r) => push("make_credential::Response", format!("{r:?}"), format!("{r:#?}"), vec![("cbor", cbor(&r)), ("auth-data", r.auth_data.to_vec())]),
                Err(e) => push("StatusCode", format!("{e:?}"), format!("{e:#?}"), vec![]),
            }
        }
        "ctap-get" => {
            let mut auth = mk_auth(store.clone(), uv.clone(), &cfg);
            let ext = ctap_prf(c.prf).map(|p| get_assertion::ExtensionInputs { hmac_secret: None, prf: Some(p) });
            match block_on(auth.get_assertion(ga_request("example.com", None, false, true, c.verified, false, ext))) {
                Ok(r) => push("get_assertion::Response", format!("{r:?}"), format!("{r:#?}"), vec![("cbor", cbor(&r)), ("auth-data", r.auth_data.to_vec()), ("signature", r.signature.to_vec())]),
                Err(e) => push("StatusCode", format!("{e:?}"), format!("{e:#?}"), vec![]),
            }
        }
        "make-then-get" => {
            let mut auth = mk_auth(store.clone(), uv.clone(), &cfg);
            let first = unhex32(c.salt.as_deref().unwrap_or(""));
            let second = c.salt2.as_deref().map(unhex32);
            let vals = AuthenticatorPrfValues { first, second };
            let mext = make_credential::ExtensionInputs { hmac_secret: Some(true), hmac_secret_mc: None, prf: Some(AuthenticatorPrfInputs { eval: Some(vals.clone()), eval_by_credential: None }) };
            match block_on(auth.make_credential(mc_request("fresh.example", &[6], None, true, true, c.verified, false, Some(mext)))) {
                Ok(r) => push("make_credential::Response", format!("{r:?}"), format!("{r:#?}"), vec![("cbor", cbor(&r)), ("auth-data", r.auth_data.to_vec())]),
                Err(e) => push("StatusCode", format!("{e:?}"), format!("{e:#?}"), vec![]),
            }
            let gext = get_assertion::ExtensionInputs { hmac_secret: None, prf: Some(AuthenticatorPrfInputs { eval: Some(vals), eval_by_credential: None }) };
            match block_on(auth.get_assertion(ga_request("fresh.example", None, false, true, c.verified, false, Some(gext)))) {
                Ok(r) => push("get_assertion::Response", format!("{r:?}"), format!("{r:#?}"), vec![("cbor", cbor(&r)), ("auth-data", r.auth_data.to_vec()), ("signature", r.signature.to_vec())]),
                Err(e) => push("get:StatusCode", format!("{e:?}"), format!("{e:#?}"), vec![]),
            }
        }
        "client-make-then-get" => {
            // the same through the client, salts given as pre-hashed PRF inputs
            let mut client = passkey_client::Client::new(mk_auth(store.clone(), uv.clone(), &cfg));
            let first = unhex32(c.salt.as_deref().unwrap_or(""));
            let mk_ext = || Some(webauthn::AuthenticationExtensionsClientInputs { cred_props: None, prf: None, prf_already_hashed: Some(PrfIn { eval: Some(PrfVals { first: first.to_vec().into(), second: c.salt2.as_deref().map(|s| unhex32(s).to_vec().into()) }), eval_by_credential: None }) });
            let sel = Some(webauthn::AuthenticatorSelectionCriteria { authenticator_attachment: None, resident_key: None, require_resident_key: true, user_verification: uvr });
            match register(&mut client, Org::SubDomain, Mode::Default, creation_options(Reg { selection: sel, extensions: mk_ext(), user_id: vec![6], ..Default::default() })).unwrap_or_else(|p| panic!("{p}")) {
                Ok(cr) => {
                    let id = cr.raw_id.to_vec();
                    push("CreatedPublicKeyCredential", format!("{cr:?}"), format!("{cr:#?}"), vec![("json", serde_json::to_vec(&cr).unwrap_or_default())]);
                    match authenticate(&mut client, Org::SubDomain, Mode::Default, request_options(Auth { uv: uvr, extensions: mk_ext(), allow: Some(vec![id]), ..Default::default() })).unwrap_or_else(|p| panic!("{p}")) {
                        Ok(cr) => push("AuthenticatedPublicKeyCredential", format!("{cr:?}"), format!("{cr:#?}"), vec![("json", serde_json::to_vec(&cr).unwrap_or_default())]),
                        Err(e) => push("get:WebauthnError", format!("{e:?}"), format!("{e:#?}"), vec![]),
                    }
                }
                Err(e) => push("WebauthnError", format!("{e:?}"), format!("{e:#?}"), vec![]),
            }
        }
        "u2f-register" => {
            let mut auth = mk_auth(store.clone(), uv.clone(), &cfg);
            let req = RegisterRequest { challenge: [3; 32], application: [4; 32] };
            match block_on(U2fApi::register(&mut auth, req, &[7u8; 20])) {
                Ok(r) => {
                    let fields = [r.public_key.x.to_vec(), r.public_key.y.to_vec(), r.key_handle.clone(), r.attestation_certificate.clone(), r.signature.clone()].concat();
                    push("RegisterResponse", String::new(), String::new(), vec![("fields", fields), ("encode", r.encode())]);
                }
                Err(e) => push("U2FError", format!("{e:?}"), format!("{e:#?}"), vec![]),
            }
        }
        "u2f-authenticate" => {
            let auth = mk_auth(store.clone(), uv.clone(), &cfg);
            // the seeded U2F credential lives under RP base64url(application)
            let req = AuthenticationRequest { parameter: AuthenticationParameter::EnforceUserPresence, challenge: [3; 32], application: [4; 32], key_handle: cred_id(3) };
            match block_on(U2fApi::authenticate(&auth, req, 17, Flags::UP)) {
                Ok(r) => {
                    let fields = r.signature.clone();
                    push("AuthenticationResponse", String::new(), String::new(), vec![("fields", fields), ("encode", r.encode())]);
                }
                Err(e) => push("U2FError", format!("{e:?}"), format!("{e:#?}"), vec![]),
            }
        }
        "get-info" => {
            let auth = mk_auth(store.clone(), uv.clone(), &cfg);
            let r = block_on(auth.get_info());
            push("get_info::Response", format!("{r:?}"), format!("{r:#?}"), vec![("cbor", cbor(&r))]);
        }
        _ => {
            // error paths: excluded credential, pin auth, unknown allow list, denied user
            let mut auth = mk_auth(store.clone(), uv.clone(), &cfg);
            let e1 = block_on(auth.make_credential(mc_request("example.com", &[5], Some(vec![cred_id(1)]), true, true, false, false, None))).err();
            let e2 = block_on(auth.get_assertion(ga_request("example.com", Some(vec![vec![0xEE; 16]]), false, true, false, false, None))).err();
            let e3 = block_on(auth.get_assertion(ga_request("example.com", None, false, true, false, true, None))).err();
            push("errors", format!("{e1:?}{e2:?}{e3:?}"), format!("{e1:#?}{e2:#?}{e3:#?}"), vec![]);
        }
    })?;
    Ok(out)
}

pub fn eval(c: &Case) -> (Vec<Finding>, String, usize) {
    let case = serde_json::to_value(c).unwrap();
    let mut fs = vec![];
    let app_rp = b64::url_nopad(&[4u8; 32]);
    let store = Shared::new(RefStore::with(vec![
        seeded(&Seed { n: 1, rp: "example.com".into(), handle: Some(vec![1]), counter: Some(1), hmac: Some(true) }),
        seeded(&Seed { n: 2, rp: "example.com".into(), handle: Some(vec![2]), counter: None, hmac: Some(false) }),
        seeded(&Seed { n: 3, rp: app_rp, handle: None, counter: Some(5), hmac: None }),
    ]));
    let outs = match outputs(c, &store) {
        Ok(o) => o,
        Err(p) => {
            fs.push(Finding::new(format!("op={}/kind=panic/site={}", c.op, par::panic_site(&p)), format!("ceremony panicked: {p}"), case));
            return (fs, "panic".into(), 0);
        }
    };
    // secrets as held by the store *after* the ceremony (new credentials included)
    let items = store.0.lock().unwrap().items.clone();
    let mut secrets: Vec<(String, Vec<u8>)> = vec![];
    for p in &items {
        let r = rec(p);
        let tag = hex(&r.id[..4]);
        if let Some(d) = r.d {
            secrets.push((format!("private-scalar({tag})"), d));
        }
        if let Some(s) = r.uv_secret {
            secrets.push((format!("uv-prf-secret({tag})"), s));
        }
        if let Some(s) = r.nouv_secret {
            secrets.push((format!("non-uv-prf-secret({tag})"), s));
        }
    }
    // Debug of every stored passkey is also something a caller can print
    let mut outs = outs;
    for p in &items {
        outs.push(("Passkey:debug".into(), format!("{p:?}").into_bytes()));
        outs.push(("Passkey:pretty-debug".into(), format!("{p:#?}").into_bytes()));
    }
    // public helpers applied to what a caller holds after the ceremony: the stored (private) COSE key
    // given to the public-key converter
    for p in &items {
        match par::catch(|| passkey_authenticator::public_key_der_from_cose_key(&p.key)) {
            Ok(Ok(der)) => outs.push(("public_key_der_from_cose_key(stored key):bytes".into(), der.to_vec())),
            Ok(Err(e)) => outs.push(("public_key_der_from_cose_key(stored key):error".into(), format!("{e:?}").into_bytes())),
            Err(_) => {}
        }
    }
    let mut scanned = 0usize;
    // "The public key inside attested credential data carries public parameters only"
    for (oname, bytes) in &outs {
        if oname.ends_with(":auth-data") || oname.ends_with(":json") {
            let ad: Option<Vec<u8>> = if oname.ends_with(":auth-data") {
                Some(bytes.clone())
            } else {
                serde_json::from_slice::<Value>(bytes).ok().and_then(|v| v["response"]["authenticatorData"].as_array().map(|a| a.iter().filter_map(|x| x.as_u64().map(|n| n as u8)).collect()))
            };
            if let Some(Ok(parsed)) = ad.map(|b| crate::oracles::rp::parse_auth_data(&b)) {
                if let Some(att) = parsed.attested {
                    if let ciborium::value::Value::Map(m) = &att.cose {
                        let labels: Vec<i128> = m.iter().filter_map(|(k, _)| crate::oracles::rp::cbor_int(k)).collect();
                        if labels.iter().any(|l| ![1, 3, -1, -2, -3].contains(l)) || labels.len() != m.len() {
                            fs.push(Finding::new(format!("op={}/kind=attested-key-carries-non-public-parameters", c.op), format!("COSE key in attested credential data has labels {labels:?}"), case.clone()));
                        }
                    }
                }
            }
        }
    }
    for (sname, s) in &secrets {
        let n = needles(s);
        for (oname, bytes) in &outs {
            scanned += 1;
            if let Some(form) = scan(bytes, &n) {
                let kind_secret = sname.split('(').next().unwrap_or("secret");
                fs.push(Finding::new(format!("op={}/output={}/secret={kind_secret}/form={form}", c.op, oname), format!("{sname} appears in {oname} in {form} form"), case.clone()));
            }
        }
    }
    // negative control: the scanner finds d in the *stored private* COSE key in every form it claims
    if let Some(p) = items.first() {
        let d = private_scalar(p).unwrap_or_default();
        let n = needles(&d);
        let ser = p.key.clone().to_vec().unwrap_or_default();
        let dbg = format!("{:?}", p.key);
        let as_json = serde_json::to_vec(&d).unwrap();
        let as_hex = hex(&d);
        let as_b64 = format!("xx{}yy", b64::std_pad(&[&[0x77u8][..], &d[..], &[0x66][..]].concat()));
        let ok = scan(&ser, &n) == Some("raw") && scan(dbg.as_bytes(), &n).is_some() && scan(&as_json, &n) == Some("decimal-list") && scan(as_hex.as_bytes(), &n) == Some("hex") && scan(as_b64.as_bytes(), &n) == Some("base64");
        if !ok {
            fs.push(Finding::new("harness/kind=scanner-negative-control-failed", "the scanner does not find a private scalar where it certainly is".to_string(), case.clone()));
        }
    }
    let o = outs.first().map(|x| x.0.split(':').next().unwrap_or("").to_string()).unwrap_or_default();
    (fs, format!("{}→{o}", c.op), scanned)
}

pub fn run(ctx: &Ctx) -> Result<Run, String> {
    let cs = cases();
    let mut stats = par::sweep_cases(&cs, ctx.threads, |c, st| {
        let (fs, o, scanned) = eval(c);
        st.case(c, !o.contains("Error") && !o.contains("StatusCode"), &o);
        st.count("secret_x_output_scans", scanned as u64);
        st.findings_from(fs);
    });
    // a long run on one thread: ids and secrets drawn at random must never share material (a
    // credential id that contains part of a PRF secret hands that secret back)
    let lr = super::inst::long_run_sweep(ctx.tier.pick(96, 400), "long-run");
    stats.merge(lr);
    if stats.findings.contains_key("harness/kind=scanner-negative-control-failed") {
        return Err("C06 scanner negative control failed".into());
    }
    for c in cs.iter().step_by(cs.len() / 4 + 1) {
        stats.samples.push(serde_json::to_value(c).unwrap());
    }
    let mut run = Run::from_stats(
        "exploration",
        "(c) a run of 96 (thorough 400) registrations on one thread, mixed credential-id lengths and PRF configurations: no 8-byte window of a returned credential id may occur in any stored secret or earlier id; (a) product of operation {client register/authenticate, CTAP2 makeCredential/getAssertion, U2F register/authenticate, getInfo, error paths} x hmac-secret configuration(3) x evaluation at creation x PRF request {none, one, two inputs} x user verified x client-data mode x counter x configured credential-id length {16, 32, 48, 64} for registrations; (b) a credential created by the library itself (CTAP2 level, and through the client with pre-hashed PRF inputs) asserted with every salt of the constants dictionary (each string literal of the library sources as SHA-256, zero-padded, and under the client's salt derivation; every 7th case with a second salt) x hmac-secret configuration x evaluation at creation x user verified; after each ceremony every secret in the store (private scalars, both PRF secrets of every credential, new ones included) is searched in every returned value's Debug / pretty Debug / JSON / CBOR / raw encodings in the Debug of each stored Passkey and in the output of public_key_der_from_cose_key applied to each stored key, as raw bytes, hex (both cases), decimal list, base64 and base64url in all three bit alignments. Non-trivial = distinct ceremony that returned a success value",
        true,
        stats,
    );
    run.assume("a negative control in every case checks that the scanner finds the private scalar in the stored private COSE key in each form it searches for (failure = machinery error)");
    Ok(run)
}

pub fn replay(_ctx: &Ctx, case: &Value) -> Result<Vec<Finding>, String> {
    if let Some(fs) = super::inst::long_run_replay(case, "long-run") {
        return Ok(fs);
    }
    let c: Case = serde_json::from_value(case.clone()).map_err(|e| format!("bad C06 case: {e}"))?;
    Ok(eval(&c).0)
}
