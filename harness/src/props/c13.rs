//! C13 – CTAP2 messages use the specified integer keys and round-trip through CBOR; status bytes.
use crate::core::exec::block_on;
use crate::core::par;
use crate::core::report::*;
use crate::drivers::*;
use ciborium::value::Value as Cbor;
use passkey_client::{Client, DefaultClientData, WebauthnError};
use passkey_types::ctap2::extensions::{AuthenticatorPrfGetOutputs, AuthenticatorPrfInputs, AuthenticatorPrfMakeOutputs, AuthenticatorPrfValues, HmacGetSecretInput};
use passkey_types::ctap2::{get_assertion, get_info, make_credential, Aaguid, AuthenticatorData, Flags, StatusCode};
use passkey_types::webauthn;
use serde::de::DeserializeOwned;
use serde::{Deserialize, Serialize};
use serde_json::{json, Value};
use std::collections::BTreeMap;
use std::fmt::Debug;

pub const TYPES: [&str; 6] = ["makeCredential.request", "makeCredential.response", "getAssertion.request", "getAssertion.response", "getInfo.response", "hmac-secret.input"];

/// (name, key, required) per message, typed in from the CTAP 2.1/2.2 specification.
fn key_table(ty: &str) -> Vec<(&'static str, u8, bool)> {
    match ty {
        "makeCredential.request" => vec![("clientDataHash", 1, true), ("rp", 2, true), ("user", 3, true), ("pubKeyCredParams", 4, true), ("excludeList", 5, false), ("extensions", 6, false), ("options", 7, false), ("pinAuth", 8, false), ("pinProtocol", 9, false)],
        "makeCredential.response" => vec![("fmt", 1, true), ("authData", 2, true), ("attStmt", 3, true), ("epAtt", 4, false), ("largeBlobKey", 5, false), ("unsignedExtensionOutputs", 6, false)],
        "getAssertion.request" => vec![("rpId", 1, true), ("clientDataHash", 2, true), ("allowList", 3, false), ("extensions", 4, false), ("options", 5, false), ("pinAuth", 6, false), ("pinProtocol", 7, false)],
        "getAssertion.response" => vec![("credential", 1, false), ("authData", 2, true), ("signature", 3, true), ("user", 4, false), ("numberOfCredentials", 5, false), ("userSelected", 6, false), ("largeBlobKey", 7, false), ("unsignedExtensionOutputs", 8, false)],
        "getInfo.response" => vec![("versions", 1, true), ("extensions", 2, false), ("aaguid", 3, true), ("options", 4, false), ("maxMsgSize", 5, false), ("pinProtocols", 6, false), ("transports", 9, false)],
        _ => vec![("keyAgreement", 1, true), ("saltEnc", 2, true), ("saltAuth", 3, true), ("pinUvAuthProtocol", 4, false)],
    }
}
/// members the library always writes although they are optional in the specification
fn always_written(ty: &str) -> Vec<u8> {
    match ty {
        "makeCredential.request" => vec![7],
        "getAssertion.request" => vec![5],
        _ => vec![],
    }
}
/// optional members that can be present/absent in the typed value, in pattern-bit order
fn optional_keys(ty: &str) -> Vec<u8> {
    let aw = always_written(ty);
    key_table(ty).into_iter().filter(|(_, k, req)| !req && !aw.contains(k)).map(|(_, k, _)| k).collect()
}

#[derive(Clone, Debug, Serialize, Deserialize, PartialEq, Eq, Hash)]
pub struct Case {
    pub ty: String,
    /// presence pattern over optional_keys(ty)
    pattern: u32,
    /// nested value variant
    variant: u8,
    /// "base" | "many:<n>" | "insert:<key>:<pos>:<valkind>" | "text:<key>:<pos>" | "remove:<key>" | "dup:<key>" | "options:omit" | "options:empty"
    pub mutation: String,
}

/// length of the byte-string members: variant 3 uses long ones (beyond a 4 KiB scratch buffer)
fn blen(variant: u8, short: usize) -> usize {
    if variant == 3 {
        4097 + short
    } else {
        short
    }
}
fn desc(with_transports: bool, n: u8) -> webauthn::PublicKeyCredentialDescriptor {
    desc_v(with_transports, n, 0)
}
fn desc_v(with_transports: bool, n: u8, variant: u8) -> webauthn::PublicKeyCredentialDescriptor {
    webauthn::PublicKeyCredentialDescriptor { ty: webauthn::PublicKeyCredentialType::PublicKey, id: vec![n; blen(variant, 16)].into(), transports: with_transports.then(|| if n == 2 || variant == 2 { vec![webauthn::AuthenticatorTransport::Usb, webauthn::AuthenticatorTransport::Internal, webauthn::AuthenticatorTransport::Usb] } else { vec![webauthn::AuthenticatorTransport::Usb, webauthn::AuthenticatorTransport::Internal] }) }
}
fn prf_inputs(variant: u8) -> AuthenticatorPrfInputs {
    AuthenticatorPrfInputs {
        eval: Some(AuthenticatorPrfValues { first: [1; 32], second: (variant % 2 == 1).then_some([2; 32]) }),
        eval_by_credential: (variant >= 1).then(|| [(vec![7u8; 16].into(), AuthenticatorPrfValues { first: [3; 32], second: None })].into_iter().collect()),
    }
}
fn hmac_input(with_proto: bool) -> HmacGetSecretInput {
    HmacGetSecretInput { key_agreement: Cbor::Map(vec![(Cbor::Integer(1.into()), Cbor::Integer(2.into())), (Cbor::Integer((-1).into()), Cbor::Integer(1.into()))]), salt_enc: vec![9; 32].into(), salt_auth: vec![8; 16].into(), pin_uv_auth_protocol: with_proto.then_some(2) }
}
fn auth_data(variant: u8) -> AuthenticatorData {
    let ad = AuthenticatorData::new("example.com", Some(u32::from(variant) * 1000 + 5)).set_flags(Flags::UP | Flags::UV);
    if variant == 7 {
        // extension outputs (an arbitrary CBOR value) nested seven containers deep
        let mut v = Cbor::Integer(1.into());
        for k in 0..7 {
            v = if k % 2 == 0 { Cbor::Array(vec![v]) } else { Cbor::Map(vec![(Cbor::Text("n".into()), v)]) };
        }
        let mut ad = ad;
        ad.extensions = Some(Cbor::Map(vec![(Cbor::Text("x-nested".into()), v)]));
        ad.flags |= Flags::ED;
        return ad;
    }
    if variant >= 1 {
        let (x, y) = public_xy_from_scalar(&fixed_scalar(1));
        let key = match variant {
            // variant 5: the credential key's parameters in a legal order that is not the canonical one
            // (x, y, crv); variant 6: with a key id and an unregistered parameter in front.  The message
            // value holds them in that order, so that is the order a reader of the bytes must find
            5 => coset::CoseKey {
                kty: coset::RegisteredLabel::Assigned(coset::iana::KeyType::EC2),
                alg: Some(coset::RegisteredLabelWithPrivate::Assigned(coset::iana::Algorithm::ES256)),
                params: vec![(coset::Label::Int(-2), Cbor::Bytes(x.to_vec())), (coset::Label::Int(-3), Cbor::Bytes(y.to_vec())), (coset::Label::Int(-1), Cbor::Integer(1.into()))],
                ..Default::default()
            },
            6 => coset::CoseKey {
                kty: coset::RegisteredLabel::Assigned(coset::iana::KeyType::EC2),
                alg: Some(coset::RegisteredLabelWithPrivate::Assigned(coset::iana::Algorithm::ES256)),
                key_id: vec![1, 2, 3],
                params: vec![(coset::Label::Int(-70000), Cbor::Text("vendor".into())), (coset::Label::Int(-3), Cbor::Bytes(y.to_vec())), (coset::Label::Int(-1), Cbor::Integer(1.into())), (coset::Label::Int(-2), Cbor::Bytes(x.to_vec()))],
                ..Default::default()
            },
            _ => coset::CoseKeyBuilder::new_ec2_pub_key(coset::iana::EllipticCurve::P_256, x.to_vec(), y.to_vec()).algorithm(coset::iana::Algorithm::ES256).build(),
        };
        // variant 3 (long members): the longest credential id WebAuthn allows; variant 4: one more
        let id_len = match variant {
            3 => 1023,
            4 => 1024,
            _ => 16,
        };
        ad.set_attested_credential_data(passkey_types::ctap2::AttestedCredentialData::new(Aaguid::new_empty(), vec![5; id_len], key).unwrap())
    } else {
        ad
    }
}

/// Build the typed value for (ty, pattern, variant), serialise it and return (bytes, debug string).
fn build(ty: &str, pattern: u32, variant: u8) -> Result<(Vec<u8>, String), String> {
    let opt = optional_keys(ty);
    let has = |k: u8| opt.iter().position(|x| *x == k).map_or(false, |i| pattern & (1 << i) != 0);
    fn ser<T: Serialize + Debug>(v: &T) -> Result<(Vec<u8>, String), String> {
        let mut b = vec![];
        ciborium::ser::into_writer(v, &mut b).map_err(|e| format!("serialise: {e}"))?;
        Ok((b, format!("{v:?}")))
    }
    match ty {
        "makeCredential.request" => ser(&make_credential::Request {
            client_data_hash: vec![1; blen(variant, 32)].into(),
            rp: make_credential::PublicKeyCredentialRpEntity { id: "example.com".into(), name: (variant % 2 == 0).then(|| "Example".into()) },
            user: webauthn::PublicKeyCredentialUserEntity { id: vec![7; blen(variant, 3)].into(), name: "n".into(), display_name: "dn".into() },
            pub_key_cred_params: vec![es256_param(), param(coset::iana::Algorithm::RS256)],
            exclude_list: has(5).then(|| if variant == 4 { vec![] } else { vec![desc_v(variant % 2 == 0, 1, variant), desc(variant % 2 == 1, 2)] }),
            extensions: has(6).then(|| if variant == 4 { make_credential::ExtensionInputs { hmac_secret: None, hmac_secret_mc: None, prf: None } } else { make_credential::ExtensionInputs { hmac_secret: Some(true), hmac_secret_mc: (variant == 2).then(|| hmac_input(true)), prf: Some(prf_inputs(variant)) } }),
            options: make_credential::Options { rk: variant % 2 == 0, up: variant != 4, uv: variant >= 1 },
            pin_auth: has(8).then(|| vec![4; blen(variant, 16)].into()),
            pin_protocol: has(9).then_some(1),
        }),
        "makeCredential.response" => ser(&make_credential::Response {
            fmt: "none".into(),
            auth_data: auth_data(if variant >= 3 { variant } else { 1 }),
            att_stmt: Cbor::Map(vec![]),
            ep_att: has(4).then_some(variant % 2 == 0),
            large_blob_key: has(5).then(|| vec![6; blen(variant, 32)].into()),
            unsigned_extension_outputs: has(6).then(|| make_credential::UnsignedExtensionOutputs { prf: (variant != 4).then(|| AuthenticatorPrfMakeOutputs { enabled: true, results: (variant >= 1).then(|| AuthenticatorPrfValues { first: [1; 32], second: None }) }) }),
        }),
        "getAssertion.request" => ser(&get_assertion::Request {
            rp_id: "example.com".into(),
            client_data_hash: vec![2; blen(variant, 32)].into(),
            allow_list: has(3).then(|| if variant == 4 { vec![] } else { vec![desc_v(variant % 2 == 0, 1, variant)] }),
            extensions: has(4).then(|| get_assertion::ExtensionInputs { hmac_secret: (variant == 2).then(|| hmac_input(false)), prf: (variant != 4).then(|| prf_inputs(variant)) }),
            options: get_assertion::Options { rk: false, up: variant % 2 == 0 && variant != 4, uv: variant >= 1 },
            pin_auth: has(6).then(|| vec![4; blen(variant, 16)].into()),
            pin_protocol: has(7).then_some(2),
        }),
        "getAssertion.response" => ser(&get_assertion::Response {
            credential: has(1).then(|| desc(variant % 2 == 1, 3)),
            auth_data: auth_data(0),
            signature: if variant == 3 { vec![0x30; 5000].into() } else { vec![0x30, 0x06, 2, 1, 1, 2, 1, 1].into() },
            user: has(4).then(|| webauthn::PublicKeyCredentialUserEntity { id: vec![1, 2].into(), name: "".into(), display_name: "".into() }),
            number_of_credentials: has(5).then_some(3),
            user_selected: has(6).then_some(true),
            large_blob_key: has(7).then(|| vec![6; blen(variant, 32)].into()),
            unsigned_extension_outputs: has(8).then(|| get_assertion::UnsignedExtensionOutputs { prf: (variant != 4).then(|| AuthenticatorPrfGetOutputs { results: AuthenticatorPrfValues { first: [1; 32], second: (variant >= 1).then_some([2; 32]) } }) }),
        }),
        "getInfo.response" => ser(&get_info::Response {
            versions: vec![get_info::Version::FIDO_2_0, get_info::Version::U2F_V2],
            extensions: has(2).then(|| match variant {
                4 => vec![],
                2 => vec![get_info::Extension::Prf, get_info::Extension::HmacSecret, get_info::Extension::Prf],
                _ => vec![get_info::Extension::HmacSecret, get_info::Extension::Prf],
            }),
            aaguid: Aaguid::from([7; 16]),
            options: has(4).then(|| get_info::Options { plat: variant % 2 == 0, rk: true, client_pin: (variant >= 1 && variant != 4).then_some(false), up: true, uv: (variant >= 1 && variant != 4).then_some(true) }),
            // the member's type admits every positive 128-bit value; sizes at the integer-width
            // boundaries of CBOR (and beyond 64 bits, where the encoding becomes a bignum)
            max_msg_size: has(5).then(|| {
                std::num::NonZeroU128::new(match variant {
                    1 => 1,
                    2 => u128::from(u64::MAX),
                    3 => u128::from(u64::MAX) + 1,
                    4 => 24,
                    5 => u128::MAX,
                    6 => 1u128 << 100,
                    _ => 1200,
                })
                .unwrap()
            }),
            pin_protocols: has(6).then(|| match variant {
                4 => vec![],
                2 => vec![2, 2, 1],
                _ => vec![1, 2],
            }),
            transports: has(9).then(|| match variant {
                4 => vec![],
                2 => vec![webauthn::AuthenticatorTransport::Internal, webauthn::AuthenticatorTransport::Hybrid, webauthn::AuthenticatorTransport::Internal, webauthn::AuthenticatorTransport::Internal],
                _ => vec![webauthn::AuthenticatorTransport::Internal, webauthn::AuthenticatorTransport::Hybrid],
            }),
        }),
        _ => {
            let mut h = hmac_input(has(4));
            if variant == 3 {
                h.salt_enc = vec![9; 4200].into();
            }
            ser(&h)
        }
    }
}

fn decode_debug<T: DeserializeOwned + Debug>(b: &[u8]) -> Result<String, String> {
    ciborium::de::from_reader::<T, _>(b).map(|v| format!("{v:?}")).map_err(|e| format!("{e}"))
}
fn decode(ty: &str, b: &[u8]) -> Result<Result<String, String>, String> {
    par::catch(|| match ty {
        "makeCredential.request" => decode_debug::<make_credential::Request>(b),
        "makeCredential.response" => decode_debug::<make_credential::Response>(b),
        "getAssertion.request" => decode_debug::<get_assertion::Request>(b),
        "getAssertion.response" => decode_debug::<get_assertion::Response>(b),
        "getInfo.response" => decode_debug::<get_info::Response>(b),
        _ => decode_debug::<HmacGetSecretInput>(b),
    })
}
fn to_bytes(v: &Cbor) -> Vec<u8> {
    let mut b = vec![];
    ciborium::ser::into_writer(v, &mut b).unwrap();
    b
}
fn int_key(k: &Cbor) -> Option<i128> {
    match k {
        Cbor::Integer(i) => Some((*i).into()),
        _ => None,
    }
}

pub fn eval(c: &Case) -> (Vec<Finding>, String) {
    let case = serde_json::to_value(c).unwrap();
    let mut fs = vec![];
    let ty = c.ty.as_str();
    let mut bad = |kind: &str, d: String| fs.push(Finding::new(format!("type={ty}/kind={kind}"), d, case.clone()));
    let (bytes, dbg) = match par::catch(|| build(ty, c.pattern, c.variant)) {
        Ok(Ok(x)) => x,
        Ok(Err(e)) => {
            bad("serialise-fails", e);
            return (fs, "serialise-fails".into());
        }
        Err(p) => {
            bad("panic-serialising", p);
            return (fs, "panic".into());
        }
    };
    let mut cursor = std::io::Cursor::new(bytes.as_slice());
    let Ok(Cbor::Map(entries)) = ciborium::de::from_reader::<Cbor, _>(&mut cursor) else {
        bad("not-a-cbor-map", "top level is not a CBOR map".into());
        return (fs, "not-a-map".into());
    };
    if cursor.position() as usize != bytes.len() {
        bad("bytes-after-the-map", format!("the top-level map ends after {} of {} serialised bytes (its header counts fewer members than were written)", cursor.position(), bytes.len()));
    }
    let table = key_table(ty);
    let opt = optional_keys(ty);
    if c.mutation == "base" {
        // keys: exactly the specification's integers for the present members, strictly ascending
        let mut want: Vec<i128> = table.iter().filter(|(_, k, req)| *req || always_written(ty).contains(k) || opt.iter().position(|x| x == k).map_or(false, |i| c.pattern & (1 << i) != 0)).map(|(_, k, _)| i128::from(*k)).collect();
        want.sort();
        let got: Vec<Option<i128>> = entries.iter().map(|(k, _)| int_key(k)).collect();
        if got.iter().any(|k| k.is_none()) {
            bad("non-integer-key", format!("top-level keys {:?}", entries.iter().map(|(k, _)| format!("{k:?}")).collect::<Vec<_>>()));
        } else {
            let got: Vec<i128> = got.into_iter().flatten().collect();
            if got != want {
                let mut sorted = got.clone();
                sorted.sort();
                if sorted == want {
                    bad("keys-not-ascending", format!("keys written as {got:?}"));
                } else {
                    bad("wrong-keys", format!("keys {got:?}, the specification assigns {want:?} to the members present"));
                }
            }
        }
        if entries.iter().any(|(_, v)| matches!(v, Cbor::Null)) {
            bad("null-for-absent-member", "an absent optional member is written as null".into());
        }
        match decode(ty, &bytes) {
            Err(p) => bad("panic-deserialising", p),
            Ok(Err(e)) => bad("round-trip-fails", format!("own serialisation does not parse: {e}")),
            Ok(Ok(d)) => {
                if d != dbg {
                    bad("round-trip-differs", format!("{d} vs {dbg}"));
                }
            }
        }
        return (fs, "base".into());
    }
    let parts: Vec<&str> = c.mutation.split(':').collect();
    let mut m = entries.clone();
    let (expect_same, what): (Option<bool>, String) = match parts[0] {
        "insert" => {
            let key: i128 = parts[1].parse().unwrap_or(0);
            let pos = parts[2].parse::<usize>().unwrap_or(0).min(m.len());
            let val = match parts[3] {
                "map" => Cbor::Map(vec![(Cbor::Text("a".into()), Cbor::Array(vec![Cbor::Integer(1.into()), Cbor::Null]))]),
                "bytes" => Cbor::Bytes(vec![1, 2, 3]),
                _ => Cbor::Integer(42.into()),
            };
            m.insert(pos, (Cbor::Integer((key as i64).into()), val));
            (Some(true), format!("unknown integer key {key} inserted at position {pos}"))
        }
        "many" => {
            // N unknown members at once: every unassigned integer key from 40 upwards, then text keys
            let n: usize = parts[1].parse().unwrap_or(0);
            let assigned: Vec<i128> = key_table(ty).iter().map(|t| i128::from(t.1)).collect();
            let mut added = 0;
            let mut key = 40i128;
            while added < n {
                if key <= 255 {
                    if !assigned.contains(&key) {
                        m.push((Cbor::Integer((key as i64).into()), Cbor::Integer((added as i64).into())));
                        added += 1;
                    }
                    key += 1;
                } else {
                    m.push((Cbor::Text(format!("unknown{added}")), Cbor::Bool(true)));
                    added += 1;
                }
            }
            (Some(true), format!("{n} unknown members appended (a message of {} members)", m.len()))
        }
        "text" => {
            let pos = parts[2].parse::<usize>().unwrap_or(0).min(m.len());
            m.insert(pos, (Cbor::Text(parts[1].to_string()), Cbor::Array(vec![Cbor::Bool(true)])));
            (Some(true), format!("unknown text key {:?} inserted at position {pos}", parts[1]))
        }
        "remove" => {
            let key: i128 = parts[1].parse().unwrap_or(0);
            m.retain(|(k, _)| int_key(k) != Some(key));
            (Some(false), format!("required member {key} removed"))
        }
        // integer keys beyond one byte whose low byte is an assigned key: "wide:<key>:<shift>" adds
        // the entry (value of the member it aliases) to the complete message – accepted only if the
        // message is unchanged; "widereplace:<key>:<shift>" moves a required member to the wide key
        // – the member is then missing
        "wide" | "widereplace" => {
            let key: i128 = parts[1].parse().unwrap_or(0);
            let shift: u32 = parts[2].parse().unwrap_or(8);
            let wide = key + (1i128 << shift);
            let val = m.iter().find(|(k, _)| int_key(k) == Some(key)).map(|(_, v)| v.clone()).unwrap_or(Cbor::Map(vec![(Cbor::Text("up".into()), Cbor::Bool(false)), (Cbor::Text("uv".into()), Cbor::Bool(true))]));
            if parts[0] == "widereplace" {
                m.retain(|(k, _)| int_key(k) != Some(key));
                m.push((Cbor::Integer((wide as u64).into()), val));
                (Some(false), format!("required member {key} moved to key {wide}"))
            } else {
                let alt = match &val {
                    Cbor::Map(_) => Cbor::Map(vec![(Cbor::Text("up".into()), Cbor::Bool(false)), (Cbor::Text("uv".into()), Cbor::Bool(true)), (Cbor::Text("rk".into()), Cbor::Bool(true))]),
                    other => other.clone(),
                };
                m.push((Cbor::Integer((wide as u64).into()), alt));
                (Some(true), format!("key {wide} (low byte {key}) added"))
            }
        }
        "dup" => {
            let key: i128 = parts[1].parse().unwrap_or(0);
            if let Some(e) = m.iter().find(|(k, _)| int_key(k) == Some(key)).cloned() {
                m.push(e);
            }
            (Some(false), format!("member {key} duplicated"))
        }
        "options" => {
            let okey = i128::from(always_written(ty)[0]);
            if parts[1] == "omit" {
                m.retain(|(k, _)| int_key(k) != Some(okey));
            } else {
                for e in m.iter_mut() {
                    if int_key(&e.0) == Some(okey) {
                        e.1 = Cbor::Map(vec![]);
                    }
                }
            }
            (None, format!("options {}", parts[1]))
        }
        _ => (None, "?".into()),
    };
    let mutated = to_bytes(&Cbor::Map(m));
    match (decode(ty, &mutated), expect_same) {
        (Err(p), _) => bad("panic-deserialising", format!("{what}: {p}")),
        (Ok(Ok(d)), Some(true)) => {
            if d != dbg {
                bad("unknown-key-changes-message", format!("{what}: message differs"));
            }
        }
        // keys beyond 0..255 are outside the statement: rejecting the message is as good as ignoring the key
        (Ok(Err(_)), Some(true)) if parts[0] == "wide" => {}
        (Ok(Err(e)), Some(true)) => bad("unknown-key-rejected", format!("{what}: {e}")),
        (Ok(Ok(_)), Some(false)) => bad(if parts[0] == "dup" { "duplicate-member-accepted" } else { "missing-required-member-accepted" }, what),
        (Ok(Err(_)), Some(false)) => {}
        (Ok(Ok(d)), None) => {
            if !(d.contains("rk: false") && d.contains("up: true") && d.contains("uv: false")) {
                bad("option-defaults", format!("{what}: options do not default to up=true, rk=false, uv=false: {d}"));
            }
        }
        (Ok(Err(e)), None) => bad("options-absent-rejected", format!("{what}: {e}")),
    }
    (fs, parts[0].to_string())
}

pub fn cases(tier: Tier) -> Vec<Case> {
    let mut v = vec![];
    for ty in TYPES {
        let nopt = optional_keys(ty).len();
        let table = key_table(ty);
        let assigned: Vec<u8> = table.iter().map(|t| t.1).collect();
        for pattern in 0..(1u32 << nopt) {
            // variant 3: byte-string members longer than 4 KiB – round trip only
            v.push(Case { ty: ty.into(), pattern, variant: 3, mutation: "base".into() });
            // variants 5, 6: nested maps (the credential public key) with members in a legal
            // non-canonical order / with extra members - round trip only
            v.push(Case { ty: ty.into(), pattern, variant: 5, mutation: "base".into() });
            v.push(Case { ty: ty.into(), pattern, variant: 6, mutation: "base".into() });
            v.push(Case { ty: ty.into(), pattern, variant: 7, mutation: "base".into() });
            // variant 4: nested optional structures and lists present but empty
            for variant in [0u8, 1, 2, 4] {
                let mk = |m: String| Case { ty: ty.into(), pattern, variant, mutation: m };
                v.push(mk("base".into()));
                let present = |k: u8| table.iter().any(|(_, kk, req)| *kk == k && (*req || always_written(ty).contains(&k) || optional_keys(ty).iter().position(|x| *x == k).map_or(false, |i| pattern & (1 << i) != 0)));
                let n_present = assigned.iter().filter(|k| present(**k)).count();
                let full = pattern == (1u32 << nopt) - 1;
                if variant == 0 || tier == Tier::Thorough {
                    // unknown integer keys: all of 0..=255 not assigned to a member of this message
                    for key in 0..=255u8 {
                        if assigned.contains(&key) {
                            continue;
                        }
                        let positions: Vec<usize> = if full || tier == Tier::Thorough { (0..=n_present).collect() } else { vec![n_present] };
                        for pos in positions {
                            let kind = ["int", "map", "bytes"][(key as usize + pos) % 3];
                            v.push(mk(format!("insert:{key}:{pos}:{kind}")));
                        }
                    }
                    // many unknown members at once (a newer protocol revision's message): counts around
                    // the CBOR map-header boundaries 23/24 and 255/256
                    if full || pattern == 0 {
                        for n in [2usize, 10, 14, 15, 16, 17, 18, 20, 23, 24, 30, 100, 250, 256, 300] {
                            v.push(mk(format!("many:{n}")));
                        }
                    }
                    for (t, _) in [("zzz", 0), ("", 0), ("notAMember", 0), ("é", 0)] {
                        for pos in 0..=n_present {
                            v.push(mk(format!("text:{t}:{pos}")));
                        }
                    }
                    // text keys that spell a number: the digits of an assigned key (plain, zero-padded,
                    // signed, spaced), and of keys nobody assigned - text is not an integer
                    for (_, k, _) in &table {
                        for t in [format!("{k}"), format!("0{k}"), format!("+{k}"), format!("00{k}"), format!(" {k}"), format!("{k}.0"), format!("0x0{k:x}")] {
                            v.push(mk(format!("text:{t}:{n_present}")));
                            v.push(mk(format!("text:{t}:0")));
                        }
                    }
                    for t in ["0", "-1", "255", "256", "1e0", "١"] {
                        v.push(mk(format!("text:{t}:{n_present}")));
                    }
                    // text keys that differ from a member's name only in letter case, or by an
                    // underscore spelling: unknown keys like any other
                    for (name, _, _) in &table {
                        let snake: String = name.chars().flat_map(|c| if c.is_ascii_uppercase() { vec!['_', c.to_ascii_lowercase()] } else { vec![c] }).collect();
                        let mut cap = name.to_string();
                        if let Some(f) = cap.get_mut(0..1) {
                            f.make_ascii_uppercase();
                        }
                        for variant_name in [name.to_uppercase(), name.to_lowercase(), cap, snake] {
                            if variant_name != *name && !variant_name.contains(':') {
                                v.push(mk(format!("text:{variant_name}:{n_present}")));
                                v.push(mk(format!("text:{variant_name}:0")));
                            }
                        }
                    }
                    for (_, k, req) in &table {
                        for shift in [8u32, 16, 32] {
                            if present(*k) {
                                v.push(mk(format!("wide:{k}:{shift}")));
                            }
                            if *req {
                                v.push(mk(format!("widereplace:{k}:{shift}")));
                            }
                        }
                        if *req {
                            v.push(mk(format!("remove:{k}")));
                        }
                        if present(*k) {
                            v.push(mk(format!("dup:{k}")));
                        }
                    }
                    if !always_written(ty).is_empty() {
                        v.push(mk("options:omit".into()));
                        v.push(mk("options:empty".into()));
                    }
                }
            }
        }
    }
    v
}

// ---- per-credential PRF inputs with several entries (a HashMap-typed member: its Debug rendering
// has no stable order, so it is compared entry by entry): every subset of six ids of different
// lengths and byte orders, inside makeCredential and getAssertion requests, survives the round trip
fn ebc_ids() -> Vec<Vec<u8>> {
    vec![vec![2; 16], vec![1; 32], vec![3; 8], vec![1; 16], vec![2], vec![1, 0]]
}
fn ebc_one(mask: u8, get: bool) -> Vec<(String, String)> {
    let ids: Vec<Vec<u8>> = ebc_ids().into_iter().enumerate().filter(|(i, _)| mask & (1 << i) != 0).map(|(_, x)| x).collect();
    let map: std::collections::HashMap<passkey_types::Bytes, AuthenticatorPrfValues> = ids.iter().enumerate().map(|(k, id)| (id.clone().into(), AuthenticatorPrfValues { first: [k as u8 + 1; 32], second: (k % 2 == 1).then_some([0xF0 + k as u8; 32]) })).collect();
    let prf = AuthenticatorPrfInputs { eval: None, eval_by_credential: Some(map.clone()) };
    let mut bytes = vec![];
    let back: Result<Option<AuthenticatorPrfInputs>, String> = par::catch(|| {
        if get {
            let req = ga_request("example.com", Some(ids.clone()), false, true, true, false, Some(get_assertion::ExtensionInputs { hmac_secret: None, prf: Some(prf) }));
            ciborium::ser::into_writer(&req, &mut bytes).map_err(|e| e.to_string())?;
            ciborium::de::from_reader::<get_assertion::Request, _>(&bytes[..]).map(|r| r.extensions.and_then(|e| e.prf)).map_err(|e| e.to_string())
        } else {
            let req = mc_request("example.com", &[1], None, true, true, true, false, Some(make_credential::ExtensionInputs { hmac_secret: None, hmac_secret_mc: None, prf: Some(prf) }));
            ciborium::ser::into_writer(&req, &mut bytes).map_err(|e| e.to_string())?;
            ciborium::de::from_reader::<make_credential::Request, _>(&bytes[..]).map(|r| r.extensions.and_then(|e| e.prf)).map_err(|e| e.to_string())
        }
    })
    .unwrap_or_else(|p| Err(format!("panic: {p}")));
    let what = if get { "getAssertion.request" } else { "makeCredential.request" };
    match back {
        Err(e) => vec![(format!("type={what}/kind=round-trip-fails"), format!("evalByCredential with the ids {:?}: own serialisation does not parse: {e}", ids.iter().map(|i| hex(i)).collect::<Vec<_>>()))],
        Ok(got) => {
            let got = got.and_then(|p| p.eval_by_credential).unwrap_or_default();
            let same = got.len() == map.len() && map.iter().all(|(k, v)| got.get(k).is_some_and(|g| g.first == v.first && g.second == v.second));
            if same {
                vec![]
            } else {
                vec![(format!("type={what}/kind=round-trip-differs"), format!("evalByCredential with the ids {:?} reads back with {} entries / other values", ids.iter().map(|i| hex(i)).collect::<Vec<_>>(), got.len()))]
            }
        }
    }
}

// ---- text members: every text of a message is data, not markup – it reads back code point for code point
pub fn odd_texts() -> Vec<String> {
    let bases = ["Alex Müller", "דוד", "名前", "a", "", "example.com"];
    let tails = [
        "\u{200E}", "\u{200F}", "\u{E007F}", "\u{E0001}\u{E0064}\u{E0065}\u{E002D}\u{E0043}\u{E0048}\u{200E}", "\u{E0001}\u{E0068}\u{E0065}\u{200F}", "\u{E0001}\u{E0065}\u{E006E}\u{E007F}", " ", "\n", "\r\n", "\u{0}", "\u{FEFF}", ".", "\u{301}", "\u{200D}", "\u{2028}", "\u{FFFD}", "\u{10FFFF}", "\u{202E}", "\u{7f}", "\\", "\"",
    ];
    let mut v: Vec<String> = vec![];
    for b in bases {
        v.push(b.to_string());
        for t in tails {
            v.push(format!("{b}{t}"));
            v.push(format!("{t}{b}"));
            v.push(format!("{b}{t}{b}"));
        }
    }
    for s in ["Mu\u{308}ller", "M\u{fc}ller", "STRASSE", "Stra\u{df}e", "\u{1E9E}", "ｅｘａｍｐｌｅ．ｃｏｍ", "example\u{3002}com", "EXAMPLE.COM", "xn--bcher-kva.example", "bücher.example", "İstanbul", "ǆ", "\u{1F468}\u{200D}\u{1F469}\u{200D}\u{1F467}"] {
        v.push(s.to_string());
    }
    // lengths around the 64-byte point at which an authenticator may truncate a name, a multi-byte
    // character across it, and texts whose CBOR length needs 1, 2 and 4 bytes
    for n in [23usize, 24, 63, 64, 65, 255, 256, 65535, 65536, 70000] {
        v.push("n".repeat(n));
    }
    v.push(format!("{}é", "n".repeat(63)));
    v.push("é".repeat(64));
    v.push(format!("{}\u{1F600}", "n".repeat(62)));
    v.sort();
    v.dedup();
    v
}
const TEXT_SLOTS: [&str; 8] = ["makeCredential.request/rp.id", "makeCredential.request/rp.name", "makeCredential.request/user.name", "makeCredential.request/user.displayName", "getAssertion.request/rpId", "getAssertion.response/user.name", "getAssertion.response/user.displayName", "makeCredential.response/fmt"];
fn text_one(slot: usize, text: &str) -> Vec<(String, String)> {
    let t = text.to_string();
    let pick = |k: usize, d: &str| if slot == k { t.clone() } else { d.to_string() };
    let r: Result<Result<String, String>, String> = par::catch(|| {
        let mut bytes = vec![];
        match slot {
            0..=3 => {
                let m = make_credential::Request {
                    client_data_hash: vec![1; 32].into(),
                    rp: make_credential::PublicKeyCredentialRpEntity { id: pick(0, "example.com"), name: Some(pick(1, "Example")) },
                    user: webauthn::PublicKeyCredentialUserEntity { id: vec![7; 3].into(), name: pick(2, "n"), display_name: pick(3, "dn") },
                    pub_key_cred_params: vec![es256_param()],
                    exclude_list: None,
                    extensions: None,
                    options: make_credential::Options { rk: true, up: true, uv: true },
                    pin_auth: None,
                    pin_protocol: None,
                };
                ciborium::ser::into_writer(&m, &mut bytes).map_err(|e| e.to_string())?;
                let b: make_credential::Request = ciborium::de::from_reader(&bytes[..]).map_err(|e| e.to_string())?;
                Ok(match slot {
                    0 => b.rp.id,
                    1 => b.rp.name.unwrap_or_else(|| "<absent>".into()),
                    2 => b.user.name,
                    _ => b.user.display_name,
                })
            }
            4 => {
                let m = get_assertion::Request { rp_id: t.clone(), client_data_hash: vec![2; 32].into(), allow_list: None, extensions: None, options: get_assertion::Options { rk: false, up: true, uv: true }, pin_auth: None, pin_protocol: None };
                ciborium::ser::into_writer(&m, &mut bytes).map_err(|e| e.to_string())?;
                let b: get_assertion::Request = ciborium::de::from_reader(&bytes[..]).map_err(|e| e.to_string())?;
                Ok(b.rp_id)
            }
            5 | 6 => {
                let m = get_assertion::Response {
                    credential: Some(desc(false, 3)),
                    auth_data: auth_data(0),
                    signature: vec![0x30, 0x06, 2, 1, 1, 2, 1, 1].into(),
                    user: Some(webauthn::PublicKeyCredentialUserEntity { id: vec![1, 2].into(), name: pick(5, "n"), display_name: pick(6, "dn") }),
                    number_of_credentials: None,
                    user_selected: None,
                    large_blob_key: None,
                    unsigned_extension_outputs: None,
                };
                ciborium::ser::into_writer(&m, &mut bytes).map_err(|e| e.to_string())?;
                let b: get_assertion::Response = ciborium::de::from_reader(&bytes[..]).map_err(|e| e.to_string())?;
                let u = b.user.ok_or("user member lost")?;
                Ok(if slot == 5 { u.name } else { u.display_name })
            }
            _ => {
                let m = make_credential::Response { fmt: t.clone(), auth_data: auth_data(1), att_stmt: Cbor::Map(vec![]), ep_att: None, large_blob_key: None, unsigned_extension_outputs: None };
                ciborium::ser::into_writer(&m, &mut bytes).map_err(|e| e.to_string())?;
                let b: make_credential::Response = ciborium::de::from_reader(&bytes[..]).map_err(|e| e.to_string())?;
                Ok(b.fmt)
            }
        }
    });
    let what = TEXT_SLOTS[slot];
    let ty = what.split('/').next().unwrap_or("");
    let shown: String = text.chars().take(40).flat_map(|c| c.escape_unicode()).collect();
    match r {
        Err(p) => vec![(format!("type={ty}/kind=panic-text-member"), format!("{what} = \"{shown}\" ({} bytes): round trip panicked: {p}", text.len()))],
        Ok(Err(e)) => vec![(format!("type={ty}/kind=round-trip-fails"), format!("{what} = \"{shown}\" ({} bytes): own serialisation does not parse: {e}", text.len()))],
        Ok(Ok(back)) if back != text => {
            let b: String = back.chars().take(40).flat_map(|c| c.escape_unicode()).collect();
            vec![(format!("type={ty}/kind=round-trip-differs"), format!("{what} = \"{shown}\" ({} bytes) reads back as \"{b}\" ({} bytes)", text.len(), back.len()))]
        }
        Ok(Ok(_)) => vec![],
    }
}

// ---- status bytes

fn status_findings() -> (Vec<Finding>, u64) {
    let mut fs = vec![];
    let mut seen: BTreeMap<String, u8> = BTreeMap::new();
    let mut n = 0u64;
    for b in 0..=255u8 {
        let case = json!({"status_byte": b});
        n += 2;
        match par::catch(|| {
            let sc = StatusCode::from(b);
            let d = format!("{sc:?}");
            let back: u8 = sc.into();
            (d, back)
        }) {
            Err(p) => fs.push(Finding::new("status/kind=panic", format!("StatusCode::from({b:#04x}) panicked: {p}"), case.clone())),
            Ok((d, back)) => {
                if back != b {
                    fs.push(Finding::new("status/kind=byte-round-trip", format!("{b:#04x} → {d} → {back:#04x}"), case.clone()));
                }
                if let Some(prev) = seen.insert(d.clone(), b) {
                    fs.push(Finding::new("status/kind=two-bytes-one-value", format!("{prev:#04x} and {b:#04x} both convert to {d}"), case.clone()));
                }
            }
        }
        // through the client: a store whose lookup fails with that byte
        let store = Faulting::new(Shared::new(RefStore::with(vec![seeded(&Seed { n: 1, rp: "example.com".into(), handle: Some(vec![1]), counter: None, hmac: None })])), [(0usize, b)].into_iter().collect());
        let auth = passkey_authenticator::Authenticator::new(Aaguid::new_empty(), store, ScriptedUv::consenting(Log::new()));
        let mut client = Client::new(auth);
        let origin = url::Url::parse("https://example.com").unwrap();
        match par::catch(|| block_on(client.authenticate(&origin, request_options(Auth::default()), DefaultClientData))) {
            Err(p) => fs.push(Finding::new("status/kind=panic", format!("authenticate with lookup failing {b:#04x} panicked: {p}"), case.clone())),
            Ok(Ok(_)) => fs.push(Finding::new("status/kind=store-error-turned-into-success", format!("lookup failed with {b:#04x} but authentication succeeded"), case.clone())),
            Ok(Err(e)) => {
                let want = if b == 0x2E { WebauthnError::CredentialNotFound } else { WebauthnError::AuthenticatorError(b) };
                if e != want {
                    fs.push(Finding::new(if b == 0x2E { "status/kind=no-credentials-not-mapped" } else { "status/kind=status-byte-not-passed-through" }, format!("lookup failed with {b:#04x}: client reported {e:?}, expected {want:?}"), case.clone()));
                }
            }
        }
    }
    (fs, n)
}

pub fn run(ctx: &Ctx) -> Result<Run, String> {
    let mut ebc = Stats::new();
    for mask in 0..64u8 {
        for get in [false, true] {
            ebc.case(&(mask, get, "ebc"), true, "per-credential-map");
            for (k, d) in ebc_one(mask, get) {
                ebc.finding(Finding::new(k, d, json!({"ebc": {"mask": mask, "get": get}})));
            }
        }
    }
    let texts = odd_texts();
    for (ti, t) in texts.iter().enumerate() {
        for slot in 0..TEXT_SLOTS.len() {
            ebc.case(&(slot, ti, "text"), true, "text-member");
            for (k, d) in text_one(slot, t) {
                ebc.finding(Finding::new(k, d, json!({"text_member": {"slot": slot, "text": t}})));
            }
        }
    }
    ebc.count("text_member_round_trips", (texts.len() * TEXT_SLOTS.len()) as u64);
    let cs = cases(ctx.tier);
    let mut stats = par::sweep_cases(&cs, ctx.threads, |c, st| {
        let (fs, o) = eval(c);
        st.case(c, true, &o);
        st.findings_from(fs);
    });
    let (fs, n) = status_findings();
    stats.evaluations += n;
    stats.count("status_byte_checks", n);
    stats.outcome("status-bytes");
    stats.findings_from(fs);
    stats.merge(ebc);
    for c in cs.iter().step_by(cs.len() / 4 + 1) {
        stats.samples.push(serde_json::to_value(c).unwrap());
    }
    let mut run = Run::from_stats(
        "exploration",
        "every text member (RP id and name, user name and displayName of requests and of assertion responses, fmt) with ~400 texts – bidi marks, language tags, separators, NUL, BOM, combining marks, NFC/NFD, full-width forms, lengths around 23/64/255/65535 – reads back code point for code point; per-credential PRF inputs for every subset of six ids of different lengths and byte orders inside makeCredential / getAssertion requests, compared entry by entry after the round trip; 2..300 unknown members appended at once to the full and to the minimal message of each type (counts around the map-header boundaries 23/24 and 255/256): still the same message; for each of the six CTAP2 message types: all presence patterns of the optional members x 4 nested-value variants (one with repeated entries in every list, one with every nested optional structure and list present but empty; plus a variant with byte-string members of more than 4 KiB), serialised with ciborium and inspected as a generic CBOR value (one map spanning all serialised bytes; keys = the specification's integers for the present members, ascending, no nulls), round-tripped; mutations of the encodings: every integer key 0..255 not assigned to a member inserted (every position for the full pattern, at the end otherwise; all positions in thorough) with int/map/bytes values, unknown text keys at every position (also case and underscore variants of every member name, and text keys that spell a number: the digits of every assigned key plain / zero-padded / signed / spaced / hexadecimal), each required member removed or moved to a key of 2, 3 or 5 bytes with the same low byte (must be an error), each present member repeated under such a wide key with another value (ignored or rejected, never taken), each present member duplicated, options omitted / empty; all 256 status bytes converted both ways and injected as lookup failure under Client::authenticate. Every case is distinct",
        true,
        stats,
    );
    run.assume("message equality is Debug-string equality (the message types do not all implement PartialEq); text keys that spell a member's camelCase name are not 'unknown' for this decoder and are not used");
    Ok(run)
}

pub fn replay(_ctx: &Ctx, case: &Value) -> Result<Vec<Finding>, String> {
    if let Some(e) = case.get("ebc") {
        return Ok(ebc_one(e["mask"].as_u64().unwrap_or(0) as u8, e["get"].as_bool().unwrap_or(false)).into_iter().map(|(k, d)| Finding::new(k, d, case.clone())).collect());
    }
    if let Some(t) = case.get("text_member") {
        return Ok(text_one(t["slot"].as_u64().unwrap_or(0) as usize % TEXT_SLOTS.len(), t["text"].as_str().unwrap_or("")).into_iter().map(|(k, d)| Finding::new(k, d, case.clone())).collect());
    }
    if case.get("status_byte").is_some() {
        let b = case["status_byte"].as_u64().unwrap_or(0) as u8;
        return Ok(status_findings().0.into_iter().filter(|f| f.case["status_byte"].as_u64() == Some(u64::from(b))).collect());
    }
    let c: Case = serde_json::from_value(case.clone()).map_err(|e| format!("bad C13 case: {e}"))?;
    Ok(eval(&c).0)
}

/// seed encodings for C15
pub fn build_public(ty: &str, pattern: u32, variant: u8) -> Result<(Vec<u8>, String), String> {
    build(ty, pattern & ((1u32 << optional_keys(ty).len()) - 1), variant)
}
