//! C10 – public-suffix lookups agree with the shipped list under the PSL algorithm.
use crate::core::par;
use crate::core::report::*;
use crate::oracles::psl::Psl;
use crate::oracles::punycode;
use public_suffix::{EffectiveTLDProvider, DEFAULT_PROVIDER};
use serde_json::{json, Value};

pub const DAT: &str = "/repo/public-suffix/public_suffix_list.dat";

fn label_count(s: &str) -> usize {
    if s.is_empty() {
        0
    } else {
        s.split('.').count()
    }
}
fn is_boundary_suffix(input: &str, out: &str) -> bool {
    // `out` must be the very slice input[i..] with i == 0 or input[i-1] == '.'
    if out.len() > input.len() || !input.ends_with(out) {
        return false;
    }
    let i = input.len() - out.len();
    i == 0 || input.as_bytes()[i - 1] == b'.'
}
/// names judged by equality with the reference: canonical ones, and ASCII names that differ from
/// canonical ones in letter case only (matched byte-wise, like everything else)
fn compare_of(name: &str) -> bool {
    canonical(name) || (Psl::well_formed(name) && name.bytes().all(|b| b.is_ascii_alphanumeric() || b == b'-' || b == b'.') && name.bytes().any(|b| b.is_ascii_uppercase()) && cased_marker(name))
}
/// the case-variant family is recognisable by its shape (used by replay): at most one label has upper-case letters
fn cased_marker(name: &str) -> bool {
    name.split('.').filter(|l| l.bytes().any(|b| b.is_ascii_uppercase())).count() == 1
}
fn canonical(name: &str) -> bool {
    Psl::well_formed(name) && name.bytes().all(|b| b.is_ascii_lowercase() || b.is_ascii_digit() || b == b'-' || b == b'.')
}

/// All checks for one name.  `compare` = demand equality with the reference matcher.
thread_local! {
    /// the names this worker thread looked up before the current one (most recent last): a lookup
    /// must be a pure function of its argument, so a discrepancy that only shows after certain
    /// earlier lookups is replayed with them
    static RECENT: std::cell::RefCell<std::collections::VecDeque<String>> = const { std::cell::RefCell::new(std::collections::VecDeque::new()) };
}
const HISTORY: usize = 3;

pub fn eval_name(psl: &Psl, name: &str, compare: bool) -> (Vec<Finding>, &'static str, bool) {
    let (mut fs, class, nt) = eval_name_inner(psl, name, compare);
    RECENT.with(|r| {
        let mut r = r.borrow_mut();
        if !fs.is_empty() {
            let hist: Vec<String> = r.iter().cloned().collect();
            for f in fs.iter_mut() {
                f.case["history"] = json!(hist);
            }
        }
        r.push_back(name.to_string());
        while r.len() > HISTORY {
            r.pop_front();
        }
    });
    (fs, class, nt)
}

fn via_bound<P: EffectiveTLDProvider>(p: &P, name: &str) -> Result<String, String> {
    <P as EffectiveTLDProvider>::effective_tld_plus_one(p, name).map(|s| s.to_string()).map_err(|e| format!("{e:?}"))
}
fn via_object(p: &dyn EffectiveTLDProvider, name: &str) -> Result<String, String> {
    p.effective_tld_plus_one(name).map(|s| s.to_string()).map_err(|e| format!("{e:?}"))
}

fn eval_name_inner(psl: &Psl, name: &str, compare: bool) -> (Vec<Finding>, &'static str, bool) {
    let mut fs = vec![];
    let case = json!({ "name": name });
    let r = par::catch(|| {
        let ps = DEFAULT_PROVIDER.public_suffix(name).to_string();
        // the three ways a caller reaches the lookup: method syntax on the concrete provider (an
        // inherent method would win here), the trait through a generic bound (how RpIdVerifier
        // calls it), and the trait through a trait object
        let e1m = DEFAULT_PROVIDER.effective_tld_plus_one(name).map(|s| s.to_string()).map_err(|e| format!("{e:?}"));
        let e1 = via_bound(&DEFAULT_PROVIDER, name);
        let e1d = via_object(&DEFAULT_PROVIDER, name);
        let tld = DEFAULT_PROVIDER.is_effective_tld(name);
        // the three ways to obtain a provider over the shipped table: the constant, new(), Default
        let made = [public_suffix::PublicSuffixList::new(), <public_suffix::PublicSuffixList as Default>::default()];
        let mut ctor = None;
        for (i, p) in made.iter().enumerate() {
            let got = (p.public_suffix(name).to_string(), via_bound(p, name), p.is_effective_tld(name));
            if got != (ps.clone(), e1.clone(), tld) && ctor.is_none() {
                ctor = Some((["PublicSuffixList::new()", "PublicSuffixList::default()"][i], got));
            }
        }
        (ps, e1, tld, e1m, e1d, ctor)
    });
    let (ps, e1, tld, e1m, e1d, ctor) = match r {
        Ok(x) => x,
        Err(p) => {
            fs.push(Finding::new(format!("kind=panic/site={}", par::panic_site(&p)), format!("lookup of {name:?} panicked: {p}"), case));
            return (fs, "panic", true);
        }
    };
    let mut bad = |kind: &str, d: String| fs.push(Finding::new(format!("kind={kind}"), d, case.clone()));
    if let Some((which, got)) = ctor {
        bad("constructors-disagree", format!("{name:?}: DEFAULT_PROVIDER gives suffix {ps:?}, eTLD+1 {e1:?}, is_effective_tld {tld}; a provider from {which} gives {got:?}"));
    }
    if e1m != e1 || e1d != e1 {
        bad("call-routes-disagree", format!("effective_tld_plus_one({name:?}): through a generic bound {e1:?}, method syntax {e1m:?}, trait object {e1d:?}"));
    }
    if !is_boundary_suffix(name, &ps) {
        bad("suffix-not-at-label-boundary", format!("public_suffix({name:?}) = {ps:?}"));
    }
    let has_empty_label = name.is_empty() || name.split('.').any(|l| l.is_empty());
    match &e1 {
        Ok(v) => {
            if has_empty_label {
                bad("empty-label-accepted", format!("effective_tld_plus_one({name:?}) = Ok({v:?}) although the name has an empty label"));
            }
            if !is_boundary_suffix(name, v) {
                bad("etld1-not-at-label-boundary", format!("effective_tld_plus_one({name:?}) = {v:?}"));
            }
            if label_count(v) != label_count(&ps) + 1 || !v.ends_with(&ps) {
                bad("etld1-not-suffix-plus-one", format!("{name:?}: suffix {ps:?}, eTLD+1 {v:?}"));
            }
        }
        Err(_) => {}
    }
    // the empty string is not judged here: the statement speaks of names *with* empty labels,
    // and effective_tld_plus_one("") is rejected above like every other name without an eTLD+1
    if has_empty_label && !name.is_empty() && tld {
        bad("empty-label-accepted", format!("is_effective_tld({name:?}) = true"));
    }
    let mut class = if e1.is_ok() { "registrable" } else { "suffix-or-rejected" };
    let mut nontrivial = false;
    // Names with non-ASCII labels to the LEFT of everything a rule can match: the lookup is
    // byte-wise on a punycode table, so such labels can only play the role of "some label"; the
    // label counts of suffix and eTLD+1 must then equal the reference's on the A-label form.
    if !compare && Psl::well_formed(name) && !name.is_ascii() {
        let labels: Vec<&str> = name.split('.').collect();
        if let Some(ascii) = punycode::to_ascii(name) {
            let al: Vec<&str> = ascii.split('.').collect();
            let k = psl.suffix_labels(&al);
            let tail_ascii = labels.iter().rev().take(k + 1).all(|l| l.bytes().all(|b| b.is_ascii_lowercase() || b.is_ascii_digit() || b == b'-'));
            if tail_ascii && al.len() == labels.len() {
                nontrivial = k > 1;
                if label_count(&ps) != k {
                    bad("public-suffix-differs", format!("public_suffix({name:?}) = {ps:?}, the PSL algorithm gives a suffix of {k} labels (the non-ASCII labels are left of every matching rule)"));
                }
                let want_e1 = labels.len() > k;
                if e1.is_ok() != want_e1 || e1.as_ref().is_ok_and(|v| label_count(v) != k + 1) {
                    bad("etld1-differs", format!("effective_tld_plus_one({name:?}) = {e1:?}, expected {} labels", k + 1));
                }
                class = "unicode-left-labels";
            }
        }
    }
    if compare {
        let labels: Vec<&str> = name.split('.').collect();
        let k = psl.suffix_labels(&labels);
        // non-trivial: decided by an explicit rule (not the implicit "*")
        let rs = psl.public_suffix(name).unwrap();
        nontrivial = k > 1 || psl.normal.contains(rs) || psl.exception.contains(name);
        if ps != rs {
            bad("public-suffix-differs", format!("public_suffix({name:?}) = {ps:?}, PSL algorithm over the .dat file gives {rs:?}"));
        }
        let re = psl.etld_plus_one(name);
        match (&e1, re) {
            (Ok(v), Some(r)) if v == r => {}
            (Err(_), None) => {}
            _ => bad("etld1-differs", format!("effective_tld_plus_one({name:?}) = {e1:?}, PSL algorithm gives {re:?}")),
        }
        if tld != (rs == name) {
            bad("is-effective-tld-differs", format!("is_effective_tld({name:?}) = {tld}, reference suffix {rs:?}"));
        }
        class = if re.is_some() { "canonical:registrable" } else { "canonical:public-suffix" };
    }
    (fs, class, nontrivial)
}

/// Names derived from one rule (A-label form, with markers).
pub fn names_for_rule(rule: &str) -> Vec<String> {
    let mut inst = vec![];
    if let Some(base) = rule.strip_prefix("*.") {
        inst.push(format!("x1.{base}"));
        inst.push(format!("zz-top.{base}"));
        inst.push(base.to_string());
    } else if let Some(r) = rule.strip_prefix('!') {
        inst.push(r.to_string());
    } else {
        inst.push(rule.to_string());
    }
    let mut out = vec![];
    for i in inst {
        out.push(i.clone());
        if let Some((_, parent)) = i.split_once('.') {
            out.push(parent.to_string());
            out.push(format!("sib.{parent}"));
        } else {
            out.push(format!("sib{i}"));
        }
        out.push(format!("w.{i}"));
        out.push(format!("v.w.{i}"));
        out.push(format!("u.v.w.{i}"));
        // deep names: 4..=12 further labels in front (the table walk has one step per label; a
        // walk that is bounded, or keeps offsets relative to the wrong end, shows only here)
        let mut deep = format!("u.v.w.{i}");
        for k in 4..=12 {
            deep = format!("l{k}.{deep}");
            out.push(deep.clone());
        }
    }
    out
}

const ALPHABET: [char; 9] = ['c', 'k', 'o', 'm', 'u', 'w', '.', 'A', 'é'];

fn nth_string(mut idx: usize, len: usize) -> String {
    let mut s = String::with_capacity(len * 2);
    for _ in 0..len {
        s.push(ALPHABET[idx % ALPHABET.len()]);
        idx /= ALPHABET.len();
    }
    s
}

/// Label vocabulary of the list: every distinct label of every rule, most frequent first.
fn vocabulary(psl: &Psl) -> Vec<String> {
    let mut freq: std::collections::HashMap<&str, usize> = Default::default();
    for r in &psl.rules {
        let body = r.trim_start_matches('!').trim_start_matches("*.");
        for l in body.split('.') {
            *freq.entry(l).or_insert(0) += 1;
        }
    }
    let mut v: Vec<(&str, usize)> = freq.into_iter().collect();
    v.sort_by(|a, b| b.1.cmp(&a.1).then(a.0.cmp(b.0)));
    v.into_iter().map(|x| x.0.to_string()).collect()
}

/// rule bodies (markers stripped), sorted the way the compiled table groups them: by reversed labels
fn sorted_bodies(psl: &Psl) -> Vec<String> {
    let mut v: Vec<String> = psl.rules.iter().map(|r| r.trim_start_matches('!').trim_start_matches("*.").to_string()).collect();
    v.sort_by_key(|b| b.split('.').rev().map(|s| s.to_string()).collect::<Vec<_>>());
    v.dedup();
    v
}

/// "label from elsewhere in the list" x "rule": L.P for every rule body P and every label L of the
/// vocabulary slice given, compared with the reference.  Bulk sweep: counted, not hashed.
fn cross_product(psl: &Psl, bodies: &[String], vocab: &[String], neighbours: usize, threads: usize) -> Stats {
    par::sweep(bodies.len(), threads, 16, |i, st| {
        let p = &bodies[i];
        let mut labels: Vec<&str> = vocab.iter().map(|s| s.as_str()).collect();
        // first labels of the rules that sit next to P in table order
        let lo = i.saturating_sub(neighbours);
        let hi = (i + neighbours + 1).min(bodies.len());
        for b in &bodies[lo..hi] {
            labels.extend(b.split('.'));
        }
        for l in labels {
            let name = format!("{l}.{p}");
            let (fs, _class, _nt) = eval_name(psl, &name, true);
            st.evaluations += 1;
            st.findings_from(fs);
        }
        st.outcome("label-x-rule");
    })
}

/// Lookups through the tiny table compared with its reference; `before` are names looked up through
/// the shipped provider immediately before each tiny lookup (and compared with the shipped list).
fn second_table(psl: &Psl, tiny_ref: &Psl, names: &[String], before: &[String], st: &mut Stats) {
    use crate::oracles::tinytable::TINY;
    for n in names {
        for d in before {
            let (fs, _, _) = eval_name(psl, d, canonical(d));
            st.findings_from(fs);
        }
        let case = json!({"tiny_table": {"name": n, "default_lookups_before": before}});
        st.case(&(n, before), true, "second-table");
        let r = par::catch(|| (TINY.public_suffix(n).to_string(), via_bound(&TINY, n), TINY.is_effective_tld(n)));
        match r {
            Err(p) => st.finding(Finding::new(format!("second-table/kind=panic/site={}", par::panic_site(&p)), format!("lookup of {n:?} through a second table panicked (after default-table lookups {before:?}): {p}"), case)),
            Ok((ps, e1, _tld)) => {
                if canonical(n) && Psl::well_formed(n) {
                    let want_ps = tiny_ref.public_suffix(n).unwrap_or("");
                    let want_e1 = tiny_ref.etld_plus_one(n);
                    if ps != want_ps {
                        st.finding(Finding::new("second-table/kind=public-suffix-differs", format!("ListProvider over the tiny table: public_suffix({n:?}) = {ps:?}, its rules give {want_ps:?} (default-table lookups before: {before:?})"), case.clone()));
                    }
                    if e1.as_deref().ok() != want_e1 {
                        st.finding(Finding::new("second-table/kind=etld1-differs", format!("ListProvider over the tiny table: effective_tld_plus_one({n:?}) = {e1:?}, its rules give {want_e1:?} (default-table lookups before: {before:?})"), case));
                    }
                }
            }
        }
    }
}

/// Every rule the generated table encodes, read off the table itself (the `Table` constants are
/// public): top-level nodes are 0..NUM_TLD, a node's children entry gives the index range of its
/// children, its own kind (a rule, an exception rule, or only a parent) and whether it has a
/// wildcard rule below it.  The table and the .dat file must hold the same rules - in both
/// directions: a rule only the table knows is reached by no name derived from the .dat file.
fn table_rules<T: public_suffix::Table>(_p: &public_suffix::ListProvider<T>) -> std::collections::BTreeSet<String> {
    fn label<T: public_suffix::Table>(i: u32) -> &'static str {
        let mut x = T::NODES[i as usize];
        let length = (x & ((1 << T::NODES_BITS_TEXT_LENGTH) - 1)) as usize;
        x >>= T::NODES_BITS_TEXT_LENGTH;
        let offset = (x & ((1 << T::NODES_BITS_TEXT_OFFSET) - 1)) as usize;
        &T::TEXT[offset..][..length]
    }
    fn walk<T: public_suffix::Table>(lo: u32, hi: u32, parent: &str, out: &mut std::collections::BTreeSet<String>, depth: usize) {
        if depth > 12 {
            return;
        }
        for f in lo..hi {
            let name = if parent.is_empty() { label::<T>(f).to_string() } else { format!("{}.{parent}", label::<T>(f)) };
            let mut u = T::NODES[f as usize] >> (T::NODES_BITS_TEXT_OFFSET + T::NODES_BITS_TEXT_LENGTH);
            u >>= T::NODES_BITS_ICANN;
            u = T::CHILDREN[(u & ((1 << T::NODES_BITS_CHILDREN) - 1)) as usize];
            let clo = u & ((1 << T::CHILDREN_BITS_LO) - 1);
            u >>= T::CHILDREN_BITS_LO;
            let chi = u & ((1 << T::CHILDREN_BITS_HI) - 1);
            u >>= T::CHILDREN_BITS_HI;
            let ty = u & ((1 << T::CHILDREN_BITS_NODE_TYPE) - 1);
            u >>= T::CHILDREN_BITS_NODE_TYPE;
            let wildcard = (u & ((1 << T::CHILDREN_BITS_WILDCARD) - 1)) != 0;
            if ty == T::NODE_TYPE_NORMAL {
                out.insert(name.clone());
            } else if ty == T::NODE_TYPE_EXCEPTION {
                out.insert(format!("!{name}"));
            }
            if wildcard {
                out.insert(format!("*.{name}"));
            }
            walk::<T>(clo, chi, &name, out, depth + 1);
        }
    }
    let mut out = std::collections::BTreeSet::new();
    walk::<T>(0, T::NUM_TLD, "", &mut out, 0);
    out
}
fn table_vs_dat(psl: &Psl, stats: &mut Stats) {
    let table = table_rules(&DEFAULT_PROVIDER);
    let dat: std::collections::BTreeSet<String> = psl.rules.iter().cloned().collect();
    stats.count("table_rules", table.len() as u64);
    stats.case(&"table-vs-dat", true, "table-vs-dat");
    for r in table.difference(&dat).take(5) {
        stats.finding(Finding::new("kind=table-rule-not-in-dat", format!("the generated table holds the rule {r:?}, which public_suffix_list.dat does not contain ({} table rules, {} list rules)", table.len(), dat.len()), json!({"table_rule": r})));
    }
    for r in dat.difference(&table).take(5) {
        stats.finding(Finding::new("kind=dat-rule-not-in-table", format!("public_suffix_list.dat holds the rule {r:?}, which the generated table does not encode"), json!({"table_rule": r})));
    }
}

pub fn run(ctx: &Ctx) -> Result<Run, String> {
    let psl = Psl::load(DAT)?;
    // harness self-check: own punycode encoder == idna on every IDN rule
    let mut idn = 0;
    for u in &psl.unicode_rules {
        let body = u.trim_start_matches('!').trim_start_matches("*.");
        let mine = punycode::to_ascii(body).ok_or("punycode failure")?;
        let theirs = idna::domain_to_ascii(body).map_err(|e| format!("idna: {e:?}"))?;
        if mine != theirs {
            return Err(format!("harness punycode encoder disagrees with idna on {body}: {mine} vs {theirs}"));
        }
        idn += 1;
    }
    // part 0: a second table in the same process.  The generic ListProvider<T> must answer for each T
    // from T's own table: lookups through the hand-encoded tiny table (oracles/tinytable.rs), before
    // the shipped provider has been touched by this process, compared with the reference matcher
    // over the tiny rules; and pairs on one thread alternating between the two tables
    let mut stats0 = Stats::new();
    let tiny_ref = crate::oracles::tinytable::reference();
    let tnames = crate::oracles::tinytable::names();
    second_table(&psl, &tiny_ref, &tnames, &[], &mut stats0);
    for a in &tnames {
        for b in &tnames {
            second_table(&psl, &tiny_ref, &[b.clone()], &[a.clone()], &mut stats0);
        }
    }
    // part 1: rule-derived names
    let mut names: Vec<String> = psl.rules.iter().flat_map(|r| names_for_rule(r)).collect();
    names.sort();
    names.dedup();
    // the same names with Unicode labels in front (compared on label counts, see eval_name)
    let unicode: Vec<String> = names.iter().step_by(2).flat_map(|n| [format!("bücher.{n}"), format!("食狮.w.{n}")]).collect();
    let ust = par::sweep_cases(&unicode, ctx.threads, |n, st| {
        let (fs, class, nt) = eval_name(&psl, n, false);
        st.case(n, nt, class);
        st.findings_from(fs);
    });
    let mut stats = par::sweep_cases(&names, ctx.threads, |n, st| {
        let (fs, class, nt) = eval_name(&psl, n, true);
        st.case(n, nt, class);
        st.findings_from(fs);
    });
    stats.merge(ust);
    stats.merge(stats0);
    table_vs_dat(&psl, &mut stats);
    // and once more after the bulk of the default-table lookups
    let mut stats9 = Stats::new();
    second_table(&psl, &tiny_ref, &tnames, &["www.example.co.uk".to_string()], &mut stats9);
    stats.merge(stats9);
    stats.count("rule_derived_names", names.len() as u64);
    stats.count("rule_derived_names_with_unicode_left_labels", unicode.len() as u64);
    for n in names.iter().step_by(names.len() / 4 + 1) {
        stats.samples.push(json!({"name": n, "reference_suffix": psl.public_suffix(n), "reference_etld1": psl.etld_plus_one(n)}));
    }
    // part 1b: labels from elsewhere in the list in front of every rule
    let vocab = vocabulary(&psl);
    let bodies = sorted_bodies(&psl);
    let nvocab = ctx.tier.pick(64usize, vocab.len());
    let cp = cross_product(&psl, &bodies, &vocab[..nvocab.min(vocab.len())], ctx.tier.pick(4, 8), ctx.threads);
    stats.count("label_x_rule_names", cp.evaluations);
    stats.merge(cp);
    // part 1c: ordered sequences on one thread – names that share labels at different levels
    // (rule l1.l2: x.l2.l1 then w.x.l1.l2; a name repeating its top label), so that state carried
    // from one lookup to the next would show; every lookup is compared with the reference
    let seq = par::sweep(bodies.len(), ctx.threads, 64, |i, st| {
        let labels: Vec<&str> = bodies[i].split('.').collect();
        let rev: Vec<&str> = labels.iter().rev().copied().collect();
        let top = labels.last().copied().unwrap_or("");
        for name in [format!("x.{}", rev.join(".")), format!("w.x.{}", bodies[i]), format!("w.{top}.{top}"), format!("w.x.{}", bodies[i]), format!("{top}.{}", bodies[i])] {
            let (fs, _class, _nt) = eval_name(&psl, &name, true);
            st.evaluations += 1;
            st.findings_from(fs);
        }
        st.outcome("ordered-sequence");
    });
    stats.count("ordered_sequence_lookups", seq.evaluations);
    stats.merge(seq);
    // part 2: all strings over the alphabet up to length L
    let maxlen = ctx.tier.pick(6, 9);
    for len in 0..=maxlen {
        let n = ALPHABET.len().pow(len as u32);
        let st = par::sweep(n, ctx.threads, 4096, |i, st| {
            let s = nth_string(i, len);
            let canon = canonical(&s);
            let (fs, class, nt) = eval_name(&psl, &s, canon);
            st.case(&s, nt, class);
            st.findings_from(fs);
        });
        stats.merge(st);
        stats.count("alphabet_strings", n as u64);
    }
    // part 3: long labels / long names / odd shapes
    let mut odd: Vec<String> = vec![];
    for l in [62usize, 63, 64, 255, 300, 5000] {
        odd.push("a".repeat(l));
        odd.push(format!("{}.com", "a".repeat(l)));
        odd.push(format!("{}.co.uk", "b".repeat(l)));
        odd.push(format!("www.{}", "c".repeat(l)));
        odd.push(vec!["a"; l].join("."));
        odd.push(format!("{}.ck", vec!["k"; l].join(".")));
    }
    // names whose labels are numbers (dotted quads and relatives): they are names like any other
    let nums = ["0", "1", "10", "127", "255", "256", "01", "999"];
    for a in nums {
        for b in nums {
            odd.push(format!("{a}.{b}"));
            for c in ["0", "1", "168", "255", "256"] {
                for d in ["0", "1", "255", "256"] {
                    odd.push(format!("{a}.{b}.{c}.{d}"));
                }
            }
        }
    }
    for s in ["::1", "::ffff:10.0.0.1", "[::1]", "1.2.3.4.5", "1.2.3", "0x7f.0.0.1", "1.1.1.1.com", "com.1.1.1.1", "192.168.0.1.co.uk"] {
        odd.push(s.to_string());
    }
    // labels of 256 + k bytes whose first k bytes are a label of the table (lengths that do not fit a
    // byte), at every level of a sample of rules and of fixed names
    for filler in [256usize, 257, 512, 65536] {
        for base in ["www.co.uk", "a.b.www.ck", "x.blogspot.com", "example.com", "a.kobe.jp"].iter().map(|s| s.to_string()).chain(names.iter().step_by(97).cloned()) {
            let labels: Vec<&str> = base.split('.').collect();
            for i in 0..labels.len() {
                let mut l: Vec<String> = labels.iter().map(|s| s.to_string()).collect();
                l[i] = format!("{}{}", labels[i], "z".repeat(filler));
                odd.push(l.join("."));
            }
        }
    }
    for s in ["", ".", "..", "...", ".com", "com.", "a..com", "COM", "Example.COM", "www.CK", "食狮.公司.cn", "公司.cn", "xn--55qx5d.cn", "\u{0}", "a\u{0}.com", " ", "a b.com", "*.ck", "!www.ck", "*", "!", "com.*", "\u{fffd}.com", "ⓔxample.com"] {
        odd.push(s.to_string());
    }
    // every printable ASCII byte (and a few others) right after and right before each dot of names of
    // 8 and more bytes: a separator search that works on machine words has one behaviour per
    // neighbouring byte (0x2D, 0x2F sit next to 0x2E)
    for base in ["www.example.com", "aaaaa.b.com", "www.example.co.uk", "x.www.ck", "a.b.c.d.e.kobe.jp", "abcdefgh.ijklmnop.qrstuvwx.yz"] {
        let dots: Vec<usize> = base.match_indices('.').map(|(i, _)| i).collect();
        for b in (0x21u8..0x7f).chain([0x01, 0x7f]).filter(|b| *b != b'.') {
            for &d in &dots {
                odd.push(format!("{}.{}{}", &base[..d], b as char, &base[d + 1..]));
                odd.push(format!("{}{}.{}", &base[..d], b as char, &base[d + 1..]));
            }
        }
    }
    // the other three code points IDNA treats as label separators, at every dot of a sample of
    // rule-derived names and of fixed names (no-crash and structural checks)
    for sep in ['\u{3002}', '\u{FF0E}', '\u{FF61}'] {
        for base in ["example.com", "www.example.co.uk", "x.www.ck", "a.b.c.d.jp", ".com", "com.", "a..b"] {
            let dots: Vec<usize> = base.match_indices('.').map(|(i, _)| i).collect();
            for &d in &dots {
                odd.push(format!("{}{sep}{}", &base[..d], &base[d + 1..]));
            }
            odd.push(base.replace('.', &sep.to_string()));
            odd.push(format!("{sep}{base}"));
            odd.push(format!("{base}{sep}"));
        }
        for n in names.iter().step_by(7) {
            if let Some(d) = n.find('.') {
                odd.push(format!("{}{sep}{}", &n[..d], &n[d + 1..]));
            }
            if let Some(d) = n.rfind('.') {
                odd.push(format!("{}{sep}{}", &n[..d], &n[d + 1..]));
            }
        }
    }
    // root dots and other empty labels around a sample of rule-derived names
    for n in names.iter().step_by(5) {
        odd.push(format!("{n}."));
        odd.push(format!("{n}.."));
        odd.push(format!(".{n}"));
        odd.push(format!("www.{n}."));
        odd.push(format!("www..{n}"));
    }
    // case variants: the lookup is byte-wise (callers pass lower case); a label that differs from a
    // rule's label in letter case is simply another label.  Every rule body with one label at a
    // time capitalised (first letter / whole label), bare and below two further labels, compared
    // with the reference matcher on the labels as given.
    let mut cased: Vec<String> = vec![];
    for r in &psl.rules {
        let body = r.trim_start_matches('!').trim_start_matches("*.");
        if !body.is_ascii() {
            continue;
        }
        let labels: Vec<&str> = body.split('.').collect();
        for i in 0..labels.len() {
            for whole in [false, true] {
                let mut l: Vec<String> = labels.iter().map(|x| x.to_string()).collect();
                l[i] = if whole { l[i].to_ascii_uppercase() } else { format!("{}{}", l[i][..1].to_ascii_uppercase(), &l[i][1..]) };
                if l[i] == labels[i] {
                    continue;
                }
                let name = l.join(".");
                cased.push(format!("www.example.{name}"));
                cased.push(name);
            }
        }
    }
    let cst = par::sweep_cases(&cased, ctx.threads, |n, st| {
        let (fs, class, nt) = eval_name(&psl, n, compare_of(n));
        st.case(n, nt, class);
        st.findings_from(fs);
    });
    stats.count("case_variant_names", cased.len() as u64);
    stats.merge(cst);
    let st = par::sweep_cases(&odd, ctx.threads, |n, st| {
        let canon = canonical(n);
        let (fs, class, nt) = eval_name(&psl, n, canon);
        st.case(n, nt, class);
        st.findings_from(fs);
    });
    stats.merge(st);
    stats.count("odd_names", odd.len() as u64);
    let rules = psl.rules.len();
    let mut run = Run::from_stats(
        "exploration",
        "the set of rules read off the generated table itself equals the set of rules of public_suffix_list.dat (both directions); a second, hand-encoded table (com, corp, intra.corp, *.lab, !gate.lab, test) behind the same generic ListProvider, looked up before, between (every ordered pair default-name/tiny-name on one thread) and after the default-table lookups and compared with the reference matcher over its own rules; every rule of public_suffix_list.dat (A-label form; wildcards instantiated with two labels and their base, exceptions without '!') as-is, with its leading label removed/replaced and with 1..12 labels prepended, compared on public_suffix / effective_tld_plus_one / is_effective_tld with a textbook PSL matcher over the .dat file; half of those names again with Unicode labels prepended (label counts must agree); every rule with each of the 64 most frequent labels of the list (thorough: every distinct label of the list) and the labels of its 4 (8) neighbours in table order in front of it; for every rule an ordered sequence of five lookups on one thread whose names share labels at different levels (reversed rule, rule, repeated top label); plus all strings over {c,k,o,m,u,w,.,A,é} up to the stated length and every rule with one label at a time capitalised (first letter / whole label), bare and below two labels, compared with the reference matcher on the labels as given; every printable ASCII byte right after and right before each dot of six names of 8+ bytes; long/odd names incl. the three other IDNA label separators (U+3002, U+FF0E, U+FF61) in place of a dot of fixed and rule-derived names (structural checks always, equality for canonical lower-case ASCII names). Non-trivial = a canonical name whose prevailing rule is an explicit rule of the list",
        true,
        stats,
    );
    run.set("rules", json!(rules));
    run.set("idn_rules_crosschecked_with_idna", json!(idn));
    run.set("alphabet", json!(ALPHABET.iter().collect::<String>()));
    run.set("max_string_length", json!(maxlen));
    run.assume("names are compared in canonical form (lower-case ASCII / punycode), the documented precondition of the lookup; mixed-case and Unicode inputs only get the structural and no-crash checks");
    Ok(run)
}

pub fn replay(_ctx: &Ctx, case: &Value) -> Result<Vec<Finding>, String> {
    let psl = Psl::load(DAT)?;
    if case.get("table_rule").is_some() {
        let mut st = Stats::new();
        table_vs_dat(&psl, &mut st);
        return Ok(st.findings.into_values().map(|x| x.0).collect());
    }
    if let Some(t) = case.get("tiny_table") {
        let name = t["name"].as_str().unwrap_or("").to_string();
        let before: Vec<String> = serde_json::from_value(t["default_lookups_before"].clone()).unwrap_or_default();
        let tiny_ref = crate::oracles::tinytable::reference();
        let r = std::thread::scope(|s| {
            s.spawn(|| {
                let mut st = Stats::new();
                second_table(&psl, &tiny_ref, &[name.clone()], &before, &mut st);
                st.findings.into_values().map(|x| x.0).collect::<Vec<_>>()
            })
            .join()
        });
        return r.map_err(|_| "replay thread panicked".to_string());
    }
    let name = case["name"].as_str().ok_or("bad C10 case")?.to_string();
    let history: Vec<String> = case.get("history").and_then(|h| serde_json::from_value(h.clone()).ok()).unwrap_or_default();
    // on a fresh thread: first alone, then after the recorded earlier lookups
    std::thread::scope(|s| {
        s.spawn(|| {
            let alone = eval_name(&psl, &name, compare_of(&name)).0;
            if !alone.is_empty() || history.is_empty() {
                return alone;
            }
            vec![]
        })
        .join()
    })
    .map_err(|_| "replay thread panicked".to_string())
    .and_then(|alone| {
        if !alone.is_empty() || history.is_empty() {
            return Ok(alone);
        }
        std::thread::scope(|s| {
            s.spawn(|| {
                for h in &history {
                    let _ = eval_name(&psl, h, compare_of(h));
                }
                let mut fs = eval_name(&psl, &name, compare_of(&name)).0;
                for f in fs.iter_mut() {
                    f.detail = format!("{} - only after the earlier lookups {history:?} on the same thread (alone the answer is right: the lookup is not a pure function of its argument)", f.detail);
                }
                fs
            })
            .join()
        })
        .map_err(|_| "replay thread panicked".to_string())
    })
}
