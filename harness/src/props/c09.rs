//! C09 – PRF results are the specified HMAC, per credential, and gated on verification.
use super::common::*;
use crate::core::exec::block_on;
use crate::core::par;
use crate::core::report::*;
use crate::drivers::*;
use crate::oracles::{b64, rp};
use hmac::{Hmac, Mac};
use passkey_types::ctap2::extensions::{AuthenticatorPrfInputs, AuthenticatorPrfValues};
use passkey_types::ctap2::{get_assertion, make_credential};
use passkey_types::webauthn::{self, AuthenticationExtensionsPrfInputs as PrfIn, AuthenticationExtensionsPrfValues as PrfVals, UserVerificationRequirement as UVR};
use serde::{Deserialize, Serialize};
use serde_json::Value;
use sha2::Sha256;
use std::collections::HashMap;

#[derive(Clone, Debug, Serialize, Deserialize, PartialEq, Eq, Hash)]
pub struct Case {
    pub hmac: u8,
    pub hmac_mc: bool,
    pub register: bool,
    pub ctap: bool,
    pub uv_required: bool,
    pub verified: bool,
    /// secrets of the target credential (authentication): 0 none, 1 uv-only, 2 both
    pub secrets: u8,
    /// 0 absent, 1 first, 2 first+second
    pub eval: u8,
    /// 0 absent, 1 empty map, 2 entry for the used id, 3 entry for the other listed id,
    /// 4 entry for an unlisted id, 5 empty key, 6 key that is not base64url, 7 / 8 / 9 key that is a
    /// strict prefix of a listed id / that id plus a byte / that id with its last byte changed
    pub ebc: u8,
    /// 0 absent, 1 empty, 2 [A, B]
    pub allow: u8,
    /// 0 prf, 1 prfAlreadyHashed, 2 both
    pub variant: u8,
    pub len: u16,
    /// length of the second input when it differs from `len`
    #[serde(default)]
    pub len2: Option<u16>,
    /// the first default input is this byte string (hex) instead of the length-`len` pattern:
    /// a constant of the library sources (raw for prf, its SHA-256 for the pre-hashed variant)
    #[serde(default)]
    pub dict: Option<String>,
    /// length of the stored secrets of the target credential (None = 32, what the library generates;
    /// imported credentials may carry others: HMAC keys of any length are defined)
    #[serde(default)]
    pub secret_len: Option<u8>,
    /// client level: the credProps extension in the same request: 0 absent, 1 true, 2 false
    /// (extensions are independent: what PRF reports does not depend on its neighbours)
    #[serde(default)]
    pub cred_props: u8,
    /// CTAP2-level assertion without a presence test (up = false): the user-validation method
    /// reports no presence, and verification as `verified` says
    #[serde(default)]
    pub no_up: bool,
}

fn pat(seed: u8, len: usize) -> Vec<u8> {
    (0..len).map(|i| seed.wrapping_add((i as u8).wrapping_mul(13))).collect()
}
fn hmac_sha256(key: &[u8], msg: &[u8]) -> Vec<u8> {
    let mut m = <Hmac<Sha256> as Mac>::new_from_slice(key).unwrap();
    m.update(msg);
    m.finalize().into_bytes().to_vec()
}
fn salt(input: &[u8], hashed: bool) -> Vec<u8> {
    if hashed {
        input.to_vec()
    } else {
        let mut m = b"WebAuthn PRF".to_vec();
        m.push(0);
        m.extend_from_slice(input);
        rp::sha256(&m)
    }
}

pub fn cases(tier: Tier) -> Vec<Case> {
    let lens: Vec<u16> = tier.pick(vec![0, 16, 32, 33, 64], vec![0, 1, 16, 31, 32, 33, 64, 255]);
    let mut v = vec![];
    for hmac in 0..3u8 {
        for hmac_mc in [false, true] {
            for uv_required in [false, true] {
                for verified in [false, true] {
                    for eval in 0..3u8 {
                        for ebc in 0..10u8 {
                            for variant in 0..3u8 {
                                for &len in &lens {
                                    v.push(Case { hmac, hmac_mc, register: true, ctap: false, uv_required, verified, secrets: 0, eval, ebc, allow: 0, variant, len, len2: None, dict: None, secret_len: None, cred_props: 0, no_up: false });
                                    for secrets in 0..3u8 {
                                        for allow in 0..3u8 {
                                            v.push(Case { hmac, hmac_mc, register: false, ctap: false, uv_required, verified, secrets, eval, ebc, allow, variant, len, len2: None, dict: None, secret_len: None, cred_props: 0, no_up: false });
                                        }
                                    }
                                }
                            }
                        }
                        // entries under a listed id that is the base64url / hex TEXT of A's id
                        for ebc in [11u8, 12, 2, 0] {
                            for secrets in 1..3u8 {
                                for variant in 0..2u8 {
                                    v.push(Case { hmac, hmac_mc, register: false, ctap: false, uv_required, verified, secrets, eval, ebc, allow: 3, variant, len: 32, len2: None, dict: None, secret_len: None, cred_props: 0, no_up: false });
                                }
                                if ebc >= 11 {
                                    v.push(Case { hmac, hmac_mc, register: false, ctap: false, uv_required, verified, secrets, eval, ebc, allow: 2, variant: 0, len: 32, len2: None, dict: None, secret_len: None, cred_props: 0, no_up: false });
                                }
                                v.push(Case { hmac, hmac_mc, register: false, ctap: true, uv_required, verified, secrets, eval, ebc, allow: 3, variant: 1, len: 32, len2: None, dict: None, secret_len: None, cred_props: 0, no_up: false });
                            }
                        }
                        // CTAP2 level: the authenticator's own salt selection
                        for ebc in [0u8, 2, 3] {
                            for secrets in 0..3u8 {
                                // CTAP2-level registration: `secrets` selects the hmac-secret member {absent, false, true}
                                v.push(Case { hmac, hmac_mc, register: true, ctap: true, uv_required, verified, secrets, eval, ebc: 0, allow: 0, variant: 1, len: 32, len2: None, dict: None, secret_len: None, cred_props: 0, no_up: false });
                                for allow in [0u8, 2] {
                                    v.push(Case { hmac, hmac_mc, register: false, ctap: true, uv_required, verified, secrets, eval, ebc, allow, variant: 1, len: 32, len2: None, dict: None, secret_len: None, cred_props: 0, no_up: false });
                                }
                            }
                        }
                    }
                }
            }
        }
    }
    // pre-hashed inputs whose two lengths differ (sums of 32 or 64 included)
    for (len, len2) in [(40u16, 24u16), (24, 40), (32, 0), (0, 32), (32, 31), (64, 0), (16, 48)] {
        for hmac in 1..3u8 {
            for ebc in [0u8, 2] {
                v.push(Case { hmac, hmac_mc: true, register: true, ctap: false, uv_required: true, verified: true, secrets: 0, eval: 2, ebc: 0, allow: 0, variant: 1, len, len2: Some(len2), dict: None, secret_len: None, cred_props: 0, no_up: false });
                v.push(Case { hmac, hmac_mc: true, register: false, ctap: false, uv_required: true, verified: true, secrets: 2, eval: 2, ebc, allow: 2, variant: 1, len, len2: Some(len2), dict: None, secret_len: None, cred_props: 0, no_up: false });
            }
        }
    }
    // every input length 0..=300 once (hash block boundaries, scratch-buffer sizes): first input of
    // length n, second of length 300 - n, through the client's own salt derivation
    for n in 0..=300u16 {
        v.push(Case { hmac: 2, hmac_mc: true, register: false, ctap: false, uv_required: true, verified: true, secrets: 2, eval: 2, ebc: if n % 2 == 0 { 0 } else { 2 }, allow: 2, variant: 0, len: n, len2: Some(300 - n), dict: None, secret_len: None, cred_props: 0, no_up: false });
        if n % 4 == 0 {
            v.push(Case { hmac: 2, hmac_mc: true, register: true, ctap: false, uv_required: true, verified: true, secrets: 0, eval: 2, ebc: 0, allow: 0, variant: 0, len: n, len2: Some(300 - n), dict: None, secret_len: None, cred_props: 0, no_up: false });
        }
    }
    // stored secrets of other lengths than the library generates (below, at and above the hash's
    // block size of 64 bytes)
    for secret_len in [0u8, 1, 16, 31, 33, 63, 64, 65, 100, 128, 255] {
        for verified in [true, false] {
            for secrets in 1..3u8 {
                for ctap in [false, true] {
                    v.push(Case { hmac: 2, hmac_mc: true, register: false, ctap, uv_required: verified, verified, secrets, eval: 2, ebc: 0, allow: 2, variant: 1, len: 32, len2: None, dict: None, secret_len: Some(secret_len), cred_props: 0, no_up: false });
                }
            }
        }
    }
    // inputs that are constants of the code: "one input per shortcut you can see in the code"
    for l in crate::core::dict::source_literals(&["passkey-client", "passkey-authenticator", "passkey-types"], 64) {
        for hmac in 1..3u8 {
            for register in [false, true] {
                for variant in 0..2u8 {
                    let bytes = if variant == 1 { rp::sha256(&l) } else { l.clone() };
                    v.push(Case { hmac, hmac_mc: true, register, ctap: false, uv_required: true, verified: true, secrets: 2, eval: 1, ebc: 0, allow: if register { 0 } else { 2 }, variant, len: bytes.len() as u16, len2: None, dict: Some(hex(&bytes)), secret_len: None, cred_props: 0, no_up: false });
                }
            }
        }
    }
    // silent assertions (no presence test) with and without a verified user, CTAP2 level
    let silent: Vec<Case> = v.iter().filter(|c| c.ctap && !c.register).map(|c| Case { no_up: true, ..c.clone() }).collect();
    v.extend(silent);
    // the credProps extension next to PRF in the same client request (32-byte inputs)
    let with_neighbour: Vec<Case> = v.iter().filter(|c| !c.ctap && c.len == 32 && c.len2.is_none() && c.dict.is_none() && c.secret_len.is_none() && c.ebc <= 2).flat_map(|c| [Case { cred_props: 1, ..c.clone() }, Case { cred_props: 2, ..c.clone() }]).collect();
    v.extend(with_neighbour);
    v.sort_by_key(|c| serde_json::to_string(c).unwrap());
    v.dedup();
    v
}

fn unhex(s: &str) -> Vec<u8> {
    (0..s.len() / 2).filter_map(|i| u8::from_str_radix(&s[2 * i..2 * i + 2], 16).ok()).collect()
}

const A: u8 = 1;
const B: u8 = 2;

struct Inputs {
    prf: Option<PrfIn>,
    hashed: Option<PrfIn>,
    /// effective variant is pre-hashed
    eff_hashed: bool,
    /// (first, second) default inputs and per-credential inputs of the effective variant
    eval: Option<(Vec<u8>, Option<Vec<u8>>)>,
    for_a: Option<(Vec<u8>, Option<Vec<u8>>)>,
}

fn text_of_a() -> Vec<u8> {
    b64::url_nopad(&cred_id(A)).into_bytes()
}
fn hex_of_a() -> Vec<u8> {
    hex(&cred_id(A)).into_bytes()
}
fn build_inputs(c: &Case) -> Inputs {
    let len = c.len as usize;
    let l2 = c.len2.map_or(len, usize::from);
    let mk = |s1: u8, s2: u8, l: usize| -> (Vec<u8>, Option<Vec<u8>>) { (pat(s1, l), (c.eval == 2).then(|| pat(s2, l2))) };
    let eval = (c.eval != 0).then(|| mk(0x11, 0x22, len)).map(|(f, s2)| (c.dict.as_deref().map(unhex).unwrap_or(f), s2));
    let entry = mk(0x33, 0x44, len);
    let entry = (entry.0, Some(pat(0x44, l2)).filter(|_| c.eval == 2));
    let to_vals = |(f, s): &(Vec<u8>, Option<Vec<u8>>)| PrfVals { first: f.clone().into(), second: s.clone().map(Into::into) };
    let ebc: Option<HashMap<String, PrfVals>> = match c.ebc {
        0 => None,
        1 => Some(HashMap::new()),
        2 => Some([(b64::url_nopad(&cred_id(A)), to_vals(&entry))].into_iter().collect()),
        3 => Some([(b64::url_nopad(&cred_id(B)), to_vals(&entry))].into_iter().collect()),
        4 => Some([(b64::url_nopad(&cred_id(7)), to_vals(&entry))].into_iter().collect()),
        5 => Some([(String::new(), to_vals(&entry))].into_iter().collect()),
        // keys in a value relation to a listed id: a strict prefix of A's id, A's id plus one byte,
        // A's id with its last byte changed - each names no listed credential
        7 => Some([(b64::url_nopad(&cred_id(A)[..8]), to_vals(&entry))].into_iter().collect()),
        8 => Some([(b64::url_nopad(&[cred_id(A), vec![0]].concat()), to_vals(&entry))].into_iter().collect()),
        9 => Some([(b64::url_nopad(&{
            let mut i = cred_id(A);
            *i.last_mut().unwrap() ^= 1;
            i
        }), to_vals(&entry))].into_iter().collect()),
        // keys that name a LISTED id which is a textual relative of A's id (the base64url text / the
        // hex text of A's id, as bytes; list kind 3 carries them): entries for another credential
        11 => Some([(b64::url_nopad(&text_of_a()), to_vals(&entry))].into_iter().collect()),
        12 => Some([(b64::url_nopad(&hex_of_a()), to_vals(&entry))].into_iter().collect()),
        _ => Some([("*not base64url*".to_string(), to_vals(&entry))].into_iter().collect()),
    };
    let main = PrfIn { eval: eval.as_ref().map(to_vals), eval_by_credential: ebc };
    // the non-effective object in the "both" variant: valid 32-byte inputs with other bytes
    let other = PrfIn { eval: Some(PrfVals { first: pat(0x55, 32).into(), second: None }), eval_by_credential: None };
    let (prf, hashed, eff_hashed) = match c.variant {
        0 => (Some(main), None, false),
        1 => (None, Some(main), true),
        _ => (Some(main), Some(other), false),
    };
    Inputs { prf, hashed, eff_hashed, eval, for_a: (c.ebc == 2).then_some(entry) }
}

/// Is the (effective) request malformed in the sense of the statement?
fn malformed(c: &Case) -> Option<&'static str> {
    let hashed = c.variant == 1;
    // a pre-hashed input is well formed only if every value it carries is 32 bytes
    let bad_len = c.len != 32 || (c.eval == 2 && c.len2.is_some_and(|l| l != 32));
    let c = &Case { len: if bad_len { 0 } else { 32 }, ..c.clone() };
    let has_entries = c.ebc >= 2;
    if c.register {
        if has_entries {
            return Some("per-credential inputs at registration");
        }
        if hashed && c.len != 32 && c.eval != 0 {
            return Some("pre-hashed input that is not 32 bytes");
        }
        return None;
    }
    if has_entries && c.allow < 2 {
        return Some("per-credential inputs without an allow list");
    }
    match c.ebc {
        11 | 12 if c.allow != 3 => return Some("unlisted credential key"),
        4 | 7 | 8 | 9 => return Some("unlisted credential key"),
        5 => return Some("empty credential key"),
        6 => return Some("undecodable credential key"),
        _ => {}
    }
    if hashed && c.len != 32 && (c.eval != 0 || has_entries) {
        return Some("pre-hashed input that is not 32 bytes");
    }
    None
}

fn target_store(c: &Case) -> Shared<RefStore> {
    let hm = |s: u8| match s {
        0 => None,
        1 => Some(false),
        _ => Some(true),
    };
    let mut rs = RefStore::with(vec![
        seeded(&Seed { n: A, rp: "example.com".into(), handle: Some(vec![1]), counter: Some(1), hmac: hm(c.secrets) }),
        seeded(&Seed { n: B, rp: "example.com".into(), handle: Some(vec![2]), counter: None, hmac: Some(true) }),
    ]);
    rs.newest_first = false;
    if let Some(l) = c.secret_len {
        if let Some(h) = rs.items[0].extensions.hmac_secret.as_mut() {
            h.cred_with_uv = (0..l).map(|i| i ^ 0x5C).collect();
            if let Some(s) = h.cred_without_uv.as_mut() {
                *s = (0..l).map(|i| i ^ 0xA3).collect();
            }
        }
    }
    Shared::new(rs)
}

struct Out {
    ok: bool,
    err: String,
    uv_bit: bool,
    used: Option<Vec<u8>>,
    /// (enabled, first, second) – None when there is no prf output at all
    prf: Option<(Option<bool>, Option<Vec<u8>>, Option<Vec<u8>>)>,
}

fn run_case(c: &Case, store: &Shared<RefStore>, log: &Log) -> Result<Out, String> {
    let inp = build_inputs(c);
    let uv = ScriptedUv { verification_cap: Some(true), presence_cap: true, outcome: UvOutcome::Ok { presence: !c.no_up, verification: c.verified }, yields: 0, log: log.clone() };
    let cfg = AuthCfg { counter: true, id_len: None, hmac: c.hmac, hmac_mc: c.hmac_mc, order: 0 };
    let logged = Logging { inner: store.clone(), log: log.clone() };
    let allow = match c.allow {
        0 => None,
        1 => Some(vec![]),
        3 => Some(vec![cred_id(A), cred_id(B), text_of_a(), hex_of_a()]),
        _ => Some(vec![cred_id(A), cred_id(B)]),
    };
    if c.ctap {
        let mut auth = mk_auth(logged, uv, &cfg);
        let vals = |(f, s): &(Vec<u8>, Option<Vec<u8>>)| AuthenticatorPrfValues { first: f.clone().try_into().unwrap(), second: s.clone().map(|s| s.try_into().unwrap()) };
        let prf = AuthenticatorPrfInputs {
            eval: inp.eval.as_ref().map(vals),
            eval_by_credential: match c.ebc {
                2 => Some([(cred_id(A).into(), vals(&(pat(0x33, 32), Some(pat(0x44, 32)).filter(|_| c.eval == 2))))].into_iter().collect()),
                3 => Some([(cred_id(B).into(), vals(&(pat(0x33, 32), None)))].into_iter().collect()),
                11 => Some([(text_of_a().into(), vals(&(pat(0x33, 32), None)))].into_iter().collect()),
                12 => Some([(hex_of_a().into(), vals(&(pat(0x33, 32), None)))].into_iter().collect()),
                _ => None,
            },
        };
        return par::catch(|| {
            if c.register {
                let hs = match c.secrets {
                    0 => None,
                    1 => Some(false),
                    _ => Some(true),
                };
                let ext = make_credential::ExtensionInputs { hmac_secret: hs, hmac_secret_mc: None, prf: Some(prf) };
                let req = mc_request("example.com", &[5], None, true, true, c.uv_required, false, Some(ext));
                match block_on(auth.make_credential(req)) {
                    Ok(r) => {
                        let fl: u8 = r.auth_data.flags.into();
                        let prf = r.unsigned_extension_outputs.and_then(|u| u.prf).map(|p| (Some(p.enabled), p.results.as_ref().map(|r| r.first.to_vec()), p.results.as_ref().and_then(|r| r.second.map(|s| s.to_vec()))));
                        Out { ok: true, err: String::new(), uv_bit: fl & rp::UV != 0, used: r.auth_data.attested_credential_data.as_ref().map(|a| a.credential_id().to_vec()), prf }
                    }
                    Err(sc) => Out { ok: false, err: format!("0x{:02x}", sc_byte(sc)), uv_bit: false, used: None, prf: None },
                }
            } else {
                let ext = get_assertion::ExtensionInputs { hmac_secret: None, prf: Some(prf) };
                let req = ga_request("example.com", allow, false, !c.no_up, c.uv_required, false, Some(ext));
                match block_on(auth.get_assertion(req)) {
                    Ok(r) => {
                        let fl: u8 = r.auth_data.flags.into();
                        let prf = r.unsigned_extension_outputs.and_then(|u| u.prf).map(|p| (None, Some(p.results.first.to_vec()), p.results.second.map(|s| s.to_vec())));
                        Out { ok: true, err: String::new(), uv_bit: fl & rp::UV != 0, used: r.credential.map(|d| d.id.to_vec()), prf }
                    }
                    Err(sc) => Out { ok: false, err: format!("0x{:02x}", sc_byte(sc)), uv_bit: false, used: None, prf: None },
                }
            }
        });
    }
    let mut client = passkey_client::Client::new(mk_auth(logged, uv, &cfg));
    let ext = Some(webauthn::AuthenticationExtensionsClientInputs { cred_props: match c.cred_props { 0 => None, 1 => Some(true), _ => Some(false) }, prf: inp.prf, prf_already_hashed: inp.hashed });
    let uvr = if c.uv_required { UVR::Required } else { UVR::Discouraged };
    let conv = |o: Option<webauthn::AuthenticationExtensionsPrfOutputs>| o.map(|p| (p.enabled, p.results.as_ref().map(|r| r.first.to_vec()), p.results.as_ref().and_then(|r| r.second.as_ref().map(|s| s.to_vec()))));
    if c.register {
        let sel = Some(webauthn::AuthenticatorSelectionCriteria { authenticator_attachment: None, resident_key: None, require_resident_key: true, user_verification: uvr });
        let opts = creation_options(Reg { selection: sel, extensions: ext, user_id: vec![5], ..Default::default() });
        Ok(match register(&mut client, Org::HostIsRp, Mode::Default, opts)? {
            Ok(cr) => Out { ok: true, err: String::new(), uv_bit: cr.response.authenticator_data.get(32).is_some_and(|f| f & rp::UV != 0), used: Some(cr.raw_id.to_vec()), prf: conv(cr.client_extension_results.prf) },
            Err(e) => Out { ok: false, err: format!("{e:?}"), uv_bit: false, used: None, prf: None },
        })
    } else {
        let opts = request_options(Auth { allow, uv: uvr, extensions: ext, ..Default::default() });
        Ok(match authenticate(&mut client, Org::HostIsRp, Mode::Default, opts)? {
            Ok(cr) => Out { ok: true, err: String::new(), uv_bit: cr.response.authenticator_data.get(32).is_some_and(|f| f & rp::UV != 0), used: Some(cr.raw_id.to_vec()), prf: conv(cr.client_extension_results.prf) },
            Err(e) => Out { ok: false, err: format!("{e:?}"), uv_bit: false, used: None, prf: None },
        })
    }
}

pub fn eval(c: &Case) -> (Vec<Finding>, String, bool) {
    let case = serde_json::to_value(c).unwrap();
    let mut fs = vec![];
    let store = if c.register { Shared::new(RefStore::new()) } else { target_store(c) };
    let log = Log::new();
    let level = if c.ctap { "ctap2" } else { "client" };
    let op = if c.register { "register" } else { "authenticate" };
    let out = match run_case(c, &store, &log) {
        Ok(o) => o,
        Err(p) => {
            fs.push(Finding::new(format!("level={level}/op={op}/kind=panic/site={}", par::panic_site(&p)), format!("ceremony panicked: {p}"), case));
            return (fs, "panic".into(), true);
        }
    };
    let mut bad = |kind: &str, d: String| fs.push(Finding::new(format!("level={level}/op={op}/kind={kind}"), d, case.clone()));
    let events = log.take();
    let reached = events.iter().any(|e| matches!(e, Event::CheckUser { .. } | Event::Find { .. } | Event::Save { .. } | Event::Update { .. }));
    let capable = c.hmac != 0;
    let inp = build_inputs(c);
    // (a) malformed requests are rejected before the authenticator is invoked (client level)
    if !c.ctap && capable {
        if let Some(why) = malformed(c) {
            if out.ok {
                bad("malformed-request-accepted", format!("{why}: the ceremony succeeded"));
            } else if reached {
                bad("malformed-request-reaches-authenticator", format!("{why}: rejected ({}) only after the authenticator was invoked", out.err));
            }
            return (fs, format!("{op}:malformed-rejected"), true);
        }
    }
    if !out.ok {
        // admissible reasons: consent, or a needed secret is missing.  A credential that carries
        // BOTH secrets lacks none, whatever the configuration of the authenticator that serves it
        if !c.register && capable && c.secrets == 2 && c.secret_len.is_none() && !(c.uv_required && !c.verified) {
            bad("failure-without-admissible-reason", format!("the user consented as required and the credential carries both secrets, yet the assertion failed ({})", out.err));
        }
        return (fs, format!("{op}:err"), c.uv_required && !c.verified);
    }
    // a verification that was asked for and performed shows in the UV bit (which secret is
    // admissible hangs on it), with or without a presence test
    if c.uv_required && c.verified && !out.uv_bit {
        bad("verified-but-uv-bit-clear", format!("verification was required and the user was verified, yet the UV bit is clear (presence test: {})", !c.no_up));
    }
    let recs = store.0.lock().unwrap().recs_ordered();
    let used = out.used.clone().unwrap_or_default();
    let rec = recs.iter().find(|r| r.id == used).cloned();
    // (d) no capability => no output, no stored secret
    if !capable {
        if out.prf.is_some() {
            bad("output-without-capability", "authenticator has no hmac-secret support, yet a prf output was returned".into());
        }
        if c.register && rec.as_ref().is_some_and(|r| r.uv_secret.is_some() || r.nouv_secret.is_some()) {
            bad("secret-stored-without-capability", "authenticator has no hmac-secret support, yet secrets were stored".into());
        }
        return (fs, format!("{op}:ok:incapable"), false);
    }
    let Some(rec) = rec else {
        bad("used-credential-not-stored", "cannot find the credential the response names".into());
        return (fs, format!("{op}:ok"), true);
    };
    let has_secrets = rec.uv_secret.is_some();
    if c.register {
        // (c) enabled <=> secrets stored (the request carries a prf object)
        let enabled = out.prf.as_ref().and_then(|p| p.0);
        if enabled == Some(true) && !has_secrets {
            bad("enabled-without-secrets", "prf.enabled = true but the new credential stores no secret".into());
        }
        if enabled != Some(true) && has_secrets {
            bad("secrets-without-enabled", format!("the new credential stores secrets but prf.enabled = {enabled:?}"));
        }
    }
    // effective inputs for the credential used
    let eff = if !c.register && used == cred_id(A) { inp.for_a.clone().or(inp.eval.clone()) } else { inp.eval.clone() };
    let results = out.prf.as_ref().map(|p| (p.1.clone(), p.2.clone())).unwrap_or((None, None));
    match (&eff, &results.0) {
        (Some((i1, i2)), Some(first)) => {
            let admissible: Vec<(&str, &Vec<u8>)> = if c.register {
                if out.uv_bit {
                    [("uv", rec.uv_secret.as_ref()), ("non-uv", rec.nouv_secret.as_ref())].into_iter().filter_map(|(n, s)| s.map(|s| (n, s))).collect()
                } else {
                    rec.nouv_secret.as_ref().map(|s| vec![("non-uv", s)]).unwrap_or_default()
                }
            } else if out.uv_bit {
                rec.uv_secret.as_ref().map(|s| vec![("uv", s)]).unwrap_or_default()
            } else {
                rec.nouv_secret.as_ref().map(|s| vec![("non-uv", s)]).unwrap_or_default()
            };
            let s1 = salt(i1, inp.eff_hashed);
            let hit = admissible.iter().find(|(_, k)| hmac_sha256(k, &s1) == *first);
            match hit {
                None => {
                    // diagnose
                    let mut why = "matches no stored secret with the specified salt".to_string();
                    for (n, k) in [("uv", rec.uv_secret.as_ref()), ("non-uv", rec.nouv_secret.as_ref())] {
                        if let Some(k) = k {
                            if hmac_sha256(k, &s1) == *first {
                                why = format!("was computed with the {n} secret, which is not admissible (UV bit {})", out.uv_bit);
                            }
                            if let Some((o1, _)) = &inp.eval {
                                if hmac_sha256(k, &salt(o1, inp.eff_hashed)) == *first && o1 != i1 {
                                    why = "was computed from the default inputs although the used credential has its own entry".into();
                                }
                            }
                            if hmac_sha256(k, &salt(i1, !inp.eff_hashed)) == *first {
                                why = "was computed with the wrong hashing of the input (hashed vs. pre-hashed)".into();
                            }
                        }
                    }
                    bad("first-result-wrong", format!("results.first {why}"));
                }
                Some((_, k)) => {
                    if let (Some(sec), Some(i2)) = (&results.1, i2) {
                        if hmac_sha256(k, &salt(i2, inp.eff_hashed)) != *sec {
                            bad("second-result-wrong", "results.second is not HMAC(secret, salt(second input)) under the secret used for the first".into());
                        }
                    }
                    if results.1.is_some() && i2.is_none() {
                        bad("second-result-without-input", "a second result although no second input was given".into());
                    }
                }
            }
        }
        (Some(_), None) => {
            if !c.register {
                bad("no-result-for-applicable-input", "inputs apply to the credential used, the ceremony succeeded, but no PRF result was returned (neither result nor error)".into());
            }
        }
        (None, Some(_)) => bad("result-without-input", "a PRF result although no input applies to the credential used".into()),
        (None, None) => {}
    }
    (fs, format!("{op}:ok:{}", if results.0.is_some() { "results" } else { "no-results" }), true)
}

pub fn run(ctx: &Ctx) -> Result<Run, String> {
    let cs = cases(ctx.tier);
    let mut stats = par::sweep_cases(&cs, ctx.threads, |c, st| {
        let (fs, o, nt) = eval(c);
        st.case(c, nt, &o);
        st.findings_from(fs);
    });
    for c in cs.iter().step_by(cs.len() / 4 + 1) {
        stats.samples.push(serde_json::to_value(c).unwrap());
    }
    // histories on ONE long-lived authenticator whose store changes behind its back (another device
    // synced new hmac-secret data, dropped it, rotated the key): every PRF answer must be the one a
    // fresh authenticator over the same store gives - the secrets used are the ones stored NOW
    {
        use super::inst::{self, IOp};
        let alphabet = [IOp::Get { who: 0, prf: true, silent: false }, IOp::Get { who: 0, prf: false, silent: false }, IOp::Get { who: 1, prf: true, silent: false }, IOp::Get { who: 4, prf: true, silent: false }, IOp::Make { rk: true, prf: true }, IOp::Synced(0), IOp::Synced(1), IOp::Synced(4), IOp::Synced(3), IOp::Get { who: 2, prf: true, silent: false }];
        let st = inst::sweep(&alphabet, ctx.tier.pick(3, 4), &[0, 1, 2], ctx.threads, "instance");
        stats.count("instance_histories", st.evaluations);
        stats.merge(st);
    }
    let n = cs.len() as u64;
    let with_results = stats.outcomes.iter().filter(|(k, _)| k.ends_with(":results")).map(|(_, v)| *v).sum::<u64>();
    let mut run = Run::from_stats(
        "model_checking",
        "complete product authenticator configuration {no hmac-secret, UV-only, with non-UV secret} x evaluation-at-creation x ceremony {register, authenticate} x userVerification {required, discouraged} x user verified {yes,no} x secrets of the target credential(3) x eval {absent, first, first+second} x evalByCredential {absent, empty, used id, other listed id, unlisted id, empty key, non-base64url key, a listed id that is the base64url / hex text of the used id} x allow list {absent, empty, [A,B]} x variant {prf, prfAlreadyHashed, both} x input length set, through the Client, plus the CTAP2-level product with per-credential inputs; secrets are read back from the store and every result recomputed with hmac/sha2; plus the complete tree of histories (depth 3, thorough 4) over {PRF assertions with A / B / a credential made in the history / no allow list, plain assertion, registration with PRF, and four out-of-band changes of A's stored record: other secrets, presence-gated secret gone, no hmac-secret data, another key} on ONE long-lived authenticator against fresh authenticators over the same store (three store kinds). Non-trivial = case that reaches the PRF logic (malformed-rejected, results, consent refusal)",
        true,
        stats,
    );
    run.graph(n, n, n);
    run.set("ceremonies_with_verified_results", serde_json::json!(with_results));
    run.assume("second results are checked when present, never demanded; at creation results are not demanded; an empty evalByCredential map is not judged");
    Ok(run)
}

pub fn replay(_ctx: &Ctx, case: &Value) -> Result<Vec<Finding>, String> {
    if let Some(fs) = super::inst::replay(case, "instance") {
        return Ok(fs);
    }
    let c: Case = serde_json::from_value(case.clone()).map_err(|e| format!("bad C09 case: {e}"))?;
    Ok(eval(&c).0)
}
