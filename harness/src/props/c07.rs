//! C07 – failed or cancelled ceremonies leave the credential store consistent.
//! Fault-plan enumeration x cancellation after every possible number of resumptions.
use super::common::{mk_auth, AuthCfg};
use crate::core::exec::{poll_n, Polled};
use crate::core::par;
use crate::core::report::*;
use crate::drivers::*;
use passkey_authenticator::{CredentialStore, MemoryStore};
use passkey_types::ctap2::extensions::{AuthenticatorPrfInputs, AuthenticatorPrfValues};
use passkey_types::ctap2::{get_assertion, make_credential};
use passkey_types::Passkey;
use serde::{Deserialize, Serialize};
use serde_json::{json, Value};
use std::collections::BTreeMap;
use std::sync::Arc;

const RP: &str = "example.com";
const U2F_APP: [u8; 32] = [0x31; 32];

#[derive(Clone, Debug, Serialize, Deserialize, PartialEq, Eq, Hash)]
pub struct Case {
    /// make:{plain,exclude-hit,exclude-miss,non-rk,prf,counter}  get:{allow,no-list,prf,counterless,prf-no-secret}
    pub request: String,
    /// ref | ref+mutex | ref+rwlock | memory+mutex | option+rwlock
    pub store: String,
    /// faultable call ordinal -> status byte
    pub plan: BTreeMap<usize, u8>,
    /// None = run to completion; Some(k) = drop the future after k polls
    pub cancel_after: Option<usize>,
}

pub const MAKE: [&str; 14] = ["make:same-user", "make:same-user-non-rk", "make:client-credprops", "make:client-credprops-prf", "make:plain", "make:exclude-hit", "make:exclude-miss", "make:non-rk", "make:prf", "make:counter", "make:prf-uv-only-unverified", "make:bad-alg", "make:pin-auth", "make:uv-unconfigured"];
pub const GET: [&str; 17] = ["get:prf-cross-config", "get:prf-cross-config-counterless", "get:two-listed-first-fails-late", "get:two-listed-first-fails-late-reversed", "get:counter-max", "get:counter-max-prf-no-secret", "get:client-prf", "get:allow", "get:no-list", "get:prf", "get:counterless", "get:prf-no-secret", "get:prf-uv-only-unverified", "get:pin-auth", "get:two-listed", "get:silent", "get:silent-prf"];
/// status bytes a faulting store answers with: success-looking, CTAP1, store-full, no-credentials,
/// "other", vendor – and every status the library raises itself (a caller that reacts to a status
/// cannot tell who raised it)
pub const CODES: [u8; 18] = [0x00, 0x01, 0x28, 0x2E, 0x7F, 0xF0, 0x2B, 0x27, 0x19, 0x26, 0x2C, 0x33, 0x30, 0x2F, 0x22, 0x14, 0x3C, 0x36];

fn seeds() -> Vec<Passkey> {
    vec![
        seeded(&Seed { n: 1, rp: RP.into(), handle: Some(vec![1]), counter: Some(10), hmac: Some(true) }),
        seeded(&Seed { n: 2, rp: RP.into(), handle: Some(vec![2]), counter: None, hmac: None }),
        seeded(&Seed { n: 3, rp: "other.org".into(), handle: Some(vec![1]), counter: Some(3), hmac: None }),
    ]
}

enum Res {
    Make(Result<Vec<u8>, u8>),
    Get(Result<(Vec<u8>, u32), u8>),
}

struct Obs {
    polled: Polled<Res>,
    before: Vec<Rec>,
    after: Vec<Rec>,
    log: Vec<Event>,
    injected: Vec<(usize, &'static str, u8)>,
}

async fn ceremony<S>(store: S, request: String, log: Log) -> Res
where
    S: CredentialStore<PasskeyItem = Passkey> + Send + Sync,
{
    let mut uv = ScriptedUv::consenting(log);
    uv.yields = 1;
    // requests named *-uv-only-unverified run on an authenticator whose PRF secrets are all
    // verification-gated while the ceremony does not ask for verification: the extension step
    // fails *late*, after consent (and, for assertions, after the counter was advanced)
    let uv_only = request.ends_with("uv-only-unverified");
    if request == "make:uv-unconfigured" {
        uv.verification_cap = Some(false);
    }
    let cfg = AuthCfg { counter: request == "make:counter", id_len: None, hmac: if uv_only { 1 } else { 2 }, hmac_mc: true, order: 0 };
    let silent = request.starts_with("get:silent");
    if silent {
        uv.outcome = UvOutcome::Ok { presence: false, verification: false };
    }
    if request.starts_with("get:prf-cross-config") {
        // present, not verified
        uv.outcome = UvOutcome::Ok { presence: true, verification: false };
    }
    // a credential that carries only the verification-gated secret (made under a UV-only
    // configuration) asserted without verification on an authenticator configured with the non-gated
    // secret: whatever the PRF step answers, an assertion writes the counter and nothing else
    let cross = request.starts_with("get:prf-cross-config");
    let ask_uv = !uv_only && !silent && !cross;
    let mut auth = mk_auth(store, uv, &cfg);
    let prf = || AuthenticatorPrfInputs { eval: Some(AuthenticatorPrfValues { first: [1; 32], second: None }), eval_by_credential: None };
    if request.contains(":client-") {
        // the same ceremonies through the WebAuthn client, with extension requests the client
        // itself has to answer (credProps) or to translate (prf)
        use passkey_types::webauthn;
        let mut client = passkey_client::Client::new(auth);
        let origin = url::Url::parse("https://example.com").unwrap();
        let byte = |e: passkey_client::WebauthnError| match e {
            passkey_client::WebauthnError::AuthenticatorError(b) => b,
            passkey_client::WebauthnError::CredentialNotFound => 0x2E,
            _ => 0xFF,
        };
        let wprf = || webauthn::AuthenticationExtensionsPrfInputs { eval: Some(webauthn::AuthenticationExtensionsPrfValues { first: vec![1, 2, 3].into(), second: None }), eval_by_credential: None };
        if request.starts_with("make") {
            let ext = Some(webauthn::AuthenticationExtensionsClientInputs { cred_props: Some(true), prf: request.ends_with("-prf").then(wprf), prf_already_hashed: None });
            let sel = Some(webauthn::AuthenticatorSelectionCriteria { authenticator_attachment: None, resident_key: None, require_resident_key: true, user_verification: Default::default() });
            let mut opts = creation_options(Reg { user_id: vec![7, 7], selection: sel, extensions: ext, ..Default::default() });
            if let Some(rest) = request.strip_prefix("make:client-att-") {
                use webauthn::{AttestationConveyancePreference as P, AttestationStatementFormatIdentifiers as F};
                let (a, f) = rest.split_once('-').unwrap_or((rest, "absent"));
                opts.public_key.attestation = match a {
                    "indirect" => P::Indirect,
                    "direct" => P::Direct,
                    "enterprise" => P::Enterprise,
                    _ => P::None,
                };
                opts.public_key.attestation_formats = match f {
                    "empty" => Some(vec![]),
                    "packed" => Some(vec![F::Packed]),
                    "none" => Some(vec![F::None]),
                    "packed+none" => Some(vec![F::Packed, F::None]),
                    "tpm+apple" => Some(vec![F::Tpm, F::Apple]),
                    _ => None,
                };
            }
            return Res::Make(client.register(&origin, opts, passkey_client::DefaultClientData).await.map(|c| c.raw_id.to_vec()).map_err(byte));
        }
        let ext = Some(webauthn::AuthenticationExtensionsClientInputs { cred_props: None, prf: Some(wprf()), prf_already_hashed: None });
        let opts = request_options(Auth { allow: Some(vec![cred_id(1)]), extensions: ext, ..Default::default() });
        return Res::Get(
            client
                .authenticate(&origin, opts, passkey_client::DefaultClientData)
                .await
                .map(|c| {
                    let ad = c.response.authenticator_data.to_vec();
                    (c.raw_id.to_vec(), ad.get(33..37).map(|b| u32::from_be_bytes([b[0], b[1], b[2], b[3]])).unwrap_or(0))
                })
                .map_err(byte),
        );
    }
    if request.starts_with("make:u2f") {
        // U2F registration: the caller chooses the key handle - a fresh one, or one that is already
        // the id of a credential held for ANOTHER relying party (the store is keyed by id)
        use passkey_authenticator::U2fApi;
        let handle = if request.ends_with("clash") { cred_id(1) } else { vec![0x77; 20] };
        let req = passkey_types::u2f::RegisterRequest { challenge: [2; 32], application: U2F_APP };
        return Res::Make(U2fApi::register(&mut auth, req, &handle).await.map(|r| r.key_handle.to_vec()).map_err(|_| 0xFF));
    }
    if request.starts_with("make") {
        let exclude = match request.as_str() {
            "make:exclude-hit" => Some(vec![cred_id(1)]),
            "make:exclude-miss" => Some(vec![cred_id(3), vec![0xEE; 16]]),
            _ => None,
        };
        let ext = (request == "make:prf" || uv_only).then(|| make_credential::ExtensionInputs { hmac_secret: Some(true), hmac_secret_mc: None, prf: Some(prf()) });
        // make:same-user*: the account (user handle 01) already has a credential at this RP
        let uid: &[u8] = if request.starts_with("make:same-user") { &[1] } else { &[7, 7] };
        let mut req = mc_request(RP, uid, exclude, request != "make:non-rk" && request != "make:same-user-non-rk", true, ask_uv, request == "make:pin-auth", ext);
        if request == "make:bad-alg" {
            req.pub_key_cred_params = vec![param(coset::iana::Algorithm::RS256)];
        }
        Res::Make(auth.make_credential(req).await.map(|r| r.auth_data.attested_credential_data.as_ref().map(|a| a.credential_id().to_vec()).unwrap_or_default()).map_err(sc_byte))
    } else {
        let (allow, ext) = match request.as_str() {
            "get:allow" | "get:counter-max" => (Some(vec![cred_id(1)]), None),
            "get:counter-max-prf-no-secret" => (Some(vec![cred_id(1)]), Some(get_assertion::ExtensionInputs { hmac_secret: None, prf: Some(prf()) })),
            "get:prf" | "get:prf-cross-config" | "get:prf-cross-config-counterless" => (Some(vec![cred_id(1)]), Some(get_assertion::ExtensionInputs { hmac_secret: None, prf: Some(prf()) })),
            "get:counterless" => (Some(vec![cred_id(2)]), None),
            // counter is advanced, then the PRF step fails because the credential has no secret
            "get:prf-no-secret" => (Some(vec![vec![0xEE; 16], cred_id(1)]), Some(get_assertion::ExtensionInputs { hmac_secret: None, prf: Some(prf()) })),
            "get:prf-uv-only-unverified" => (Some(vec![cred_id(1)]), Some(get_assertion::ExtensionInputs { hmac_secret: None, prf: Some(prf()) })),
            "get:pin-auth" => (Some(vec![cred_id(1)]), None),
            "get:two-listed" => (Some(vec![cred_id(2), cred_id(1)]), None),
            // both listed credentials have counters; the one the store lists first has no PRF secret,
            // so the ceremony fails after ITS counter write - the other credential must stay untouched
            "get:two-listed-first-fails-late" => (Some(vec![cred_id(4), cred_id(5)]), Some(get_assertion::ExtensionInputs { hmac_secret: None, prf: Some(prf()) })),
            "get:two-listed-first-fails-late-reversed" => (Some(vec![cred_id(5), cred_id(4)]), Some(get_assertion::ExtensionInputs { hmac_secret: None, prf: Some(prf()) })),
            "get:silent" => (Some(vec![cred_id(1)]), None),
            "get:silent-prf" => (Some(vec![cred_id(1)]), Some(get_assertion::ExtensionInputs { hmac_secret: None, prf: Some(prf()) })),
            _ => (None, None),
        };
        let req = ga_request(RP, allow, false, !silent, ask_uv, request == "get:pin-auth", ext);
        Res::Get(auth.get_assertion(req).await.map(|r| (r.credential.map(|d| d.id.to_vec()).unwrap_or_default(), r.auth_data.counter.unwrap_or(0))).map_err(sc_byte))
    }
}

fn observe(c: &Case) -> Obs {
    let log = Log::new();
    let mut seeds = seeds();
    if c.request == "get:prf-uv-only-unverified" {
        seeds[0] = seeded(&Seed { n: 1, rp: RP.into(), handle: Some(vec![1]), counter: Some(10), hmac: Some(false) });
    }
    // the stored counter at its ceiling (the reported value saturates; the record must not change
    // in any other way), alone and with a PRF step that fails after the counter write
    if c.request.starts_with("get:counter-max") {
        seeds[0] = seeded(&Seed { n: 1, rp: RP.into(), handle: Some(vec![1]), counter: Some(u32::MAX), hmac: if c.request.ends_with("no-secret") { None } else { Some(true) } });
    }
    if c.request.starts_with("get:two-listed-first-fails-late") {
        seeds.push(seeded(&Seed { n: 4, rp: RP.into(), handle: Some(vec![4]), counter: Some(20), hmac: None }));
        seeds.push(seeded(&Seed { n: 5, rp: RP.into(), handle: Some(vec![5]), counter: Some(30), hmac: Some(true) }));
    }
    if c.request.starts_with("get:prf-cross-config") {
        seeds[0] = seeded(&Seed { n: 1, rp: RP.into(), handle: Some(vec![1]), counter: if c.request.ends_with("counterless") { None } else { Some(10) }, hmac: Some(false) });
    }
    if c.request == "get:prf-no-secret" {
        // credential 1 without PRF secrets
        seeds[0] = seeded(&Seed { n: 1, rp: RP.into(), handle: Some(vec![1]), counter: Some(10), hmac: None });
    }
    macro_rules! run {
        ($store:expr, $recs:expr, $inj:expr) => {{
            let before: Vec<Rec> = $recs;
            let polled = poll_n(ceremony($store, c.request.clone(), log.clone()), c.cancel_after);
            let after: Vec<Rec> = $recs;
            Obs { polled, before, after, log: log.take(), injected: $inj }
        }};
    }
    match c.store.as_str() {
        "ref" | "ref+mutex" | "ref+rwlock" => {
            let mut rs = RefStore::with(seeds);
            rs.newest_first = false;
            let base = Shared::new(rs);
            let f = Faulting::new(Yielding { inner: base.clone(), before: 1, after: 0 }, c.plan.clone());
            let inj = f.injected.clone();
            match c.store.as_str() {
                "ref" => run!(Logging { inner: f, log: log.clone() }, base.recs(), inj.lock().unwrap().clone()),
                "ref+mutex" => run!(Logging { inner: Arc::new(tokio::sync::Mutex::new(f)), log: log.clone() }, base.recs(), inj.lock().unwrap().clone()),
                _ => run!(Logging { inner: Arc::new(tokio::sync::RwLock::new(f)), log: log.clone() }, base.recs(), inj.lock().unwrap().clone()),
            }
        }
        "memory+mutex" => {
            let m: MemoryStore = seeds.into_iter().map(|p| (p.credential_id.to_vec(), p)).collect();
            let shared = Arc::new(tokio::sync::Mutex::new(Yielding { inner: m, before: 1, after: 0 }));
            run!(Logging { inner: Yielding { inner: shared.clone(), before: 1, after: 0 }, log: log.clone() }, shared.recs(), vec![])
        }
        _ => {
            let shared = Arc::new(tokio::sync::RwLock::new(Yielding { inner: seeds.into_iter().next(), before: 1, after: 0 }));
            run!(Logging { inner: Yielding { inner: shared.clone(), before: 1, after: 0 }, log: log.clone() }, shared.recs(), vec![])
        }
    }
}

fn well_formed_new(r: &Rec, request: &str) -> Result<(), String> {
    if r.rp != RP {
        return Err(format!("rp {:?}", r.rp));
    }
    if r.id.len() != 16 {
        return Err(format!("id length {}", r.id.len()));
    }
    match r.d.as_ref().map(|d| crate::oracles::rp::public_of(d)) {
        Some(Ok(_)) => {}
        _ => return Err("no valid private key".into()),
    }
    if r.handle.is_none() {
        return Err("no user handle although the store forces discoverability".into());
    }
    if (request == "make:counter") != r.counter.is_some() {
        return Err(format!("counter {:?}", r.counter));
    }
    if request == "make:prf" && r.uv_secret.is_none() {
        return Err("PRF requested but no secret stored".into());
    }
    Ok(())
}

pub fn eval(c: &Case) -> (Vec<Finding>, String, usize) {
    let case = serde_json::to_value(c).unwrap();
    let mut fs = vec![];
    let o = match par::catch(|| observe(c)) {
        Ok(o) => o,
        Err(p) => {
            fs.push(Finding::new(format!("request={}/kind=panic/site={}", c.request, par::panic_site(&p)), format!("ceremony panicked: {p}"), case));
            return (fs, "panic".into(), 0);
        }
    };
    let is_make = c.request.starts_with("make");
    let tag = c.request.split(':').next().unwrap_or("").to_string();
    let mut bad = |kind: &str, d: String| fs.push(Finding::new(format!("op={tag}/kind={kind}"), format!("{d}; request={} store={} plan={:?} cancel_after={:?}", c.request, c.store, c.plan, c.cancel_after), case.clone()));
    let new: Vec<&Rec> = o.after.iter().filter(|r| !o.before.iter().any(|b| b.id == r.id)).collect();
    let old_intact = o.before.iter().all(|b| o.after.contains(b));
    let saves_ok: Vec<&Event> = o.log.iter().filter(|e| matches!(e, Event::Save { result: Ok(()), .. })).collect();
    let write_fault = o.injected.iter().find(|(_, what, _)| *what == "save" || *what == "update");
    let (polls, outcome): (usize, String);
    match &o.polled {
        Polled::Stuck { polls: p } => {
            bad("stuck", format!("the ceremony is pending after {p} polls and nothing will wake it"));
            return (fs, "stuck".into(), *p);
        }
        Polled::Cancelled { polls: p } if c.request.starts_with("make:u2f") => {
            polls = *p;
            outcome = "cancelled".into();
            if o.after != o.before {
                if let Err(e) = u2f_store_ok(&o.before, &o.after, c.request.ends_with("clash")) {
                    bad("cancelled-registration-left-partial-state", e);
                }
            }
        }
        Polled::Cancelled { polls: p } => {
            polls = *p;
            outcome = "cancelled".into();
            if is_make {
                let ok_plain = o.after == o.before;
                let single_slot = c.store.starts_with("option");
                let ok_one = if single_slot { new.len() == 1 && o.after.len() == 1 && well_formed_new(new[0], &c.request).is_ok() } else { new.len() == 1 && old_intact && o.after.len() == o.before.len() + 1 && well_formed_new(new[0], &c.request).is_ok() };
                if !(ok_plain || ok_one) {
                    bad("cancelled-registration-left-partial-state", format!("store {} → {} records, {} new, old intact {old_intact}, new record: {:?}", o.before.len(), o.after.len(), new.len(), new.first().map(|r| well_formed_new(r, &c.request))));
                }
            } else {
                check_auth_store_delta(&o, &mut bad, "cancelled");
            }
        }
        Polled::Done { value, polls: p } => {
            polls = *p;
            match value {
                Res::Make(Err(b)) => {
                    outcome = format!("make:err:{b:02x}");
                    if o.after != o.before {
                        bad("failed-registration-changed-store", format!("registration returned {b:#04x} but the store went {} → {} records", o.before.len(), o.after.len()));
                    }
                }
                Res::Make(Ok(id)) if c.request.starts_with("make:u2f") => {
                    outcome = "make:ok".into();
                    if saves_ok.is_empty() {
                        bad("success-without-accepted-save", "the response exists although no save_credential call returned Ok".into());
                    }
                    let clash = c.request.ends_with("clash");
                    if *id != if clash { cred_id(1) } else { vec![0x77; 20] } {
                        bad("u2f-key-handle-not-echoed", format!("returned key handle {}", hex(id)));
                    }
                    if let Err(e) = u2f_store_ok(&o.before, &o.after, clash) {
                        bad("success-but-store-does-not-hold-the-registration", e);
                    }
                }
                Res::Make(Ok(id)) => {
                    outcome = "make:ok".into();
                    if let Some((k, what, b)) = write_fault {
                        bad("store-error-turned-into-success", format!("store call #{k} ({what}) failed with {b:#04x} yet the registration succeeded"));
                    }
                    if saves_ok.is_empty() {
                        bad("success-without-accepted-save", "the response exists although no save_credential call returned Ok".into());
                    }
                    let single_slot = c.store.starts_with("option");
                    if single_slot && !(new.len() == 1 && new[0].id == *id && o.after.len() == 1) {
                        bad("success-but-slot-does-not-hold-the-new-credential", format!("the single-slot store holds {:?} after a successful registration of {}", o.after.iter().map(|r| hex(&r.id)).collect::<Vec<_>>(), hex(id)));
                    } else if !single_slot && !(new.len() == 1 && new[0].id == *id && old_intact) {
                        bad("success-but-store-not-extended", format!("{} new records", new.len()));
                    } else if let Err(e) = well_formed_new(new[0], &c.request) {
                        bad("stored-record-malformed", e);
                    }
                }
                Res::Get(Err(b)) => {
                    outcome = format!("get:err:{b:02x}");
                    check_auth_store_delta(&o, &mut bad, "failed");
                }
                Res::Get(Ok((id, counter))) => {
                    let counter = *counter;
                    outcome = "get:ok".into();
                    if let Some((k, what, b)) = write_fault {
                        bad("store-error-turned-into-success", format!("store call #{k} ({what}) failed with {b:#04x} yet an assertion was returned"));
                    }
                    let had_counter = o.before.iter().find(|r| r.id == *id).and_then(|r| r.counter);
                    if let Some(prev) = had_counter {
                        let accepted = o.log.iter().any(|e| matches!(e, Event::Update { id: uid, counter: Some(cn), result: Ok(()) } if uid == id && *cn == counter));
                        if !accepted {
                            bad("assertion-without-accepted-counter", format!("assertion reports counter {counter} (was {prev}) but no update_credential carrying it returned Ok"));
                        }
                        let now = o.after.iter().find(|r| r.id == *id).and_then(|r| r.counter);
                        if now != Some(counter) {
                            bad("store-counter-differs-from-reported", format!("reported {counter}, stored {now:?}"));
                        }
                        // nothing but the counter may change, and only on the credential used
                        let same_but_counter = o.before.iter().all(|b| {
                            o.after.iter().any(|a| {
                                let mut b2 = b.clone();
                                if b.id == *id {
                                    b2.counter = a.counter;
                                }
                                *a == b2
                            })
                        }) && o.before.len() == o.after.len();
                        if !same_but_counter {
                            bad("successful-assertion-altered-record", "a successful assertion changed more than the used credential's counter".into());
                        }
                    } else if o.after != o.before {
                        bad("counterless-assertion-changed-store", "store changed by an assertion with a counter-less credential".into());
                    }
                }
            }
        }
    }
    (fs, outcome, polls)
}

/// After a U2F registration (fresh handle, or a handle that was another RP's credential id): exactly
/// one record has the handle as id, it is bound to base64url(application) with a valid key, and every
/// other record is as before.
fn u2f_store_ok(before: &[Rec], after: &[Rec], clash: bool) -> Result<(), String> {
    let handle = if clash { cred_id(1) } else { vec![0x77; 20] };
    let want_rp = crate::oracles::b64::url_nopad(&U2F_APP);
    let mine: Vec<&Rec> = after.iter().filter(|r| r.id == handle).collect();
    if mine.len() != 1 {
        return Err(format!("{} records with the key handle as id", mine.len()));
    }
    if mine[0].rp != want_rp {
        return Err(format!("the record with the key handle is bound to {:?}, not to the application", mine[0].rp));
    }
    if !matches!(mine[0].d.as_ref().map(|d| crate::oracles::rp::public_of(d)), Some(Ok(_))) {
        return Err("the stored record has no valid private key".into());
    }
    if !before.iter().filter(|b| b.id != handle).all(|b| after.contains(b)) || after.len() != before.iter().filter(|b| b.id != handle).count() + 1 {
        return Err(format!("other records changed: {} → {} records", before.len(), after.len()));
    }
    Ok(())
}

fn check_auth_store_delta(o: &Obs, bad: &mut impl FnMut(&str, String), how: &str) {
    // unchanged except that exactly one credential's counter may have advanced by one
    if o.before.len() != o.after.len() {
        bad(&format!("{how}-authentication-changed-store"), format!("{} → {} records", o.before.len(), o.after.len()));
        return;
    }
    let mut advanced = 0;
    for b in &o.before {
        match o.after.iter().find(|a| a.id == b.id) {
            None => bad(&format!("{how}-authentication-changed-store"), "a credential disappeared".into()),
            Some(a) if a == b => {}
            Some(a) => {
                let mut b2 = b.clone();
                b2.counter = b.counter.map(|c| c.wrapping_add(1));
                if *a == b2 && b.counter.is_some() {
                    advanced += 1;
                } else {
                    bad(&format!("{how}-authentication-altered-record"), format!("record {} changed beyond counter+1: counter {:?} → {:?}", hex(&b.id[..4]), b.counter, a.counter));
                }
            }
        }
    }
    if advanced > 1 {
        bad(&format!("{how}-authentication-changed-store"), format!("{advanced} counters advanced"));
    }
}

fn plans(tier: Tier) -> Vec<BTreeMap<usize, u8>> {
    let mut v: Vec<BTreeMap<usize, u8>> = vec![BTreeMap::new()];
    let ordinals = 0..3usize;
    for k in ordinals.clone() {
        for code in CODES {
            v.push([(k, code)].into_iter().collect());
        }
    }
    for mask in 1u8..8 {
        let subset: Vec<usize> = (0..3).filter(|i| mask & (1 << i) != 0).collect();
        if subset.len() >= 2 {
            let codes: Vec<u8> = if tier == Tier::Thorough { CODES.to_vec() } else { vec![0x28] };
            for code in codes {
                v.push(subset.iter().map(|k| (*k, code)).collect());
            }
        }
    }
    if tier == Tier::Thorough {
        for k in 0..3usize {
            for b in 0..=255u8 {
                if !CODES.contains(&b) {
                    v.push([(k, b)].into_iter().collect());
                }
            }
        }
    }
    v
}

/// (request, store, plan) triples; cancellation points are expanded per triple at run time.
pub fn bases(tier: Tier) -> Vec<Case> {
    let mut v = vec![];
    // registrations through the client with every attestation preference x attestationFormats shape
    // (request content the client looks at on its own; whenever it answers with an error, nothing
    // may have been stored)
    let mut att: Vec<String> = vec![];
    for a in ["none", "indirect", "direct", "enterprise"] {
        for f in ["absent", "empty", "packed", "none", "packed+none", "tpm+apple"] {
            att.push(format!("make:client-att-{a}-{f}"));
        }
    }
    att.push("make:u2f-fresh".into());
    att.push("make:u2f-clash".into());
    let all: Vec<String> = MAKE.iter().chain(GET.iter()).map(|s| s.to_string()).chain(att).collect();
    for request in all.iter().map(|s| s.as_str()) {
        for store in ["ref", "ref+mutex", "ref+rwlock"] {
            // (what the contract store does with a second record of the same id is its own affair:
            // the clash runs on the shipped in-memory store only)
            if request == "make:u2f-clash" {
                continue;
            }
            for plan in plans(tier) {
                v.push(Case { request: request.to_string(), store: store.into(), plan, cancel_after: None });
            }
        }
        for store in ["memory+mutex", "option+rwlock"] {
            // the in-memory store answers id-less lookups with NoCredentials and the single slot
            // holds one credential: keep the requests that make sense for them
            // (a registration into the occupied single slot replaces its content by design: afterwards
            // the slot holds the new credential and nothing else)
            if request.starts_with("make:u2f") && store != "memory+mutex" {
                continue;
            }
            if store == "option+rwlock" && !matches!(request, "get:allow" | "get:prf" | "make:plain" | "make:counter" | "make:prf" | "make:client-credprops") {
                continue;
            }
            if request == "get:no-list" && store == "memory+mutex" {
                continue;
            }
            v.push(Case { request: request.to_string(), store: store.into(), plan: BTreeMap::new(), cancel_after: None });
        }
    }
    v
}

// ------------------------------------------------------------------------------------------
// caller-supplied client data: the embedder may implement ClientData itself – hand in the hash,
// extra members, or both – and extras that cannot be flattened into the client-data JSON (a bare
// string, a number, a list) make the client give up.  Whether it gives up with an error or by
// panicking, and wherever in the ceremony it notices, a ceremony that did not succeed leaves the
// store as it was.
struct OwnClientData<E> {
    hash: Option<Vec<u8>>,
    extra: E,
}
impl<E: Serialize + Clone> passkey_client::ClientData<E> for OwnClientData<E> {
    fn extra_client_data(&self) -> E {
        self.extra.clone()
    }
    fn client_data_hash(&self) -> Option<Vec<u8>> {
        self.hash.clone()
    }
}
#[derive(Clone, Serialize)]
struct PkgExtra {
    #[serde(rename = "androidPackageName")]
    android_package_name: String,
}
/// a value whose serialisation fails on its own
#[derive(Clone)]
struct Unserialisable;
impl Serialize for Unserialisable {
    fn serialize<S: serde::Serializer>(&self, _s: S) -> Result<S::Ok, S::Error> {
        Err(serde::ser::Error::custom("injected: this extra refuses to serialise"))
    }
}
const EXTRAS: [&str; 10] = ["unit", "struct", "map", "empty-map", "string", "integer", "list", "null-option", "bool", "unserialisable"];
const HASHES: [&str; 4] = ["none", "32-bytes", "empty", "5-bytes"];
fn own_client_data_one(get: bool, store: &str, extra: &str, hash: &str, counter: bool) -> Vec<(String, String)> {
    let hashv = match hash {
        "32-bytes" => Some(vec![0xC4; 32]),
        "empty" => Some(vec![]),
        "5-bytes" => Some(vec![1, 2, 3, 4, 5]),
        _ => None,
    };
    let log = Log::new();
    let uv = ScriptedUv::consenting(log.clone());
    let cfg = AuthCfg { counter, id_len: None, hmac: 2, hmac_mc: true, order: 0 };
    let origin = url::Url::parse("https://example.com").unwrap();
    let mk_opts = || creation_options(Reg { user_id: vec![7, 7], ..Default::default() });
    let get_opts = || request_options(Auth { allow: Some(vec![cred_id(1)]), ..Default::default() });
    // returns Ok(true) success, Ok(false) error, Err = panic
    macro_rules! drive {
        ($store:expr) => {{
            let auth = mk_auth($store, uv.clone(), &cfg);
            let mut client = passkey_client::Client::new(auth);
            macro_rules! go {
                ($e:expr) => {{
                    let cd = OwnClientData { hash: hashv.clone(), extra: $e };
                    par::catch(std::panic::AssertUnwindSafe(|| if get { crate::core::exec::block_on(client.authenticate(&origin, get_opts(), cd)).map(|_| ()).map_err(|e| format!("{e:?}")) } else { crate::core::exec::block_on(client.register(&origin, mk_opts(), cd)).map(|_| ()).map_err(|e| format!("{e:?}")) }))
                }};
            }
            match extra {
                "struct" => go!(PkgExtra { android_package_name: "com.example.app".into() }),
                "map" => go!(json!({"vendor": {"a": 1}, "z": [1, 2]})),
                "empty-map" => go!(json!({})),
                "string" => go!("extra".to_string()),
                "integer" => go!(7u32),
                "list" => go!(vec![1u8, 2, 3]),
                "null-option" => go!(Option::<PkgExtra>::None),
                "bool" => go!(true),
                "unserialisable" => go!(Unserialisable),
                _ => go!(()),
            }
        }};
    }
    let (before, result, after): (Vec<Rec>, Result<Result<(), String>, String>, Vec<Rec>) = match store {
        "memory+mutex" => {
            let m: MemoryStore = seeds().into_iter().map(|p| (p.credential_id.to_vec(), p)).collect();
            let shared = Arc::new(tokio::sync::Mutex::new(m));
            let b = shared.recs();
            let r = drive!(shared.clone());
            (b, r, shared.recs())
        }
        "option+rwlock" => {
            let shared = Arc::new(tokio::sync::RwLock::new(seeds().into_iter().next()));
            let b = shared.recs();
            let r = drive!(shared.clone());
            (b, r, shared.recs())
        }
        _ => {
            let mut rs = RefStore::with(seeds());
            rs.newest_first = false;
            let base = Shared::new(rs);
            let b = base.recs();
            let r = drive!(base.clone());
            (b, r, base.recs())
        }
    };
    let op = if get { "get" } else { "make" };
    let what = format!("{} through the client with caller-supplied client data (extra: {extra}, hash: {hash}) on the {store} store", if get { "assertion" } else { "registration" });
    let mut v = vec![];
    match result {
        Ok(Ok(())) => {
            if !get {
                let new = after.iter().filter(|r| !before.iter().any(|b| b.id == r.id)).count();
                if new != 1 {
                    v.push((format!("op={op}/kind=success-but-store-not-extended"), format!("{what}: succeeded, {new} new records")));
                }
            }
        }
        Ok(Err(e)) => {
            if get {
                // an assertion that fails late may have advanced the counter of the credential it tried, nothing else
                let same = before.len() == after.len() && before.iter().all(|b| after.iter().any(|a| { let mut b2 = b.clone(); b2.counter = a.counter; *a == b2 && a.counter >= b.counter }));
                if !same {
                    v.push((format!("op={op}/kind=failed-assertion-altered-record"), format!("{what}: returned {e}, store changed beyond a counter")));
                }
            } else if after != before {
                v.push((format!("op={op}/kind=failed-registration-changed-store"), format!("{what}: returned {e} but the store went {} → {} records", before.len(), after.len())));
            }
        }
        Err(p) => {
            if !get && after != before {
                v.push((format!("op={op}/kind=failed-registration-changed-store"), format!("{what}: panicked ({}) and the store went {} → {} records", p.chars().take(80).collect::<String>(), before.len(), after.len())));
            }
            if get && (before.len() != after.len()) {
                v.push((format!("op={op}/kind=failed-assertion-altered-record"), format!("{what}: panicked and the store went {} → {} records", before.len(), after.len())));
            }
        }
    }
    v
}
fn own_client_data(stats: &mut Stats) {
    for get in [false, true] {
        for store in ["ref", "memory+mutex", "option+rwlock"] {
            for extra in EXTRAS {
                for hash in HASHES {
                    for counter in [false, true] {
                        let case = json!({"own_client_data": {"get": get, "store": store, "extra": extra, "hash": hash, "counter": counter}});
                        stats.case(&(get, store, extra, hash, counter, "own-client-data"), true, "own-client-data");
                        for (k, d) in own_client_data_one(get, store, extra, hash, counter) {
                            stats.finding(Finding::new(k, d, case.clone()));
                        }
                    }
                }
            }
        }
    }
    stats.count("caller_supplied_client_data_ceremonies", (2 * 3 * EXTRAS.len() * HASHES.len() * 2) as u64);
}

pub fn run(ctx: &Ctx) -> Result<Run, String> {
    let bs = bases(ctx.tier);
    let mut stats = par::sweep_cases(&bs, ctx.threads, |b, st| {
        let (fs, outcome, polls) = eval(b);
        st.case(b, !b.plan.is_empty() || true, &outcome);
        st.max("max_polls_to_completion", polls as u64);
        st.findings_from(fs);
        // every cancellation point of this (request, store, plan)
        for k in 0..polls {
            let c = Case { cancel_after: Some(k), ..b.clone() };
            let (fs, outcome, _) = eval(&c);
            st.case(&c, true, &outcome);
            st.count("cancellation_points", 1);
            st.findings_from(fs);
        }
    });
    own_client_data(&mut stats);
    for b in bs.iter().step_by(bs.len() / 3 + 1) {
        stats.samples.push(json!({"request": b.request, "store": b.store, "plan": b.plan, "cancel_after": "None and every k < polls-to-completion"}));
    }
    let mut run = Run::from_stats(
        "fault_enumeration",
        "requests {make for a user handle that already has a credential at the RP (discoverable and not), make through the client with credProps (and prf), make through the client with every attestation preference (4) x attestationFormats shape (absent, empty, [packed], [none], [packed, none], [tpm, apple]), get through the client with prf; make: plain, exclude-list hit, exclude-list miss, non-rk, PRF, counter, PRF evaluation that fails late (verification-gated secrets, unverified ceremony), unsupported algorithm, pin-auth, verification unconfigured; get: allow list, no list, PRF, counter-less, PRF on a credential without secret, PRF without verification on a credential that carries only the gated secret under a configuration with the non-gated one (with and without counter), PRF that fails late, stored counter at 2^32-1 (with and without a late failure), pin-auth, two listed credentials, two listed credentials with counters of which the first fails after its counter write (both list orders), silent (up = uv = false, nothing reported) with and without PRF} x store stack {contract store, behind Arc<Mutex>, behind Arc<RwLock>} x fault plans over the faultable store calls (every single call x 6 status codes, every subset of >= 2 calls with KeyStoreFull; thorough: subsets x 6 codes and single faults x all 256 bytes) x cancellation after every k < polls-to-completion (every store call and the user step suspend once); plus U2F registrations with a fresh key handle and with a key handle that is already the id of another relying party's credential, on Arc<Mutex<MemoryStore>> (an error leaves the store as it was; success leaves exactly one record under that id, bound to the application); plus cancellation-only runs on Arc<Mutex<MemoryStore>> and on an occupied Arc<RwLock<Option<Passkey>>> (assertions, and registrations - plain, with counter, with PRF, through the client - after which the slot holds the new credential and nothing else). plus registrations and assertions through the client with caller-supplied client data: 10 kinds of extra members (unit, struct, maps, and values that cannot be flattened into the JSON: string, number, list, bool, a value that refuses to serialise) x 4 caller-supplied hashes (none, 32 bytes, empty, 5 bytes) x 3 stores x counter on/off - whether the client gives up by error or by panic, a registration that did not succeed leaves the store as it was. Oracle: store snapshot before/after against a model that applies only the calls that returned Ok, call log, result. Every (request, store, plan, cancellation point) is a distinct case",
        true,
        stats,
    );
    run.assume("a fault is injected instead of executing the store call; lookup faults need not surface for the exclude-list lookup (the statement only requires them to be held until after consent); status bytes of errors are recorded, not compared");
    Ok(run)
}

pub fn replay(_ctx: &Ctx, case: &Value) -> Result<Vec<Finding>, String> {
    if let Some(o) = case.get("own_client_data") {
        return Ok(own_client_data_one(o["get"].as_bool().unwrap_or(false), o["store"].as_str().unwrap_or("ref"), o["extra"].as_str().unwrap_or("unit"), o["hash"].as_str().unwrap_or("none"), o["counter"].as_bool().unwrap_or(false)).into_iter().map(|(k, d)| Finding::new(k, d, case.clone())).collect());
    }
    let c: Case = serde_json::from_value(case.clone()).map_err(|e| format!("bad C07 case: {e}"))?;
    Ok(eval(&c).0)
}
