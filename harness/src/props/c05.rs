//! C05 – credentials are used only for their own RP and as the allow/exclude lists say.
//! Part A: the authenticator over the contract store (all store contents x lists x RPs).
//! Part B: the shipped stores against the documented lookup contract.
use crate::core::exec::block_on;
use crate::core::par;
use crate::core::report::*;
use crate::drivers::*;
use passkey_authenticator::{Authenticator, CredentialStore, MemoryStore};
use passkey_types::ctap2::Aaguid;
use passkey_types::Passkey;
use serde::{Deserialize, Serialize};
use serde_json::{json, Value};
use std::sync::Arc;

/// RPs 0..2 as before; 3 and 4 differ from RP 0 only by case / a trailing dot: as RP IDs (opaque
/// strings whose SHA-256 is signed) they are different relying parties without credentials
const RPS: [&str; 5] = ["a.example", "b.example", "c.example", "A.Example", "a.example."];
/// universe: cred 0,1 -> RP a; cred 2,3 -> RP b; user handles equal across RPs (0 and 2, 1 and 3)
fn universe() -> Vec<Passkey> {
    (0..4u8).map(|i| seeded(&Seed { n: i + 1, rp: RPS[(i / 2) as usize].into(), handle: Some(vec![i % 2]), counter: Some(u32::from(i)), hmac: None })).collect()
}
const UNKNOWN: u8 = 9;
fn ident(k: u8) -> Vec<u8> {
    cred_id(k + 1)
}

#[derive(Clone, Debug, Serialize, Deserialize, PartialEq, Eq, Hash)]
pub struct Case {
    /// bit i set = credential i is stored (insertion order = index order)
    pub content: u8,
    pub newest_first: bool,
    pub rp: u8,
    /// None = absent; Some(list) of universe indices (4 = unknown id)
    pub list: Option<Vec<u8>>,
    /// "assert" | "register" | "store:<name>"
    pub op: String,
    /// transports hints carried by the list's descriptors: 0 none, 1 all ["usb"] (disjoint from the
    /// authenticator's own transports), 2 all ["internal"], 3 alternating usb / internal+hybrid, 4 empty lists
    #[serde(default)]
    pub hints: u8,
    /// the contract store answers "nothing found" with Ok(empty) instead of Err(NoCredentials)
    #[serde(default)]
    pub empty_ok: bool,
    /// assertions: the authenticator has hmac-secret, every stored credential has secrets, and the
    /// request carries PRF inputs per credential for ALL ids of the universe and an unknown one
    /// (whatever the allow list names) – the extension's inputs must not widen the allow list
    #[serde(default)]
    pub prf: bool,
    /// registrations: 0 an ordinary request; 1 the only offered algorithm is unsupported (RS256);
    /// 2 no algorithm offered; 3 pin-auth present (unsupported).  The statement's "refused with
    /// credential-excluded exactly when the exclude list names a held credential" does not depend on
    /// what else is wrong with the request
    #[serde(default)]
    pub reg_variant: u8,
}

fn hinted(ids: &Option<Vec<Vec<u8>>>, hints: u8) -> Option<Vec<passkey_types::webauthn::PublicKeyCredentialDescriptor>> {
    use passkey_types::webauthn::AuthenticatorTransport as T;
    ids.as_ref().map(|l| {
        l.iter()
            .enumerate()
            .map(|(i, id)| {
                let mut d = descriptor(id);
                d.transports = match hints {
                    0 => None,
                    1 => Some(vec![T::Usb]),
                    2 => Some(vec![T::Internal]),
                    3 => Some(if i % 2 == 0 { vec![T::Usb, T::Nfc] } else { vec![T::Internal, T::Hybrid] }),
                    _ => Some(vec![]),
                };
                d
            })
            .collect()
    })
}

fn lists(tier: Tier) -> Vec<Option<Vec<u8>>> {
    let mut v: Vec<Option<Vec<u8>>> = vec![None, Some(vec![])];
    for mask in 1u8..32 {
        let l: Vec<u8> = (0..5).filter(|i| mask & (1 << i) != 0).collect();
        if tier == Tier::Thorough || l.len() <= 2 {
            v.push(Some(l.clone()));
            if l.len() == 2 {
                v.push(Some(vec![l[1], l[0]]));
            }
        }
    }
    // ids in a value relation to a held one (5: the first 8 bytes of credential 0's id, 6: that id
    // with one more byte, 7: the empty id) – each names no credential
    for rel in [5u8, 6, 7, 10, 11, 12, 13] {
        v.push(Some(vec![rel]));
        for k in 0..4u8 {
            v.push(Some(if (rel + k) % 2 == 0 { vec![rel, k] } else { vec![k, rel] }));
        }
    }
    // long lists (more than 64 and more than 128 entries): a held id behind / in front of / between
    // runs of 64 distinct unknown ids, and such runs alone
    let run = |from: u8| -> Vec<u8> { (from..from + 64).collect() };
    v.push(Some(run(100)));
    for k in 0..4u8 {
        v.push(Some([run(100), vec![k]].concat()));
        v.push(Some([vec![k], run(100)].concat()));
        if tier == Tier::Thorough || k % 2 == 0 {
            v.push(Some([run(100), vec![k], run(170)].concat()));
        }
    }
    v
}
fn list_ids(l: &Option<Vec<u8>>) -> Option<Vec<Vec<u8>>> {
    l.as_ref().map(|l| {
        l.iter()
            .map(|&i| match i {
                0..=3 => ident(i),
                5 => ident(0)[..8].to_vec(),
                6 => [ident(0), vec![0x00]].concat(),
                7 => vec![],
                // textual presentations of credential 0's id, as bytes: base64url, hex, padded
                // base64; and the id reversed - each is just another byte string that names nothing
                10 => crate::oracles::b64::url_nopad(&ident(0)).into_bytes(),
                11 => hex(&ident(0)).into_bytes(),
                12 => {
                    let mut t = crate::oracles::b64::url_nopad(&ident(0)).replace('-', "+").replace('_', "/");
                    while t.len() % 4 != 0 {
                        t.push('=');
                    }
                    t.into_bytes()
                }
                13 => ident(0).into_iter().rev().collect(),
                100..=255 => [vec![0xE0, i], vec![0x5A; 14]].concat(),
                _ => ident(UNKNOWN),
            })
            .collect()
    })
}
fn content_items(content: u8) -> Vec<Passkey> {
    universe().into_iter().enumerate().filter(|(i, _)| content & (1 << i) != 0).map(|(_, p)| p).collect()
}

pub const SHIPPED: [&str; 10] = ["MemoryStore", "Option", "Arc<Mutex<MemoryStore>>", "Arc<RwLock<MemoryStore>>", "Mutex<MemoryStore>", "RwLock<MemoryStore>", "Arc<Mutex<Option>>", "Arc<RwLock<Option>>", "Mutex<Option>", "RwLock<Option>"];

pub fn cases(tier: Tier) -> Vec<Case> {
    let mut v = vec![];
    for content in 0..16u8 {
        for rp in 0..5u8 {
            for list in lists(tier) {
                for newest_first in [true, false] {
                    for op in ["assert", "register"] {
                        let hs: &[u8] = if list.as_ref().map_or(true, |l| l.is_empty()) { &[0] } else { &[0, 1, 2, 3, 4] };
                        for &hints in hs {
                            v.push(Case { content, newest_first, rp, list: list.clone(), op: op.into(), hints, empty_ok: false, prf: false, reg_variant: 0 });
                            if hints == 0 && op == "register" && list.as_ref().map_or(true, |l| l.len() <= 3) {
                                for reg_variant in 1..4u8 {
                                    v.push(Case { content, newest_first, rp, list: list.clone(), op: op.into(), hints, empty_ok: false, prf: false, reg_variant });
                                }
                            }
                            if hints == 0 {
                                v.push(Case { content, newest_first, rp, list: list.clone(), op: op.into(), hints, empty_ok: true, prf: false, reg_variant: 0 });
                                if op == "assert" && list.as_ref().map_or(true, |l| l.len() <= 3) {
                                    v.push(Case { content, newest_first, rp, list: list.clone(), op: op.into(), hints, empty_ok: false, prf: true, reg_variant: 0 });
                                }
                            }
                        }
                    }
                }
                if rp < 3 {
                    for newest_first in [true, false] {
                        for op in ["client-assert", "client-register"] {
                            v.push(Case { content, newest_first, rp, list: list.clone(), op: op.into(), hints: 0, empty_ok: false, prf: false, reg_variant: 0 });
                        }
                    }
                }
                for s in SHIPPED {
                    if s.contains("Option") && content.count_ones() > 1 {
                        continue;
                    }
                    v.push(Case { content, newest_first: false, rp, list: list.clone(), op: format!("store:{s}"), hints: 0, empty_ok: false, prf: false, reg_variant: 0 });
                }
            }
        }
    }
    v
}

fn eval_authenticator(c: &Case) -> (Vec<Finding>, String) {
    let case = serde_json::to_value(c).unwrap();
    let mut fs = vec![];
    let mut items = content_items(c.content);
    if c.prf {
        for (k, p) in items.iter_mut().enumerate() {
            p.extensions.hmac_secret = Some(passkey_types::StoredHmacSecret { cred_with_uv: vec![0x10 + k as u8; 32], cred_without_uv: Some(vec![0x20 + k as u8; 32]) });
        }
    }
    let mut rs = RefStore::with(items);
    rs.newest_first = c.newest_first;
    rs.empty_ok = c.empty_ok;
    let reference = rs.clone();
    let store = Shared::new(rs);
    let log = Log::new();
    let mut auth = Authenticator::new(Aaguid::new_empty(), Logging { inner: store.clone(), log: log.clone() }, ScriptedUv::consenting(log.clone()));
    if c.prf {
        auth = auth.hmac_secret(passkey_authenticator::extensions::HmacSecretConfig::new_without_uv());
    }
    let rp = RPS[c.rp as usize];
    let ids = list_ids(&c.list);
    let before = store.recs();
    let nonempty: Option<Vec<Vec<u8>>> = ids.clone().filter(|l| !l.is_empty());
    // reference: what the contract store lists for (effective list, rp)
    let descs: Option<Vec<_>> = nonempty.as_ref().map(|l| l.iter().map(|i| descriptor(i)).collect());
    let listed = reference.lookup(descs.as_deref(), rp);
    let mut bad = |kind: &str, d: String| fs.push(Finding::new(format!("op={}/kind={kind}", c.op), d, case.clone()));
    let outcome;
    if c.op == "assert" {
        let ext = c.prf.then(|| {
            use passkey_types::ctap2::extensions::{AuthenticatorPrfInputs, AuthenticatorPrfValues};
            let by: std::collections::HashMap<passkey_types::Bytes, AuthenticatorPrfValues> = (0..4u8).map(ident).chain([ident(UNKNOWN)]).map(|id| (id.into(), AuthenticatorPrfValues { first: [7; 32], second: None })).collect();
            passkey_types::ctap2::get_assertion::ExtensionInputs { hmac_secret: None, prf: Some(AuthenticatorPrfInputs { eval: Some(AuthenticatorPrfValues { first: [6; 32], second: None }), eval_by_credential: Some(by) }) }
        });
        let mut req = ga_request(rp, ids.clone(), false, true, true, false, ext);
        req.allow_list = hinted(&ids, c.hints);
        match par::catch(|| block_on(auth.get_assertion(req))) {
            Err(p) => {
                bad("panic", format!("get_assertion panicked: {p}"));
                outcome = "panic".to_string();
            }
            Ok(Ok(resp)) => {
                outcome = "assert:ok".into();
                let used = resp.credential.as_ref().map(|d| d.id.to_vec()).unwrap_or_default();
                let rec = before.iter().find(|r| r.id == used);
                match rec {
                    None => bad("credential-not-in-store", format!("assertion names {} which is not stored", hex(&used))),
                    Some(r) => {
                        if r.rp != rp {
                            bad("credential-of-other-rp", format!("assertion for {rp:?} made with a credential bound to {:?}", r.rp));
                        }
                        if let Some(l) = &nonempty {
                            if !l.contains(&used) {
                                bad("credential-not-in-allow-list", "non-empty allow list, but the credential used is not named in it".into());
                            }
                        } else if listed.first().map(|p| p.credential_id.to_vec()) != Some(used.clone()) {
                            bad("not-first-listed", format!("absent/empty allow list: store lists {:?} first for the RP, assertion used {}", listed.first().map(|p| hex(&p.credential_id)), hex(&used)));
                        }
                    }
                }
                let want_hash = crate::oracles::rp::sha256(rp.as_bytes());
                if resp.auth_data.rp_id_hash() != want_hash.as_slice() {
                    bad("rp-id-hash", "rpIdHash is not the hash of the requested RP ID".into());
                }
                if listed.is_empty() {
                    bad("assertion-without-eligible-credential", "the contract lists no credential for this RP/list, yet an assertion was produced".into());
                }
            }
            Ok(Err(sc)) => {
                let b: u8 = sc.into();
                outcome = format!("assert:err:{b:02x}");
                if !listed.is_empty() {
                    bad("eligible-credential-not-used", format!("{} eligible credential(s) and consent, but get_assertion failed with 0x{b:02x}", listed.len()));
                }
            }
        }
    } else {
        let mut req = mc_request(rp, &[7], ids.clone(), true, true, true, c.reg_variant == 3, None);
        req.exclude_list = hinted(&ids, c.hints);
        match c.reg_variant {
            1 => req.pub_key_cred_params = vec![param(coset::iana::Algorithm::RS256)],
            2 => req.pub_key_cred_params = vec![],
            _ => {}
        }
        let r = par::catch(|| block_on(auth.make_credential(req)));
        let after = store.recs();
        let should_exclude = nonempty.is_some() && !listed.is_empty();
        match r {
            Err(p) => {
                bad("panic", format!("make_credential panicked: {p}"));
                outcome = "panic".to_string();
            }
            Ok(Ok(_)) => {
                outcome = "register:ok".into();
                if should_exclude {
                    bad("excluded-credential-not-refused", "the exclude list names a credential held for the same RP, yet a credential was created".into());
                }
                if after.len() != before.len() + 1 {
                    bad("store-delta", format!("{} → {}", before.len(), after.len()));
                }
            }
            Ok(Err(sc)) => {
                let b: u8 = sc.into();
                outcome = format!("register:err:{b:02x}");
                if should_exclude {
                    if b != 0x19 {
                        bad("excluded-wrong-error", format!("expected CredentialExcluded (0x19), got 0x{b:02x}"));
                    }
                } else if c.reg_variant == 0 {
                    bad("refused-without-excluded-credential", format!("nothing in the exclude list is held for {rp:?}, yet registration failed with 0x{b:02x}"));
                } else if b == 0x19 {
                    bad("excluded-without-held-credential", format!("nothing in the exclude list is held for {rp:?}, yet registration failed with CredentialExcluded"));
                }
                if after != before {
                    bad("refused-but-store-changed", "store changed by a refused registration".into());
                }
            }
        }
    }
    (fs, outcome)
}

fn classify(store: &str, got: &[Vec<u8>], c: &Case, all: &[Passkey]) -> Vec<(String, String)> {
    // contract: { p | p.rp == R and (ids == None or p.id in ids) }
    let rp = RPS[c.rp as usize];
    let ids = list_ids(&c.list);
    let want: Vec<Vec<u8>> = all.iter().filter(|p| p.rp_id == rp && ids.as_ref().map_or(true, |l| l.contains(&p.credential_id.to_vec()))).map(|p| p.credential_id.to_vec()).collect();
    let mut out = vec![];
    for g in got {
        if !want.contains(g) {
            let p = all.iter().find(|p| p.credential_id.to_vec() == *g);
            let kind = match p {
                Some(p) if p.rp_id != rp => "extra:wrong-rp",
                Some(_) => "extra:not-in-ids",
                None => "extra:not-stored",
            };
            out.push((format!("store={store}/kind={kind}"), format!("find_credentials(ids={:?}, rp={rp:?}) returned {} which the contract excludes", c.list, hex(g))));
        }
    }
    for w in &want {
        if !got.contains(w) {
            let kind = if ids.is_none() { "missing:idless" } else { "missing:listed" };
            out.push((format!("store={store}/kind={kind}"), format!("find_credentials(ids={:?}, rp={rp:?}) did not return {} which the contract includes", c.list, hex(w))));
        }
    }
    let mut g2 = got.to_vec();
    g2.sort();
    g2.dedup();
    if g2.len() != got.len() && ids.as_ref().map_or(true, |l| {
        let mut l2 = l.clone();
        l2.sort();
        l2.dedup();
        l2.len() == l.len()
    }) {
        out.push((format!("store={store}/kind=duplicate"), "find_credentials returned a credential twice".into()));
    }
    out
}

fn find<S: CredentialStore<PasskeyItem = Passkey>>(s: &S, c: &Case) -> Vec<Vec<u8>> {
    let ids = list_ids(&c.list);
    let descs: Option<Vec<_>> = ids.as_ref().map(|l| l.iter().map(|i| descriptor(i)).collect());
    match block_on(s.find_credentials(descs.as_deref(), RPS[c.rp as usize])) {
        Ok(v) => v.into_iter().map(|p| p.credential_id.to_vec()).collect(),
        Err(_) => vec![],
    }
}

fn eval_store(c: &Case) -> (Vec<Finding>, String) {
    let case = serde_json::to_value(c).unwrap();
    let name = c.op.strip_prefix("store:").unwrap_or("?");
    let items = content_items(c.content);
    let mem = || -> MemoryStore { items.iter().map(|p| (p.credential_id.to_vec(), p.clone())).collect() };
    let opt = || -> Option<Passkey> { items.first().cloned() };
    let r = par::catch(|| -> (Vec<Vec<u8>>, Option<Vec<Vec<u8>>>) {
        // (answer, answer of the wrapped store for wrappers)
        match name {
            "MemoryStore" => (find(&mem(), c), None),
            "Option" => (find(&opt(), c), None),
            "Arc<Mutex<MemoryStore>>" => (find(&Arc::new(tokio::sync::Mutex::new(mem())), c), Some(find(&mem(), c))),
            "Arc<RwLock<MemoryStore>>" => (find(&Arc::new(tokio::sync::RwLock::new(mem())), c), Some(find(&mem(), c))),
            "Mutex<MemoryStore>" => (find(&tokio::sync::Mutex::new(mem()), c), Some(find(&mem(), c))),
            "RwLock<MemoryStore>" => (find(&tokio::sync::RwLock::new(mem()), c), Some(find(&mem(), c))),
            "Arc<Mutex<Option>>" => (find(&Arc::new(tokio::sync::Mutex::new(opt())), c), Some(find(&opt(), c))),
            "Arc<RwLock<Option>>" => (find(&Arc::new(tokio::sync::RwLock::new(opt())), c), Some(find(&opt(), c))),
            "Mutex<Option>" => (find(&tokio::sync::Mutex::new(opt()), c), Some(find(&opt(), c))),
            _ => (find(&tokio::sync::RwLock::new(opt()), c), Some(find(&opt(), c))),
        }
    });
    let mut fs = vec![];
    match r {
        Err(p) => {
            fs.push(Finding::new(format!("store={name}/kind=panic"), format!("find_credentials panicked: {p}"), case));
            (fs, "panic".into())
        }
        Ok((got, inner)) => {
            match inner {
                None => {
                    for (k, d) in classify(name, &got, c, &items) {
                        fs.push(Finding::new(k, d, case.clone()));
                    }
                }
                Some(inner) => {
                    let (mut a, mut b) = (got.clone(), inner);
                    a.sort();
                    b.sort();
                    if a != b {
                        fs.push(Finding::new(format!("store={name}/kind=wrapper-differs-from-wrapped"), format!("wrapper answered {} ids, the store it wraps {} ids", a.len(), b.len()), case.clone()));
                    }
                }
            }
            (fs, format!("store:{}", if got.is_empty() { "none" } else { "some" }))
        }
    }
}

/// The same clauses one level up: a `Client` in front of the authenticator, requests as WebAuthn
/// options (allowCredentials / excludeCredentials) from an origin of the RP.  Whatever the client
/// does to the lists on the way down, the outcome obeys the lists the relying party sent.
fn eval_client(c: &Case) -> (Vec<Finding>, String) {
    use passkey_client::{Client, DefaultClientData};
    let case = serde_json::to_value(c).unwrap();
    let mut fs = vec![];
    let mut rs = RefStore::with(content_items(c.content));
    rs.newest_first = c.newest_first;
    let reference = rs.clone();
    let store = Shared::new(rs);
    let log = Log::new();
    let auth = Authenticator::new(Aaguid::new_empty(), Logging { inner: store.clone(), log: log.clone() }, ScriptedUv::consenting(log.clone()));
    let mut client = Client::new(auth);
    let rp = RPS[c.rp as usize];
    let url = url::Url::parse(&format!("https://login.{rp}/")).expect("harness url");
    let ids = list_ids(&c.list);
    let before = store.recs();
    let nonempty: Option<Vec<Vec<u8>>> = ids.clone().filter(|l| !l.is_empty());
    let descs: Option<Vec<_>> = nonempty.as_ref().map(|l| l.iter().map(|i| descriptor(i)).collect());
    let listed = reference.lookup(descs.as_deref(), rp);
    let mut bad = |kind: &str, d: String| fs.push(Finding::new(format!("op={}/kind={kind}", c.op), d, case.clone()));
    let outcome;
    if c.op == "client-assert" {
        let opts = request_options(Auth { rp_id: Some(rp.into()), allow: ids.clone(), ..Default::default() });
        match par::catch(|| block_on(client.authenticate(&url, opts, DefaultClientData))) {
            Err(p) => {
                bad("panic", format!("authenticate panicked: {p}"));
                outcome = "panic".to_string();
            }
            Ok(Ok(resp)) => {
                outcome = "client-assert:ok".into();
                let used = resp.raw_id.to_vec();
                match before.iter().find(|r| r.id == used) {
                    None => bad("credential-not-in-store", format!("assertion names {} which is not stored", hex(&used))),
                    Some(r) => {
                        if r.rp != rp {
                            bad("credential-of-other-rp", format!("assertion for {rp:?} made with a credential bound to {:?}", r.rp));
                        }
                        if let Some(l) = &nonempty {
                            if !l.contains(&used) {
                                bad("credential-not-in-allow-list", format!("non-empty allowCredentials, but the credential used ({}) is not named in it", hex(&used)));
                            }
                        } else if listed.first().map(|p| p.credential_id.to_vec()) != Some(used.clone()) {
                            bad("not-first-listed", format!("absent/empty allowCredentials: store lists {:?} first for the RP, assertion used {}", listed.first().map(|p| hex(&p.credential_id)), hex(&used)));
                        }
                    }
                }
                if listed.is_empty() {
                    bad("assertion-without-eligible-credential", "the contract lists no credential for this RP/list, yet an assertion was produced".into());
                }
            }
            Ok(Err(e)) => {
                outcome = "client-assert:err".into();
                if !listed.is_empty() {
                    bad("eligible-credential-not-used", format!("{} eligible credential(s) and consent, but authenticate failed with {e:?}", listed.len()));
                }
            }
        }
    } else {
        let opts = creation_options(Reg { rp_id: Some(rp.into()), exclude: ids.clone(), user_id: vec![7], ..Default::default() });
        let r = par::catch(|| block_on(client.register(&url, opts, DefaultClientData)));
        let after = store.recs();
        let should_exclude = nonempty.is_some() && !listed.is_empty();
        match r {
            Err(p) => {
                bad("panic", format!("register panicked: {p}"));
                outcome = "panic".to_string();
            }
            Ok(Ok(_)) => {
                outcome = "client-register:ok".into();
                if should_exclude {
                    bad("excluded-credential-not-refused", "excludeCredentials names a credential held for the same RP, yet a credential was created".into());
                }
                if after.len() != before.len() + 1 {
                    bad("store-delta", format!("{} → {}", before.len(), after.len()));
                }
            }
            Ok(Err(e)) => {
                outcome = "client-register:err".into();
                if !should_exclude {
                    bad("refused-without-excluded-credential", format!("nothing in excludeCredentials is held for {rp:?}, yet registration failed with {e:?}"));
                }
                if after != before {
                    bad("refused-but-store-changed", "store changed by a refused registration".into());
                }
            }
        }
    }
    (fs, outcome)
}

/// The same account (RP, user handle) registers twice on each shipped store that can hold more than
/// one credential: afterwards every list answer is about ids - an allow list naming one of the two
/// ids yields that credential or nothing, never the other; an exclude list naming either refuses.
fn rereg_one(store_kind: u8) -> Vec<(String, String)> {
    let mut out = vec![];
    macro_rules! go {
        ($store:expr) => {{
            let store = $store;
            let mut auth = Authenticator::new(Aaguid::new_empty(), store.clone(), ScriptedUv::consenting(Log::new()));
            let reg = |auth: &mut Authenticator<_, ScriptedUv>, exclude: Option<Vec<Vec<u8>>>| block_on(auth.make_credential(mc_request("a.example", &[5, 5], exclude, true, true, true, false, None))).map(|r| r.auth_data.attested_credential_data.as_ref().map(|a| a.credential_id().to_vec()).unwrap_or_default());
            let r = par::catch(|| {
                let id1 = reg(&mut auth, None).map_err(|e| format!("first registration failed: {e:?}"))?;
                let id2 = reg(&mut auth, None).map_err(|e| format!("second registration of the same account failed: {e:?}"))?;
                let mut v = vec![];
                for (name, id, other) in [("first", &id1, &id2), ("second", &id2, &id1)] {
                    match block_on(auth.get_assertion(ga_request("a.example", Some(vec![id.clone()]), false, true, true, false, None))) {
                        Ok(a) => {
                            let used = a.credential.map(|d| d.id.to_vec()).unwrap_or_default();
                            if used != *id {
                                v.push(("credential-not-in-allow-list".to_string(), format!("the account registered twice; an allow list naming only the {name} credential's id {} is answered with credential {}{}", hex(id), hex(&used), if used == *other { " (the other registration)" } else { "" })));
                            }
                        }
                        Err(_) => {}
                    }
                    match reg(&mut auth, Some(vec![id.clone()])) {
                        Ok(new) => {
                            // was the named credential still held?  (a store may have replaced the first by the second)
                            let held = block_on(auth.get_assertion(ga_request("a.example", Some(vec![id.clone()]), false, true, true, false, None))).is_ok();
                            if held {
                                v.push(("excluded-credential-not-refused".to_string(), format!("the exclude list names the {name} registration's id {}, which the store still answers for, yet a credential {} was created", hex(id), hex(&new))));
                            }
                        }
                        Err(_) => {}
                    }
                }
                Ok::<_, String>(v)
            });
            match r {
                Err(p) => out.push(("panic".to_string(), p)),
                Ok(Err(e)) => out.push(("registration-fails".to_string(), e)),
                Ok(Ok(v)) => out.extend(v),
            }
        }};
    }
    match store_kind {
        0 => go!(Arc::new(tokio::sync::Mutex::new(MemoryStore::new()))),
        1 => go!(Arc::new(tokio::sync::RwLock::new(MemoryStore::new()))),
        _ => go!(Shared::new(RefStore::new())),
    }
    out
}

/// Relying parties whose identifiers stand in a relation: a credential filed under the text
/// base64url(SHA-256(R)) - where U2F registrations for the application parameter SHA-256(R) live -
/// or under hex(SHA-256(R)), R in upper case, R reversed, is a credential of ANOTHER relying party
/// as far as a CTAP2 request for R is concerned (rel 0..3); rel 4: registered through the U2F API
/// with application = SHA-256(R) on the same authenticator.
fn related_rp_one(rel: u8, with_own: bool) -> Vec<(String, String)> {
    use passkey_authenticator::U2fApi;
    let r = "a.example";
    let h = crate::oracles::rp::sha256(r.as_bytes());
    let other_rp = match rel {
        0 | 4 => crate::oracles::b64::url_nopad(&h),
        1 => hex(&h),
        2 => r.to_ascii_uppercase(),
        _ => r.chars().rev().collect(),
    };
    let handle = ident(2);
    let mut items = vec![];
    if with_own {
        items.push(seeded(&Seed { n: 1, rp: r.into(), handle: Some(vec![1]), counter: Some(1), hmac: None }));
    }
    if rel != 4 {
        let mut p = seeded(&Seed { n: 3, rp: other_rp.clone(), handle: None, counter: Some(0), hmac: None });
        p.credential_id = handle.clone().into();
        items.push(p);
    }
    let store = Shared::new(RefStore::with(items));
    let mut auth = Authenticator::new(Aaguid::new_empty(), store.clone(), ScriptedUv::consenting(Log::new()));
    let res = par::catch(|| {
        if rel == 4 {
            let app: [u8; 32] = h.clone().try_into().unwrap();
            let _ = block_on(U2fApi::register(&mut auth, passkey_types::u2f::RegisterRequest { challenge: [1; 32], application: app }, &handle));
        }
        block_on(auth.get_assertion(ga_request(r, Some(vec![handle.clone()]), false, true, true, false, None))).map(|x| x.credential.map(|d| d.id.to_vec()))
    });
    match res {
        Err(p) => vec![("panic".into(), p)],
        Ok(Ok(used)) => vec![("credential-of-other-rp".into(), format!("an assertion for {r:?} whose allow list names only a credential filed under {other_rp:?} was produced (credential {:?})", used.map(|u| hex(&u))))],
        Ok(Err(_)) => vec![],
    }
}

/// U2F authentication names ONE credential, by key handle.  A held credential whose id has `len`
/// bytes (filed under the application, as a U2F registration files it) and a request whose key
/// handle stands in a byte relation to it: only the equal handle is answered.  `rel`: 0 equal,
/// 1..=4 the id plus 1 / 2 / 16 / 300 bytes, 5 the id minus its last byte, 6 the id twice, 7 the id
/// padded with zeros to 256 bytes, 8 the first 255 bytes of the id, 9 the id with its last byte changed.
const U2F_LENS: [usize; 12] = [1, 2, 16, 32, 64, 127, 128, 254, 255, 256, 300, 512];
fn u2f_handle_one(len: usize, rel: u8, store_kind: u8) -> Vec<(String, String)> {
    use passkey_authenticator::U2fApi;
    use passkey_types::ctap2::Flags;
    use passkey_types::u2f::{AuthenticationParameter, AuthenticationRequest};
    let app = [0x51u8; 32];
    let id: Vec<u8> = (0..len).map(|i| (i as u8).wrapping_mul(7).wrapping_add(3)).collect();
    let mut p = seeded(&Seed { n: 3, rp: crate::oracles::b64::url_nopad(&app), handle: None, counter: Some(4), hmac: None });
    p.credential_id = id.clone().into();
    let asked: Vec<u8> = match rel {
        0 => id.clone(),
        1 => [id.clone(), vec![0]].concat(),
        2 => [id.clone(), vec![0xFF, 1]].concat(),
        3 => [id.clone(), vec![7; 16]].concat(),
        4 => [id.clone(), vec![9; 300]].concat(),
        5 => id[..len - 1].to_vec(),
        6 => [id.clone(), id.clone()].concat(),
        7 => {
            let mut v = id.clone();
            v.resize(v.len().max(256), 0);
            v
        }
        8 => id[..len.min(255)].to_vec(),
        _ => {
            let mut v = id.clone();
            *v.last_mut().unwrap() ^= 0x80;
            v
        }
    };
    let req = AuthenticationRequest { parameter: AuthenticationParameter::EnforceUserPresence, challenge: [3; 32], application: app, key_handle: asked.clone() };
    macro_rules! go {
        ($store:expr) => {{
            let auth = Authenticator::new(Aaguid::new_empty(), $store, ScriptedUv::consenting(Log::new()));
            par::catch(|| block_on(U2fApi::authenticate(&auth, req, 9, Flags::UP)).map(|_| ()).map_err(|e| format!("{e:?}")))
        }};
    }
    let res = match store_kind {
        0 => go!(Arc::new(tokio::sync::Mutex::new([(id.clone(), p)].into_iter().collect::<MemoryStore>()))),
        1 => go!(Arc::new(tokio::sync::RwLock::new(Some(p)))),
        _ => go!(Shared::new(RefStore::with(vec![p]))),
    };
    let what = format!("U2F authentication with a key handle of {} bytes (relation {rel} to the held {len}-byte credential id) on store kind {store_kind}", asked.len());
    match res {
        Err(p) => vec![("panic".into(), format!("{what}: {p}"))],
        Ok(Ok(())) if asked != id => vec![("answered-with-a-credential-the-handle-does-not-name".into(), format!("{what} was answered"))],
        Ok(Err(e)) if asked == id => vec![("named-credential-not-used".into(), format!("{what} failed: {e}"))],
        _ => vec![],
    }
}

pub fn eval(c: &Case) -> (Vec<Finding>, String) {
    if c.op.starts_with("store:") {
        eval_store(c)
    } else if c.op.starts_with("client-") {
        eval_client(c)
    } else {
        eval_authenticator(c)
    }
}

// ------------------------------------------------------------------------------------------
// Part C: the exclude-list clause under contention – a registration whose exclude list names a
// held credential must be refused in EVERY interleaving with a concurrent ceremony that keeps the
// shared store busy (schedule exploration as in C19)

fn contention_system(lock: &str) -> (Vec<crate::core::exec::Task>, Arc<std::sync::Mutex<Option<Result<(), u8>>>>, Box<dyn Fn() -> usize>) {
    use crate::core::exec::Task;
    let result: Arc<std::sync::Mutex<Option<Result<(), u8>>>> = Arc::new(std::sync::Mutex::new(None));
    let held = seeded(&Seed { n: 1, rp: RPS[0].into(), handle: Some(vec![1]), counter: Some(1), hmac: None });
    let m: MemoryStore = [(held.credential_id.to_vec(), held)].into_iter().collect();
    fn tasks<S>(shared: S, result: Arc<std::sync::Mutex<Option<Result<(), u8>>>>) -> Vec<Task>
    where
        S: CredentialStore<PasskeyItem = Passkey> + Send + Sync + Clone + 'static,
    {
        let s1 = shared.clone();
        let r1 = result.clone();
        let a: Task = Box::pin(async move {
            let mut auth = Authenticator::new(Aaguid::new_empty(), Yielding { inner: s1, before: 1, after: 0 }, ScriptedUv::consenting(Log::new()));
            let req = mc_request(RPS[0], &[7], Some(vec![ident(0)]), true, true, true, false, None);
            let r = auth.make_credential(req).await.map(|_| ()).map_err(sc_byte);
            *r1.lock().unwrap() = Some(r);
        });
        let b: Task = Box::pin(async move {
            let mut uv = ScriptedUv::consenting(Log::new());
            uv.yields = 1;
            let mut auth = Authenticator::new(Aaguid::new_empty(), Yielding { inner: shared, before: 1, after: 0 }, uv);
            let _ = auth.get_assertion(ga_request(RPS[0], Some(vec![ident(0)]), false, true, true, false, None)).await;
        });
        vec![a, b]
    }
    if lock == "mutex" {
        let shared = Arc::new(tokio::sync::Mutex::new(Yielding { inner: m, before: 1, after: 0 }));
        let s2 = shared.clone();
        (tasks(shared, result.clone()), result, Box::new(move || s2.recs().len()))
    } else {
        let shared = Arc::new(tokio::sync::RwLock::new(Yielding { inner: m, before: 1, after: 0 }));
        let s2 = shared.clone();
        (tasks(shared, result.clone()), result, Box::new(move || s2.recs().len()))
    }
}

fn contention_judge(lock: &str, end_ok: bool, result: Option<Result<(), u8>>, records: usize, schedule: &[usize]) -> Vec<Finding> {
    let case = json!({"contention": {"lock": lock, "schedule": schedule}});
    let mut fs = vec![];
    if !end_ok {
        return fs; // deadlocks are C19's subject
    }
    match result {
        Some(Err(0x19)) => {}
        Some(Ok(())) => fs.push(Finding::new(format!("contention/lock={lock}/kind=excluded-credential-not-refused"), "the exclude list names a credential held for the same RP, yet a concurrent ceremony let the registration through".to_string(), case.clone())),
        Some(Err(b)) => fs.push(Finding::new(format!("contention/lock={lock}/kind=excluded-wrong-error"), format!("expected CredentialExcluded (0x19), got {b:#04x}"), case.clone())),
        None => {}
    }
    if records != 1 {
        fs.push(Finding::new(format!("contention/lock={lock}/kind=refused-but-store-changed"), format!("store holds {records} records after a registration that had to be refused"), case));
    }
    fs
}

fn contention(stats: &mut Stats) -> Result<(u64, u64), String> {
    use crate::core::exec;
    let (mut schedules, mut points) = (0u64, 0u64);
    for lock in ["mutex", "rwlock"] {
        let current: std::cell::RefCell<Option<(Arc<std::sync::Mutex<Option<Result<(), u8>>>>, Box<dyn Fn() -> usize>)>> = std::cell::RefCell::new(None);
        let mut found: Vec<Finding> = vec![];
        let st = exec::explore(
            || {
                let (tasks, result, recs) = contention_system(lock);
                *current.borrow_mut() = Some((result, recs));
                tasks
            },
            None,
            400,
            200_000,
            |ex| {
                let cur = current.borrow();
                let (result, recs) = cur.as_ref().unwrap();
                let ok = ex.end == exec::End::AllDone;
                let r = *result.lock().unwrap();
                let n = if ok { recs() } else { 1 };
                if found.len() < 4 {
                    found.extend(contention_judge(lock, ok, r, n, &ex.choices));
                }
            },
        )?;
        schedules += st.schedules;
        points += st.points;
        stats.evaluations += st.schedules;
        stats.count("contention_schedules", st.schedules);
        stats.outcome(&format!("contention:{lock}"));
        stats.findings_from(found);
    }
    Ok((schedules, points))
}

pub fn run(ctx: &Ctx) -> Result<Run, String> {
    let mut related = Stats::new();
    for kind in 0..3u8 {
        related.case(&("re-registration", kind), true, "re-registration");
        for (k, d) in rereg_one(kind) {
            related.finding(Finding::new(format!("re-registration/kind={k}"), d, json!({"rereg": kind})));
        }
    }
    for rel in 0..5u8 {
        for with_own in [false, true] {
            related.case(&("related-rp", rel, with_own), true, "related-rp");
            for (k, d) in related_rp_one(rel, with_own) {
                related.finding(Finding::new(format!("related-rp/kind={k}"), d, json!({"related_rp": {"rel": rel, "with_own": with_own}})));
            }
        }
    }
    for len in U2F_LENS {
        for rel in 0..10u8 {
            for store_kind in 0..3u8 {
                related.case(&("u2f-handle", len, rel, store_kind), true, "u2f-key-handle");
                for (k, d) in u2f_handle_one(len, rel, store_kind) {
                    related.finding(Finding::new(format!("u2f-handle/kind={k}"), d, json!({"u2f_handle": {"len": len, "rel": rel, "store": store_kind}})));
                }
            }
        }
    }
    let cs = cases(ctx.tier);
    let mut stats = par::sweep_cases(&cs, ctx.threads, |c, st| {
        let (fs, o) = eval(c);
        st.case(c, c.content != 0, &o);
        st.findings_from(fs);
    });
    for c in cs.iter().step_by(cs.len() / 4 + 1) {
        stats.samples.push(serde_json::to_value(c).unwrap());
    }
    let (csched, _) = contention(&mut stats)?;
    // a credential is used with ITS key: authenticators whose stores hold the same credential id
    // with different keys (for different RPs) on one thread
    let cst = super::inst::colliding_sweep("shared-state");
    stats.merge(cst);
    stats.merge(related);
    // part D: a store and user-validation method with their own item type whose conversion can fail
    for (order, locked, list) in super::vault::cases() {
        stats.case(&(&order, locked, list), true, "vault");
        for (k, d) in super::vault::eval(&order, locked, list) {
            stats.finding(Finding::new(format!("vault/kind={k}"), d, json!({"vault": {"order": order, "locked": locked, "list": list}})));
        }
    }
    let n = cs.len() as u64 + csched;
    let mut run = Run::from_stats(
        "model_checking",
        "the same account registered twice on Arc<Mutex<MemoryStore>>, Arc<RwLock<MemoryStore>> and the contract store: allow and exclude lists naming either id are answered by id; relying parties with related identifiers: a credential filed under base64url / hex of SHA-256(R), R in upper case or reversed, or registered through the U2F API with application SHA-256(R), is not used for a CTAP2 request for R that names it; universe of 4 credentials (2 RPs x 2, equal user handles across RPs): all 16 store contents x RP in {a, b, RP without credentials, a in another letter case, a with a trailing dot} x lists {absent, empty, sub-lists of the 4 ids + 1 unknown id (size <= 2 in both orders quick, all 31 thorough), and ids in a value relation to a held id (a strict prefix of it, it plus one byte, the empty id, its base64url / hex / padded base64 text as bytes, the id reversed) alone and next to each of the 4 ids, and lists of 64..129 entries in which a held id sits behind, in front of or between runs of 64 unknown ids} x transports hints on the descriptors {none, disjoint from the authenticator's, overlapping, mixed, empty} x {no extension, PRF inputs per credential naming every id of the universe on an hmac-secret authenticator} x listing order {newest, oldest first} for get_assertion (allow list) and make_credential (exclude list; also with an unsupported-only / empty algorithm list and with pin-auth: credential-excluded still exactly when a held credential is named) on the real Authenticator over the contract store; the same contents x lists x RPs {a, b, none} x listing orders one level up, as allowCredentials / excludeCredentials of WebAuthn requests through a real Client from an origin of the RP; and the same contents/lists/RPs against find_credentials of MemoryStore, Option<Passkey> and their four lock wrappers (wrappers compared with the store they wrap); plus every interleaving of a registration whose exclude list names a held credential with a concurrent assertion over Arc<Mutex<_>> and Arc<RwLock<_>> (must be refused in every schedule). Non-trivial = distinct case with a non-empty store",
        true,
        stats,
    );
    run.graph(n, n, n);
    run.assume("Part A demands outcomes only (which credential signs, whether registration is refused), not the arguments the store receives; Part B compares result sets with { c | c.rp = R and (ids = None or c.id in ids) }");
    Ok(run)
}

pub fn replay(_ctx: &Ctx, case: &Value) -> Result<Vec<Finding>, String> {
    if let Some(k) = case.get("rereg").and_then(|k| k.as_u64()) {
        return Ok(rereg_one(k as u8).into_iter().map(|(k, d)| Finding::new(format!("re-registration/kind={k}"), d, case.clone())).collect());
    }
    if let Some(u) = case.get("u2f_handle") {
        return Ok(u2f_handle_one(u["len"].as_u64().unwrap_or(16) as usize, u["rel"].as_u64().unwrap_or(0) as u8, u["store"].as_u64().unwrap_or(0) as u8).into_iter().map(|(k, d)| Finding::new(format!("u2f-handle/kind={k}"), d, case.clone())).collect());
    }
    if let Some(r) = case.get("related_rp") {
        return Ok(related_rp_one(r["rel"].as_u64().unwrap_or(0) as u8, r["with_own"].as_bool().unwrap_or(false)).into_iter().map(|(k, d)| Finding::new(format!("related-rp/kind={k}"), d, case.clone())).collect());
    }
    if let Some(fs) = super::inst::colliding_replay(case, "shared-state") {
        return Ok(fs);
    }
    if let Some(v) = case.get("vault") {
        let order: Vec<u8> = serde_json::from_value(v["order"].clone()).unwrap_or_default();
        return Ok(super::vault::eval(&order, v["locked"].as_u64().unwrap_or(0) as u8, v["list"].as_bool().unwrap_or(false)).into_iter().map(|(k, d)| Finding::new(format!("vault/kind={k}"), d, case.clone())).collect());
    }
    if let Some(cn) = case.get("contention") {
        let lock = cn["lock"].as_str().unwrap_or("mutex").to_string();
        let schedule: Vec<usize> = serde_json::from_value(cn["schedule"].clone()).map_err(|e| e.to_string())?;
        let (tasks, result, recs) = contention_system(&lock);
        let ex = crate::core::exec::run_schedule(tasks, &schedule, 400)?;
        let ok = ex.end == crate::core::exec::End::AllDone;
        let r = *result.lock().unwrap();
        return Ok(contention_judge(&lock, ok, r, if ok { recs() } else { 1 }, &schedule));
    }
    let c: Case = serde_json::from_value(case.clone()).map_err(|e| format!("bad C05 case: {e}"))?;
    let _ = json!(0);
    Ok(eval(&c).0)
}
