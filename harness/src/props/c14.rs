//! C14 – WebAuthn JSON parses leniently, re-parses when emitted, client data keeps order.
use super::common::*;
use crate::core::par;
use crate::core::report::*;
use crate::drivers::*;
use crate::oracles::b64;
use passkey_types::webauthn::{self, CollectedClientData, CredentialCreationOptions, CredentialRequestOptions};
use passkey_types::{encoding, Bytes};
use serde::{Deserialize, Serialize};
use serde_json::{json, Map, Value};

// ------------------------------------------------------------------------------------------
// canonical documents

fn bytes_a(n: usize) -> Vec<u8> {
    (0..n).map(|i| [0xfb, 0xff, 0xbe, 0x3e, 0x3f, 0x00, 0x7f][i % 7]).collect()
}
fn arr(b: &[u8]) -> Value {
    Value::Array(b.iter().map(|x| json!(x)).collect())
}

pub fn canonical(kind: &str) -> Value {
    if kind == "create" {
        json!({"publicKey": {
            "rp": {"id": "example.com", "name": "Example"},
            "user": {"id": arr(&bytes_a(4)), "displayName": "D é", "name": "N"},
            "challenge": arr(&bytes_a(32)),
            "pubKeyCredParams": [{"type": "public-key", "alg": -7}, {"type": "public-key", "alg": -257}],
            "timeout": 1800,
            "excludeCredentials": [{"type": "public-key", "id": arr(&bytes_a(16)), "transports": ["usb", "nfc"]}, {"type": "public-key", "id": arr(&bytes_a(5))}],
            "authenticatorSelection": {"authenticatorAttachment": "platform", "residentKey": "required", "requireResidentKey": true, "userVerification": "required"},
            "hints": ["security-key", "client-device"],
            "attestation": "direct",
            "attestationFormats": ["packed", "fido-u2f"],
            "extensions": {"credProps": true, "prf": {"eval": {"first": arr(&bytes_a(3)), "second": arr(&bytes_a(33))}}}
        }})
    } else {
        json!({"publicKey": {
            "challenge": arr(&bytes_a(32)),
            "timeout": 1800,
            "rpId": "example.com",
            "allowCredentials": [{"type": "public-key", "id": arr(&bytes_a(16)), "transports": ["usb", "internal"]}, {"type": "public-key", "id": arr(&bytes_a(5))}],
            "userVerification": "discouraged",
            "hints": ["hybrid"],
            "attestation": "indirect",
            "attestationFormats": ["tpm"],
            "extensions": {"prf": {"eval": {"first": arr(&bytes_a(3))}, "evalByCredential": {"-_-_": {"first": arr(&bytes_a(2))}}}}
        }})
    }
}
fn optional_paths(kind: &str) -> Vec<&'static str> {
    if kind == "create" {
        vec!["/publicKey/rp/id", "/publicKey/timeout", "/publicKey/excludeCredentials", "/publicKey/authenticatorSelection", "/publicKey/hints", "/publicKey/attestation", "/publicKey/attestationFormats", "/publicKey/extensions"]
    } else {
        vec!["/publicKey/timeout", "/publicKey/rpId", "/publicKey/allowCredentials", "/publicKey/userVerification", "/publicKey/hints", "/publicKey/attestation", "/publicKey/attestationFormats", "/publicKey/extensions"]
    }
}
fn binary_paths(kind: &str) -> Vec<&'static str> {
    if kind == "create" {
        vec!["/publicKey/user/id", "/publicKey/challenge", "/publicKey/excludeCredentials/0/id", "/publicKey/excludeCredentials/1/id", "/publicKey/extensions/prf/eval/first", "/publicKey/extensions/prf/eval/second"]
    } else {
        vec!["/publicKey/challenge", "/publicKey/allowCredentials/0/id", "/publicKey/allowCredentials/1/id", "/publicKey/extensions/prf/eval/first", "/publicKey/extensions/prf/evalByCredential/-_-_/first"]
    }
}
fn numeric_paths(kind: &str) -> Vec<&'static str> {
    if kind == "create" {
        vec!["/publicKey/timeout", "/publicKey/pubKeyCredParams/0/alg", "/publicKey/pubKeyCredParams/1/alg"]
    } else {
        vec!["/publicKey/timeout"]
    }
}
/// (path of an enumeration string, what an unknown value must be equivalent to: "absent" = the member removed)
fn enum_paths(kind: &str) -> Vec<&'static str> {
    if kind == "create" {
        vec!["/publicKey/attestation", "/publicKey/authenticatorSelection/authenticatorAttachment", "/publicKey/authenticatorSelection/residentKey", "/publicKey/authenticatorSelection/userVerification"]
    } else {
        vec!["/publicKey/userVerification", "/publicKey/attestation"]
    }
}
/// lists whose unknown entries are dropped: (path of the list, an unknown entry)
fn lenient_lists(kind: &str) -> Vec<(&'static str, Value)> {
    if kind == "create" {
        vec![
            ("/publicKey/hints", json!("x-unknown")),
            ("/publicKey/attestationFormats", json!("x-unknown")),
            ("/publicKey/excludeCredentials/0/transports", json!("x-unknown")),
            ("/publicKey/pubKeyCredParams", json!({"type": "public-key", "alg": -1})),
            ("/publicKey/pubKeyCredParams", json!({"alg": -1, "type": "public-key"})),
            ("/publicKey/pubKeyCredParams", json!({"type": "public-key", "alg": -1, "zz": 1})),
            ("/publicKey/pubKeyCredParams", json!({"alg": "-1", "type": "public-key"})),
            ("/publicKey/pubKeyCredParams", json!({"alg": 99999, "type": "public-key", "nested": {"a": [1]}})),
        ]
    } else {
        vec![("/publicKey/hints", json!("x-unknown")), ("/publicKey/attestationFormats", json!("x-unknown")), ("/publicKey/allowCredentials/0/transports", json!("x-unknown"))]
    }
}

#[derive(Clone, Debug, Serialize, Deserialize, PartialEq, Eq, Hash)]
pub enum Mutn {
    /// binary member at path presented as 0 array, 1 base64url nopad, 2 base64url padded, 3 base64 nopad, 4 base64 padded
    Binary(String, u8),
    /// numeric member presented as 0 number, 1 numeric string, 2 integral float, 3 float string
    Numeric(String, u8),
    /// unknown member inserted into the object at path, at position, with value kind 0 scalar 1 object 2 array
    Unknown(String, usize, u8),
    /// enumeration string replaced by an unknown value
    Enum(String),
    /// unknown entry inserted into a lenient list at index
    ListEntry(String, usize, usize),
    /// the algorithm identifier n at path replaced by a number outside the 32-bit range that is
    /// congruent to it modulo 2^64 or 2^32 (how 0: 2^64 + n as a JSON integer, 1: the same as a
    /// string, 2: n - 2^32, 3: n + 2^32, 4: 2^64 + n as a float).  Whatever these are, they are not
    /// the registered identifier n: the entry is unknown (dropped) or the document is refused
    AlgWrap(String, u8),
    /// the string at path spelled with JSON escapes (how 0: every character as \uXXXX, 1: the first
    /// and last character only, 2: an escaped solidus and a \u-escaped first letter in upper-case hex) -
    /// the same JSON value, which a parser cannot hand out as a slice of its input
    Escaped(String, u8),
}
const ESC_MARK: char = '\u{E000}';
/// Serialise; strings marked by the Escaped presentation are written with escapes.
fn render(doc: &Value) -> String {
    let text = doc.to_string();
    if !text.contains(ESC_MARK) {
        return text;
    }
    // a marked string is "<mark><how digit><content>"
    let mut out = String::new();
    let mut rest = text.as_str();
    while let Some(i) = rest.find(ESC_MARK) {
        out.push_str(&rest[..i]);
        let after = &rest[i + ESC_MARK.len_utf8()..];
        let how = after.as_bytes()[0] - b'0';
        let body_start = 1;
        // the string ends at the next unescaped quote (contents here never contain quotes or backslashes)
        let end = after.find('"').unwrap_or(after.len());
        let body: Vec<char> = after[body_start..end].chars().collect();
        for (k, ch) in body.iter().enumerate() {
            let esc = match how {
                0 => true,
                1 => k == 0 || k + 1 == body.len(),
                _ => k == 0,
            };
            if *ch == '/' && how == 2 {
                out.push_str("\\/");
            } else if esc {
                let mut buf = [0u16; 2];
                for u in ch.encode_utf16(&mut buf) {
                    if how == 2 {
                        out.push_str(&format!("\\u{:04X}", u));
                    } else {
                        out.push_str(&format!("\\u{:04x}", u));
                    }
                }
            } else {
                out.push(*ch);
            }
        }
        rest = &after[end..];
    }
    out.push_str(rest);
    out
}
fn string_paths(v: &Value, at: &str, out: &mut Vec<String>) {
    match v {
        Value::String(s) if !s.is_empty() && !s.contains(['"', '\\']) => out.push(at.to_string()),
        Value::Array(a) => {
            for (i, x) in a.iter().enumerate() {
                string_paths(x, &format!("{at}/{i}"), out);
            }
        }
        Value::Object(o) => {
            for (k, x) in o {
                string_paths(x, &format!("{at}/{k}"), out);
            }
        }
        _ => {}
    }
}

#[derive(Clone, Debug, Serialize, Deserialize, PartialEq, Eq, Hash)]
pub struct Case {
    pub kind: String,
    /// bit i set = optional member i (optional_paths order) removed
    pub absent: u32,
    pub muts: Vec<Mutn>,
}

fn remove_path(doc: &mut Value, path: &str) -> bool {
    let (parent, key) = path.rsplit_once('/').unwrap();
    match doc.pointer_mut(parent) {
        Some(Value::Object(m)) => m.shift_remove(key).is_some(),
        _ => false,
    }
}
fn object_paths(v: &Value, at: String, out: &mut Vec<(String, usize)>) {
    match v {
        Value::Object(m) => {
            // maps keyed by data (evalByCredential) are not member sets
            if !at.ends_with("/evalByCredential") {
                out.push((at.clone(), m.len()));
            }
            for (k, c) in m {
                object_paths(c, format!("{at}/{k}"), out);
            }
        }
        Value::Array(a) => {
            for (i, c) in a.iter().enumerate() {
                object_paths(c, format!("{at}/{i}"), out);
            }
        }
        _ => {}
    }
}
fn insert_at(m: &mut Map<String, Value>, pos: usize, k: &str, v: Value) {
    let mut entries: Vec<(String, Value)> = std::mem::take(m).into_iter().collect();
    entries.insert(pos.min(entries.len()), (k.to_string(), v));
    *m = entries.into_iter().collect();
}
fn value_bytes(v: &Value) -> Option<Vec<u8>> {
    v.as_array().map(|a| a.iter().filter_map(|x| x.as_u64().map(|n| n as u8)).collect())
}

/// Apply a mutation to the document (`doc`) and the matching change (if any) to the expected
/// equivalent (`exp`).  Returns false when the path does not exist in this presence pattern.
fn apply(doc: &mut Value, exp: &mut Value, m: &Mutn) -> bool {
    match m {
        Mutn::Binary(path, how) => {
            let Some(b) = doc.pointer(path).and_then(value_bytes) else { return false };
            let s = match how {
                0 => return true,
                1 => b64::url_nopad(&b),
                2 => b64::url_pad(&b),
                3 => b64::std_nopad(&b),
                4 => b64::std_pad(&b),
                // base64url whose last symbol carries non-zero unused bits (a non-canonical spelling
                // of the same bytes, which the decoder is configured to accept), unpadded / padded
                _ => {
                    if b.len() % 3 == 0 {
                        return false;
                    }
                    const AB: &[u8; 64] = b"ABCDEFGHIJKLMNOPQRSTUVWXYZabcdefghijklmnopqrstuvwxyz0123456789-_";
                    let mut t = b64::url_nopad(&b).into_bytes();
                    let last = t.pop().unwrap();
                    let idx = AB.iter().position(|c| *c == last).unwrap_or(0);
                    t.push(AB[idx | if b.len() % 3 == 1 { 0x0f } else { 0x03 }]);
                    let mut t = String::from_utf8(t).unwrap();
                    if *how == 6 {
                        while t.len() % 4 != 0 {
                            t.push('=');
                        }
                    }
                    t
                }
            };
            *doc.pointer_mut(path).unwrap() = json!(s);
            true
        }
        Mutn::Numeric(path, how) => {
            let Some(n) = doc.pointer(path).and_then(|v| v.as_i64()) else { return false };
            let v = match how {
                0 => return true,
                1 => json!(n.to_string()),
                2 => json!(n as f64),
                _ => json!(format!("{n}.0")),
            };
            *doc.pointer_mut(path).unwrap() = v;
            true
        }
        Mutn::Unknown(path, pos, kind) => {
            let v = match kind {
                0 => json!("scalar"),
                1 => json!({"deep": {"x": [1, 2, {"y": null}]}, "type": "webauthn.create", "id": 5}),
                _ => json!([1, "two", {"three": 3}, [4]]),
            };
            match doc.pointer_mut(path) {
                Some(Value::Object(o)) => {
                    insert_at(o, *pos, "zzUnknownMember", v);
                    true
                }
                _ => false,
            }
        }
        Mutn::Enum(path) => {
            if doc.pointer(path).is_none() {
                return false;
            }
            *doc.pointer_mut(path).unwrap() = json!("x-unknown-enum-value");
            remove_path(exp, path);
            true
        }
        Mutn::AlgWrap(path, how) => {
            let Some(n) = doc.pointer(path).and_then(|v| v.as_i64()) else { return false };
            let wide: i128 = match how {
                0 | 1 | 4 => (1i128 << 64) + i128::from(n),
                2 => i128::from(n) - (1i128 << 32),
                _ => i128::from(n) + (1i128 << 32),
            };
            let v = match how {
                1 => json!(wide.to_string()),
                4 => json!(wide as f64),
                _ => {
                    if let Ok(u) = u64::try_from(wide) {
                        json!(u)
                    } else if let Ok(i) = i64::try_from(wide) {
                        json!(i)
                    } else {
                        return false;
                    }
                }
            };
            *doc.pointer_mut(path).unwrap() = v;
            // the expected equivalent: the list without that entry
            if let Some((list, _)) = path.trim_end_matches("/alg").rsplit_once('/') {
                if let Some(Value::Array(a)) = exp.pointer_mut(list) {
                    a.retain(|e| e.get("alg").and_then(|x| x.as_i64()) != Some(n));
                }
            }
            true
        }
        Mutn::Escaped(path, how) => match doc.pointer_mut(path) {
            Some(Value::String(st)) if !st.is_empty() && !st.starts_with(ESC_MARK) => {
                *st = format!("{ESC_MARK}{how}{st}");
                true
            }
            _ => false,
        },
        Mutn::ListEntry(path, which, idx) => {
            let kind = if doc.pointer("/publicKey/rp").is_some() { "create" } else { "get" };
            let entry = lenient_lists(kind).into_iter().filter(|(p, _)| p == path).nth(*which).map(|x| x.1);
            match (doc.pointer_mut(path), entry) {
                (Some(Value::Array(a)), Some(e)) => {
                    a.insert((*idx).min(a.len()), e);
                    true
                }
                _ => false,
            }
        }
    }
}

fn parse_debug(kind: &str, text: &str) -> Result<Result<String, String>, String> {
    par::catch(|| {
        // the three routes a JSON document takes into the types: borrowed text, an already parsed
        // (owned) value, a byte reader; they must agree, otherwise the route is part of the answer
        fn three<T: serde::de::DeserializeOwned + std::fmt::Debug>(text: &str) -> Result<String, String> {
            let a = serde_json::from_str::<T>(text).map(|v| format!("{v:?}")).map_err(|e| e.to_string());
            let b = serde_json::from_str::<Value>(text).map_err(|e| e.to_string()).and_then(|v| serde_json::from_value::<T>(v).map(|v| format!("{v:?}")).map_err(|e| e.to_string()));
            let c = serde_json::from_reader::<_, T>(text.as_bytes()).map(|v| format!("{v:?}")).map_err(|e| e.to_string());
            // a document the text route rejects is not judged further (the statement is about
            // documents that parse); one it accepts must give the same value by the other routes
            match (&a, &b, &c) {
                (Err(_), _, _) => a,
                (Ok(x), Ok(y), Ok(z)) if x == y && y == z => a,
                _ => {
                    let show = |r: &Result<String, String>, base: &str| match r {
                        Err(e) => format!("error: {e}"),
                        Ok(s) => {
                            let i = s.bytes().zip(base.bytes()).position(|(x, y)| x != y).unwrap_or(s.len().min(base.len()));
                            let from = i.saturating_sub(40);
                            format!("...{}", &s[s.floor_char_boundary(from)..s.floor_char_boundary((i + 60).min(s.len()))])
                        }
                    };
                    let base = a.clone().unwrap_or_default();
                    let other = if b.as_ref().ok() != Some(&base) { &b } else { &c };
                    let basis = other.clone().unwrap_or_default();
                    Ok(format!("ROUTES-DISAGREE from_str [{}] from_value [{}] from_reader [{}]", show(&a, &basis), show(&b, &base), show(&c, &base)))
                }
            }
        }
        if kind == "create" {
            three::<CredentialCreationOptions>(text)
        } else {
            three::<CredentialRequestOptions>(text)
        }
    })
}

fn mut_class(m: &Mutn) -> String {
    match m {
        Mutn::Binary(p, h) => format!("binary:{}:{}", p.rsplit('/').next().unwrap_or(""), ["array", "base64url", "base64url-padded", "base64", "base64-padded", "base64url-trailing-bits", "base64url-trailing-bits-padded"][*h as usize % 7]),
        Mutn::Numeric(p, h) => format!("numeric:{}:{}", p.rsplit('/').next().unwrap_or(""), ["number", "string", "float", "float-string"][*h as usize % 4]),
        Mutn::Unknown(_, _, k) => format!("unknown-member:{}", ["scalar", "object", "array"][*k as usize % 3]),
        Mutn::Enum(p) => format!("unknown-enum:{}", p.rsplit('/').next().unwrap_or("")),
        Mutn::AlgWrap(p, h) => format!("alg-out-of-range:{}:{}", p.rsplit('/').nth(1).unwrap_or(""), ["2^64+n", "2^64+n-string", "n-2^32", "n+2^32", "2^64+n-float"][*h as usize % 5]),
        Mutn::Escaped(p, h) => format!("escaped-string:{}:{}", p.rsplit('/').next().unwrap_or(""), ["all", "ends", "solidus-and-first"][*h as usize % 3]),
        Mutn::ListEntry(p, w, _) => {
            let list = p.rsplit('/').next().unwrap_or("");
            if list == "pubKeyCredParams" {
                format!("list=pubKeyCredParams:{}", ["unknown-alg-last-member", "unknown-entry-not-last-member", "unknown-entry-not-last-member", "unknown-entry-not-last-member", "unknown-entry-not-last-member"][*w % 5])
            } else {
                format!("list={list}:unknown-entry")
            }
        }
    }
}

pub fn eval(c: &Case) -> (Vec<Finding>, String) {
    let case = serde_json::to_value(c).unwrap();
    let mut fs = vec![];
    let mut doc = canonical(&c.kind);
    for (i, p) in optional_paths(&c.kind).iter().enumerate() {
        if c.absent & (1 << i) != 0 {
            remove_path(&mut doc, p);
        }
    }
    let mut exp = doc.clone();
    let mut applied = vec![];
    for m in &c.muts {
        if apply(&mut doc, &mut exp, m) {
            applied.push(mut_class(m));
        } else {
            return (fs, "not-applicable".into());
        }
    }
    let class = if applied.is_empty() { "canonical".to_string() } else { applied.join("+") };
    let key_class = applied.iter().map(|a| a.split(':').take(2).collect::<Vec<_>>().join(":")).collect::<Vec<_>>().join("+");
    let mut bad = |kind: &str, d: String| fs.push(Finding::new(format!("doc={}/{kind}", c.kind), d, case.clone()));
    let want = match parse_debug(&c.kind, &exp.to_string()) {
        Ok(Ok(d)) => d,
        other => {
            bad(&format!("kind=canonical-does-not-parse/{key_class}"), format!("the canonical presentation fails: {other:?}"));
            return (fs, class);
        }
    };
    if want.starts_with("ROUTES-DISAGREE") {
        bad("kind=parse-routes-disagree/canonical", format!("the canonical presentation parses to different values from borrowed text, from an owned value and from a reader: {want}"));
        return (fs, class);
    }
    match parse_debug(&c.kind, &render(&doc)) {
        Err(p) => bad(&format!("kind=panic/{key_class}"), format!("parse panicked: {p}")),
        // a number beyond every integer width the member could have may be refused outright
        Ok(Err(_)) if class.starts_with("alg-out-of-range") && c.muts.len() == 1 => {}
        Ok(Err(e)) => bad(&format!("kind=parse-fails/{key_class}"), format!("{class}: {e}")),
        Ok(Ok(got)) => {
            if got.starts_with("ROUTES-DISAGREE") {
                bad(&format!("kind=parse-routes-disagree/{key_class}"), format!("{class}: {got}"));
            } else if got != want {
                bad(&format!("kind=parses-to-different-value/{key_class}"), format!("{class}: {} vs canonical {}", &got[..got.len().min(300)], &want[..want.len().min(300)]));
            }
        }
    }
    (fs, class.split('+').next().unwrap_or("").split(':').next().unwrap_or("").to_string())
}

fn single_mutations(kind: &str) -> Vec<Mutn> {
    let mut v = vec![];
    for p in binary_paths(kind) {
        for h in 1..7u8 {
            v.push(Mutn::Binary(p.into(), h));
        }
    }
    for p in numeric_paths(kind) {
        for h in 1..4u8 {
            v.push(Mutn::Numeric(p.into(), h));
        }
    }
    let mut objs = vec![];
    object_paths(&canonical(kind), String::new(), &mut objs);
    for (p, n) in objs {
        for pos in 0..=n {
            for k in 0..3u8 {
                v.push(Mutn::Unknown(p.clone(), pos, k));
            }
        }
    }
    for p in enum_paths(kind) {
        v.push(Mutn::Enum(p.into()));
    }
    for p in numeric_paths(kind).into_iter().filter(|p| p.ends_with("/alg")) {
        for how in 0..5u8 {
            v.push(Mutn::AlgWrap(p.into(), how));
        }
    }
    let mut sp = vec![];
    string_paths(&canonical(kind), "", &mut sp);
    for p in sp {
        for how in 0..3u8 {
            v.push(Mutn::Escaped(p.clone(), how));
        }
    }
    let lists = lenient_lists(kind);
    let mut seen: std::collections::BTreeMap<&str, usize> = Default::default();
    for (p, _) in &lists {
        let which = *seen.entry(p).and_modify(|n| *n += 1).or_insert(0);
        let len = canonical(kind).pointer(p).and_then(|a| a.as_array().map(|a| a.len())).unwrap_or(0);
        for idx in 0..=len {
            v.push(Mutn::ListEntry((*p).into(), which, idx));
        }
    }
    v
}

pub fn cases(tier: Tier) -> Vec<Case> {
    let mut v = vec![];
    for kind in ["create", "get"] {
        let singles = single_mutations(kind);
        let nopt = optional_paths(kind).len();
        for absent in 0..(1u32 << nopt) {
            v.push(Case { kind: kind.into(), absent, muts: vec![] });
            // one presentation change at a time on every presence pattern for the cheap classes,
            // on the full / each single-absence pattern for unknown-member injection
            for m in &singles {
                let heavy = matches!(m, Mutn::Unknown(..));
                if !heavy || absent.count_ones() <= 1 {
                    v.push(Case { kind: kind.into(), absent, muts: vec![m.clone()] });
                }
            }
        }
        if tier == Tier::Thorough {
            for (i, a) in singles.iter().enumerate() {
                for b in &singles[i + 1..] {
                    // two unknown members at positions of the same object interfere with each other's index; skip same-path pairs
                    if let (Mutn::Unknown(p1, ..), Mutn::Unknown(p2, ..)) = (a, b) {
                        if p1 == p2 {
                            continue;
                        }
                    }
                    if let (Mutn::ListEntry(p1, ..), Mutn::ListEntry(p2, ..)) = (a, b) {
                        if p1 == p2 {
                            continue;
                        }
                    }
                    // two replacements of the same identifier: the second would be applied to the first's result
                    if let (Mutn::AlgWrap(p1, ..), Mutn::AlgWrap(p2, ..)) = (a, b) {
                        if p1 == p2 {
                            continue;
                        }
                    }
                    v.push(Case { kind: kind.into(), absent: 0, muts: vec![a.clone(), b.clone()] });
                }
            }
        }
    }
    v
}

// ------------------------------------------------------------------------------------------
// base64url identity

fn b64_identity(ctx: &Ctx, stats: &mut Stats) {
    let maxlen = ctx.tier.pick(2usize, 3);
    for len in 0..=maxlen {
        let n = 256usize.pow(len as u32);
        let st = par::sweep(n, ctx.threads, 8192, |i, st| {
            let b: Vec<u8> = (0..len).map(|k| ((i >> (8 * k)) & 0xff) as u8).collect();
            b64_one(&b, st);
        });
        stats.merge(st);
    }
    for len in 4..=64usize {
        for seed in [0x00u8, 0xff, 0xfb, 0x3e, 0x5a] {
            let b: Vec<u8> = (0..len).map(|i| seed.wrapping_add((i as u8).wrapping_mul(37))).collect();
            b64_one(&b, stats);
        }
    }
}
fn b64_one(b: &[u8], st: &mut Stats) {
    let case = json!({"bytes": b});
    let r = par::catch(|| {
        let enc = encoding::base64url(b);
        let dec = encoding::try_from_base64url(&enc);
        let via_bytes = Bytes::try_from(enc.as_str()).ok().map(|x| x.to_vec());
        let s: String = Bytes::from(b.to_vec()).into();
        (enc, dec, via_bytes, s)
    });
    st.case(b, !b.is_empty(), "base64url-identity");
    match r {
        Err(p) => st.finding(Finding::new("b64/kind=panic", p, case)),
        Ok((enc, dec, via, s)) => {
            if enc != b64::url_nopad(b) || s != enc {
                st.finding(Finding::new("b64/kind=encoding-differs-from-rfc4648", format!("{enc:?} vs {:?}", b64::url_nopad(b)), case.clone()));
            }
            if dec.as_deref() != Some(b) || via.as_deref() != Some(b) {
                st.finding(Finding::new("b64/kind=decode-of-encode-is-not-identity", format!("{b:?} → {enc:?} → {dec:?} / {via:?}"), case));
            }
        }
    }
}

// ------------------------------------------------------------------------------------------
// long binary members: a challenge (and a user id / credential id) of several KiB in each of the
// five presentations parses to the same value, and the emitted form parses back

fn long_binary(stats: &mut Stats) {
    for len in [255usize, 256, 1023, 1024, 4095, 4096, 4097, 5000, 65535, 65536, 100_000] {
        for kind in ["create", "get"] {
            let bytes: Vec<u8> = (0..len).map(|i| (i * 31 + 7) as u8).collect();
            let mut docs: Vec<(&str, Value)> = vec![];
            for (form, v) in [("array", arr(&bytes)), ("base64url", json!(b64::url_nopad(&bytes))), ("base64url-padded", json!(b64::url_pad(&bytes))), ("base64", json!(b64::std_nopad(&bytes))), ("base64-padded", json!(b64::std_pad(&bytes)))] {
                let mut d = canonical(kind);
                *d.pointer_mut("/publicKey/challenge").unwrap() = v;
                docs.push((form, d));
            }
            let case = json!({"long_binary": {"doc": kind, "len": len}});
            stats.case(&case.to_string(), true, "long-binary-member");
            let parsed: Vec<(&str, Result<Result<String, String>, String>)> = docs.iter().map(|(f, d)| (*f, parse_debug(kind, &d.to_string()))).collect();
            let first = &parsed[0].1;
            for (form, r) in &parsed {
                match r {
                    Err(p) => stats.finding(Finding::new(format!("doc={kind}/kind=panic/long-binary"), format!("{len}-byte challenge as {form}: {p}"), case.clone())),
                    Ok(Err(e)) => stats.finding(Finding::new(format!("doc={kind}/kind=long-binary-member-rejected"), format!("a {len}-byte challenge given as {form} does not parse: {e}"), case.clone())),
                    Ok(Ok(v)) => {
                        if let Ok(Ok(f)) = first {
                            if f != v {
                                stats.finding(Finding::new(format!("doc={kind}/kind=parses-to-different-value/long-binary"), format!("a {len}-byte challenge parses differently as {form} and as array"), case.clone()));
                            }
                        }
                    }
                }
            }
        }
    }
}

// ------------------------------------------------------------------------------------------
// a valid document after n documents that failed (or half-failed) on the same thread: lists given
// as null / a string / a number / an object, a descriptor whose transports is not a list, JSON cut
// off inside a list.  Parsing is a function of the document: the n+1st parse equals the parse on
// a thread that has seen nothing.
fn after_failed_parses_one(n: usize, kind_of_failure: usize) -> Vec<(String, String)> {
    let bad_docs = |kind: &str| -> Vec<String> {
        let list_paths: Vec<&str> = if kind == "create" { vec!["/publicKey/excludeCredentials", "/publicKey/pubKeyCredParams", "/publicKey/hints", "/publicKey/attestationFormats"] } else { vec!["/publicKey/allowCredentials", "/publicKey/hints", "/publicKey/attestationFormats"] };
        let mut v = vec![];
        for p in &list_paths {
            for repl in [json!(null), json!("x"), json!(5), json!({"a": 1}), json!(true)] {
                let mut d = canonical(kind);
                if let Some(x) = d.pointer_mut(p) {
                    *x = repl;
                    v.push(d.to_string());
                }
            }
        }
        let desc = if kind == "create" { "/publicKey/excludeCredentials/0/transports" } else { "/publicKey/allowCredentials/0/transports" };
        for repl in [json!("usb"), json!(7), json!({"usb": true})] {
            let mut d = canonical(kind);
            if let Some(x) = d.pointer_mut(desc) {
                *x = repl;
                v.push(d.to_string());
            }
        }
        // JSON cut off inside a list
        let text = canonical(kind).to_string();
        for marker in ["\"transports\":[", "Credentials\":[", "\"hints\":["] {
            if let Some(i) = text.find(marker) {
                v.push(text[..i + marker.len() + 3].to_string());
            }
        }
        v
    };
    let mut out = vec![];
    for kind in ["create", "get"] {
        let bad = bad_docs(kind);
        if bad.is_empty() {
            continue;
        }
        let good = canonical(kind).to_string();
        let (b2, g2, k2) = (bad.clone(), good.clone(), kind.to_string());
        let got = std::thread::spawn(move || {
            for i in 0..n {
                let _ = parse_debug(&k2, &b2[(kind_of_failure + i * (1 + kind_of_failure % 3)) % b2.len()]);
            }
            parse_debug(&k2, &g2)
        })
        .join();
        let (g3, k3) = (good.clone(), kind.to_string());
        let want = std::thread::spawn(move || parse_debug(&k3, &g3)).join();
        match (got, want) {
            (Ok(Ok(Ok(g))), Ok(Ok(Ok(w)))) if g == w => {}
            (Ok(g), Ok(w)) => out.push((format!("doc={kind}/kind=parse-depends-on-thread-history"), format!("after {n} documents whose lists were malformed, the canonical document parses to {:?} on the same thread; a thread that parsed nothing before gets {:?}", g.map(|r| r.map(|s| s.len())), w.map(|r| r.map(|s| s.len()))))),
            _ => out.push(("harness".into(), "parse thread died".into())),
        }
    }
    out
}
fn after_failed_parses(stats: &mut Stats) {
    for n in [1usize, 2, 3, 7, 8, 9, 16, 17, 33, 64, 65, 129, 300] {
        for k in 0..6usize {
            let case = json!({"after_failed_parses": {"n": n, "k": k}});
            stats.case(&case.to_string(), true, "after-failed-parses");
            for (key, d) in after_failed_parses_one(n, k) {
                stats.finding(Finding::new(key, d, case.clone()));
            }
        }
    }
}

// ------------------------------------------------------------------------------------------
// long and non-ASCII text members: names of 63..70000 bytes, ASCII and with multi-byte characters
// lying across the 64-, 128- and 256-byte marks, parse to exactly the text presented (text route,
// owned value and reader)
fn long_text_one(member: usize, which: usize) -> Vec<(String, String)> {
    use passkey_types::webauthn::CredentialCreationOptions;
    let members = ["/publicKey/user/name", "/publicKey/user/displayName", "/publicKey/rp/name"];
    let texts: Vec<String> = vec![
        "a".repeat(63),
        "a".repeat(64),
        "a".repeat(65),
        "n".repeat(200),
        "\u{fc}".repeat(40),
        format!("a{}", "\u{fc}".repeat(40)),
        format!("{}\u{6f22}\u{5b57}", "x".repeat(62)),
        format!("{}\u{1f600}tail", "y".repeat(61)),
        format!("{}\u{1f600}", "z".repeat(126)),
        format!("{}\u{e9}", "w".repeat(255)),
        "L".repeat(70_000),
        "\u{1f600}".repeat(5000),
    ];
    let (path, text) = (members[member % 3], &texts[which % texts.len()]);
    let mut d = canonical("create");
    if let Some(v) = d.pointer_mut(path) {
        *v = json!(text);
    }
    let doc = d.to_string();
    let read = |o: &CredentialCreationOptions| match member % 3 {
        0 => o.public_key.user.name.clone(),
        1 => o.public_key.user.display_name.clone(),
        _ => o.public_key.rp.name.clone(),
    };
    let mut out = vec![];
    let routes: [(&str, Box<dyn Fn() -> Result<CredentialCreationOptions, String>>); 3] = [
        ("text", Box::new(|| serde_json::from_str(&doc).map_err(|e| e.to_string()))),
        ("owned value", Box::new(|| serde_json::from_str::<Value>(&doc).map_err(|e| e.to_string()).and_then(|v| serde_json::from_value(v).map_err(|e| e.to_string())))),
        ("reader", Box::new(|| serde_json::from_reader(doc.as_bytes()).map_err(|e| e.to_string()))),
    ];
    for (name, f) in routes.iter() {
        match par::catch(|| f()) {
            Err(p) => out.push((format!("doc=create/kind=panic/long-text"), format!("a {}-byte {path} through the {name} route: {p}", text.len()))),
            Ok(Err(e)) => out.push((format!("doc=create/kind=parse-fails/long-text"), format!("a {}-byte {path} through the {name} route: {e}", text.len()))),
            Ok(Ok(o)) => {
                let got = read(&o);
                if got != *text {
                    out.push((format!("doc=create/kind=parses-to-different-value/long-text"), format!("a {}-byte {path} reads back as {} bytes through the {name} route", text.len(), got.len())));
                }
            }
        }
    }
    out
}
fn long_text(stats: &mut Stats) {
    for member in 0..3usize {
        for which in 0..12usize {
            let case = json!({"long_text": {"member": member, "which": which}});
            stats.case(&case.to_string(), true, "long-text-member");
            for (k, d) in long_text_one(member, which) {
                stats.finding(Finding::new(k, d, case.clone()));
            }
        }
    }
}

// ------------------------------------------------------------------------------------------
// named unknown members: every identifier-like string literal of the types crate, used as the
// name of a member an object does not declare.  Such a member is ignored: (1) added to the full
// document it changes nothing; (2) given the value of a declared optional member M in a document
// without M, the document still parses as "M absent" – i.e. the name is not secretly another
// spelling of M.  The spellings the pinned tree documents as deliberate are listed here.
const DOCUMENTED_ALIASES: [(&str, &str); 1] = [("get", "allowList")];

/// Members the WebAuthn dictionaries (and this library's documented additions) declare for the
/// object at `path`, whether or not the canonical document carries them.
fn declared(kind: &str, path: &str) -> &'static [&'static str] {
    let last = path.rsplit('/').find(|s| s.parse::<usize>().is_err()).unwrap_or("");
    if path.contains("/evalByCredential/") {
        return &["first", "second"];
    }
    match last {
        "" => &["publicKey"],
        "publicKey" if kind == "create" => &["rp", "user", "challenge", "pubKeyCredParams", "timeout", "excludeCredentials", "authenticatorSelection", "hints", "attestation", "attestationFormats", "extensions"],
        "publicKey" => &["challenge", "timeout", "rpId", "allowCredentials", "userVerification", "hints", "attestation", "attestationFormats", "extensions"],
        "rp" => &["id", "name"],
        "user" => &["id", "name", "displayName"],
        "pubKeyCredParams" => &["type", "alg"],
        "excludeCredentials" | "allowCredentials" => &["type", "id", "transports"],
        "authenticatorSelection" => &["authenticatorAttachment", "residentKey", "requireResidentKey", "userVerification"],
        "extensions" => &["credProps", "prf", "prfAlreadyHashed"],
        "prf" | "prfAlreadyHashed" => &["eval", "evalByCredential"],
        "eval" => &["first", "second"],
        _ => &[],
    }
}

pub fn member_names() -> Vec<String> {
    let mut v: Vec<String> = crate::core::dict::source_literals(&["passkey-types", "passkey-client"], 40)
        .into_iter()
        .filter_map(|l| String::from_utf8(l).ok())
        .filter(|t| t.len() >= 2 && t.chars().next().is_some_and(|c| c.is_ascii_alphabetic()) && t.chars().all(|c| c.is_ascii_alphanumeric() || c == '_' || c == '-'))
        .collect();
    // near misses of the declared names: other spellings a compatibility shim might accept
    for kind in ["create", "get"] {
        let mut objs = vec![];
        object_paths(&canonical(kind), String::new(), &mut objs);
        for (p, _) in objs {
            if let Some(Value::Object(o)) = canonical(kind).pointer(&p) {
                for k in o.keys() {
                    let snake: String = k.chars().flat_map(|c| if c.is_ascii_uppercase() { vec!['_', c.to_ascii_lowercase()] } else { vec![c] }).collect();
                    v.push(snake);
                    v.push(k.replace("Credentials", "List"));
                    v.push(k.replace("Credentials", "Creds"));
                    v.push(format!("{k}s"));
                    let mut cap = k.clone();
                    if let Some(f) = cap.get_mut(0..1) {
                        f.make_ascii_uppercase();
                    }
                    v.push(cap);
                }
            }
        }
    }
    v.sort();
    v.dedup();
    v
}

// ------------------------------------------------------------------------------------------
// unknown members whose VALUE a JSON reader can skip but not hold: escapes of lone surrogates,
// numbers beyond every machine range, nesting deeper than the reader's recursion limit.  An ignored
// member is never looked into, so the document parses as without it.  These values have no
// serde_json::Value form: they are spliced into the text, and the text and byte-reader routes are
// driven (the owned-value route cannot be entered with them).
/// Objects the parser walks member by member.  Entries of the lenient lists are excluded: the pinned
/// tree buffers each entry (to be able to drop it), and a buffer cannot hold these values either –
/// recorded as a limit in DESIGN.md, not judged.
fn plain_object(path: &str) -> bool {
    !path.rsplit('/').next().is_some_and(|l| l.parse::<usize>().is_ok())
}
fn raw_values() -> Vec<(String, String)> {
    let mut v: Vec<(String, String)> = vec![
        ("lone-high-surrogate".into(), r#""\ud83d""#.into()),
        ("lone-low-surrogate".into(), r#""\udc00""#.into()),
        ("two-high-surrogates".into(), r#""\ud83d\ud83d""#.into()),
        ("surrogate-in-key".into(), r#"{"\ud83d":1}"#.into()),
        ("surrogate-in-list".into(), r#"[1,"\udfff"]"#.into()),
        ("huge-exponent".into(), "1e999".into()),
        ("huge-negative-exponent".into(), "-1E+999".into()),
        ("tiny-exponent".into(), "1e-999".into()),
        ("huge-in-list".into(), "[0,1e400]".into()),
        ("huge-in-object".into(), r#"{"a":{"b":1e400}}"#.into()),
        ("long-integer".into(), "123456789012345678901234567890123456789012345678901234567890".into()),
        ("long-negative-integer".into(), "-123456789012345678901234567890123456789012345678901234567890".into()),
        ("long-fraction".into(), format!("0.{}", "1".repeat(400))),
        ("nul-escape".into(), r#""\u0000""#.into()),
    ];
    for d in [100usize, 120, 126, 127, 128, 129, 200, 1000, 20000] {
        v.push((format!("lists-{d}-deep"), format!("{}{}", "[".repeat(d), "]".repeat(d))));
        v.push((format!("objects-{d}-deep"), format!("{}1{}", r#"{"a":"#.repeat(d), "}".repeat(d))));
    }
    v
}
fn raw_parse(kind: &str, text: &str) -> Result<[Result<String, String>; 2], String> {
    fn two<T: serde::de::DeserializeOwned + std::fmt::Debug>(text: &str) -> [Result<String, String>; 2] {
        [serde_json::from_str::<T>(text).map(|v| format!("{v:?}")).map_err(|e| e.to_string()), serde_json::from_reader::<_, T>(text.as_bytes()).map(|v| format!("{v:?}")).map_err(|e| e.to_string())]
    }
    par::catch(|| if kind == "create" { two::<CredentialCreationOptions>(text) } else { two::<CredentialRequestOptions>(text) })
}
fn raw_unknown_one(kind: &str, path: &str, what: &str, case: &Value) -> Vec<Finding> {
    let mut fs = vec![];
    let Some((_, raw)) = raw_values().into_iter().find(|(n, _)| n == what) else { return fs };
    let doc = canonical(kind);
    let Ok([Ok(base), _]) = raw_parse(kind, &doc.to_string()) else { return fs };
    for first in [false, true] {
        let mut d = doc.clone();
        let Some(Value::Object(o)) = d.pointer_mut(path) else { return fs };
        insert_at(o, if first { 0 } else { usize::MAX }, "zzUnknownMember", json!("@@RAW@@"));
        let text = d.to_string().replace("\"@@RAW@@\"", &raw);
        let place = if first { "first" } else { "last" };
        let obj = if path.is_empty() { "/" } else { path };
        match raw_parse(kind, &text) {
            Err(p) => fs.push(Finding::new(format!("doc={kind}/kind=panic"), format!("unknown member with a {what} value, {place} in {obj}: parse panicked: {p}"), case.clone())),
            Ok(rs) => {
                for (route, r) in ["from_str", "from_reader"].iter().zip(rs) {
                    match r {
                        Err(e) => fs.push(Finding::new(format!("doc={kind}/kind=unknown-member-fails-the-parse"), format!("unknown member with a {what} value, {place} in {obj}, {route}: {e}"), case.clone())),
                        Ok(got) if got != base => fs.push(Finding::new(format!("doc={kind}/kind=unknown-member-changes-the-value"), format!("unknown member with a {what} value, {place} in {obj}, {route}"), case.clone())),
                        Ok(_) => {}
                    }
                }
            }
        }
    }
    fs
}
fn raw_unknown_members(stats: &mut Stats, threads: usize) {
    let mut work: Vec<(String, String, String)> = vec![];
    for kind in ["create", "get"] {
        let doc = canonical(kind);
        let mut objs = vec![];
        object_paths(&doc, String::new(), &mut objs);
        for (p, _) in objs {
            if !plain_object(&p) {
                continue;
            }
            for (n, _) in raw_values() {
                work.push((kind.to_string(), p.clone(), n));
            }
        }
    }
    let st = par::sweep_cases(&work, threads, |(kind, path, what), st| {
        let case = json!({"raw_unknown": {"doc": kind, "object": path, "value": what}});
        for f in raw_unknown_one(kind, path, what, &case) {
            st.finding(f);
        }
        st.case(&(kind, path, what), true, "unskippable-unknown-member");
    });
    stats.count("unholdable_unknown_member_cases", st.evaluations);
    stats.merge(st);
}

fn named_members(stats: &mut Stats, threads: usize) {
    let names = member_names();
    let mut work: Vec<(String, String, String)> = vec![]; // (kind, object path, name)
    for kind in ["create", "get"] {
        let doc = canonical(kind);
        let mut objs = vec![];
        object_paths(&doc, String::new(), &mut objs);
        for (p, _) in objs {
            let Some(Value::Object(o)) = doc.pointer(&p) else { continue };
            for n in &names {
                if o.contains_key(n) || declared(kind, &p).contains(&n.as_str()) || DOCUMENTED_ALIASES.contains(&(kind, n.as_str())) {
                    continue;
                }
                work.push((kind.to_string(), p.clone(), n.clone()));
            }
        }
    }
    let st = par::sweep_cases(&work, threads, |(kind, path, name), st| {
        let case = json!({"named_member": {"doc": kind, "object": path, "name": name}});
        for f in named_member_one(kind, path, name, &case) {
            st.finding(f);
        }
        st.case(&(kind, path, name), true, "named-unknown-member");
    });
    stats.count("named_unknown_member_cases", st.evaluations);
    stats.merge(st);
}
fn named_member_one(kind: &str, path: &str, name: &str, case: &Value) -> Vec<Finding> {
    let mut fs = vec![];
    let doc = canonical(kind);
    let Ok(Ok(base)) = parse_debug(kind, &doc.to_string()) else { return fs };
    let Some(Value::Object(obj)) = doc.pointer(path) else { return fs };
    // (1) added to the full object with values of several shapes
    for (i, v) in [json!([]), json!([{"type": "public-key", "id": "AAAA"}]), json!("x"), json!(7), json!({}), json!(null), json!(true)].into_iter().enumerate() {
        let mut d = doc.clone();
        if let Some(Value::Object(o)) = d.pointer_mut(path) {
            o.insert(name.to_string(), v);
        }
        match parse_debug(kind, &d.to_string()) {
            Err(p) => fs.push(Finding::new(format!("doc={kind}/kind=panic/named-member"), format!("member {name:?} in {path:?}: {p}"), case.clone())),
            Ok(Err(e)) => fs.push(Finding::new(format!("doc={kind}/kind=undeclared-member-rejected"), format!("undeclared member {name:?} (value shape {i}) in object {path:?} makes the document fail: {e}"), case.clone())),
            Ok(Ok(got)) => {
                if got != base {
                    fs.push(Finding::new(format!("doc={kind}/kind=undeclared-member-changes-value"), format!("undeclared member {name:?} (value shape {i}) in object {path:?} changes the parsed value"), case.clone()));
                }
            }
        }
        if !fs.is_empty() {
            return fs;
        }
    }
    // (2) standing in for each declared member of the object
    for (m, val) in obj.iter() {
        let mut without = doc.clone();
        if let Some(Value::Object(o)) = without.pointer_mut(path) {
            o.shift_remove(m);
        }
        let want = parse_debug(kind, &without.to_string());
        let mut d = without.clone();
        if let Some(Value::Object(o)) = d.pointer_mut(path) {
            o.insert(name.to_string(), val.clone());
        }
        let got = parse_debug(kind, &d.to_string());
        if std::env::var("VCHECK_DEBUG").is_ok() {
            eprintln!("member {m}: want={:?}\n got={:?}", want.as_ref().map(|r| r.as_ref().map(|s| s.chars().take(300).collect::<String>())), got.as_ref().map(|r| r.as_ref().map(|s| s.chars().take(300).collect::<String>())));
        }
        match (want, got) {
            (Ok(Ok(w)), Ok(Ok(g))) if w != g => {
                fs.push(Finding::new(format!("doc={kind}/kind=undeclared-member-read-as-declared"), format!("in object {path:?} the undeclared member {name:?} carrying the value of {m:?} is not ignored: the document parses differently from the one without {m:?}"), case.clone()));
                return fs;
            }
            (Ok(Err(_)), Ok(Ok(_))) => {
                fs.push(Finding::new(format!("doc={kind}/kind=undeclared-member-read-as-declared"), format!("in object {path:?} the required member {m:?} is missing, yet the document parses once the undeclared member {name:?} carries its value"), case.clone()));
                return fs;
            }
            (Ok(Ok(_)), Ok(Err(e))) => {
                fs.push(Finding::new(format!("doc={kind}/kind=undeclared-member-rejected"), format!("undeclared member {name:?} with the value of {m:?} in object {path:?}: {e}"), case.clone()));
                return fs;
            }
            (_, Err(p)) => fs.push(Finding::new(format!("doc={kind}/kind=panic/named-member"), p, case.clone())),
            _ => {}
        }
    }
    fs
}

// ------------------------------------------------------------------------------------------
// emitted credentials re-parse

fn emitted(stats: &mut Stats) {
    for org in ORGS {
        for mode in MODES {
            for prf in [false, true] {
                for hmac in [0u8, 2] {
                    // user ids: the default, the empty byte string, 64 bytes
                    for user in 0..3u8 {
                        // the authenticator's configured transports: default, none, one
                        for transports in 0..3u8 {
                            let case = json!({"emitted": {"org": org, "mode": mode, "prf": prf, "hmac": hmac, "user": user, "transports": transports}});
                            for f in emitted_one(org, mode, prf, hmac, user, transports, &case) {
                                stats.finding(f);
                            }
                            stats.case(&case.to_string(), true, "emitted-credential");
                        }
                    }
                }
            }
        }
    }
}
fn emitted_one(org: Org, mode: Mode, prf: bool, hmac: u8, user: u8, transports: u8, case: &Value) -> Vec<Finding> {
    let mut fs = vec![];
    let store = Shared::new(RefStore::new());
    let mut auth = mk_auth(store.clone(), ScriptedUv::consenting(Log::new()), &AuthCfg { counter: true, id_len: None, hmac, hmac_mc: true, order: 0 });
    auth = match transports {
        1 => auth.transports(vec![]),
        2 => auth.transports(vec![webauthn::AuthenticatorTransport::Usb]),
        _ => auth,
    };
    let mut client = passkey_client::Client::new(auth).allows_insecure_localhost(org == Org::Localhost);
    let ext = || {
        Some(webauthn::AuthenticationExtensionsClientInputs {
            cred_props: Some(true),
            prf: prf.then(|| webauthn::AuthenticationExtensionsPrfInputs { eval: Some(webauthn::AuthenticationExtensionsPrfValues { first: vec![1, 2].into(), second: Some(vec![3].into()) }), eval_by_credential: None }),
            prf_already_hashed: None,
        })
    };
    let (rp_arg, _, _) = org.spec();
    let user_id: Vec<u8> = match user {
        1 => vec![],
        2 => vec![0xff; 64],
        _ => Reg::default().user_id,
    };
    let reg = register(&mut client, org, mode, creation_options(Reg { rp_id: rp_arg.map(|s| s.into()), user_id, extensions: ext(), selection: Some(webauthn::AuthenticatorSelectionCriteria { authenticator_attachment: None, resident_key: None, require_resident_key: true, user_verification: Default::default() }), ..Default::default() }));
    match reg {
        Ok(Ok(cr)) => {
            match par::catch(|| {
                let text = serde_json::to_string(&cr).map_err(|e| e.to_string())?;
                let back: webauthn::CreatedPublicKeyCredential = serde_json::from_str(&text).map_err(|e| format!("{e} in {text}"))?;
                Ok::<_, String>((format!("{back:?}"), format!("{cr:?}")))
            }) {
                Ok(Ok((a, b))) => {
                    if a != b {
                        fs.push(Finding::new("emitted/kind=created-credential-reparses-differently", format!("{a} vs {b}"), case.clone()));
                    }
                }
                Ok(Err(e)) => fs.push(Finding::new("emitted/kind=created-credential-does-not-reparse", e, case.clone())),
                Err(p) => fs.push(Finding::new("emitted/kind=panic", p, case.clone())),
            }
        }
        other => fs.push(Finding::new("emitted/kind=harness-registration-failed", format!("{other:?}"), case.clone())),
    }
    let auth = authenticate(&mut client, org, mode, request_options(Auth { rp_id: rp_arg.map(|s| s.into()), extensions: ext(), ..Default::default() }));
    match auth {
        Ok(Ok(cr)) => {
            match par::catch(|| {
                let text = serde_json::to_string(&cr).map_err(|e| e.to_string())?;
                let back: webauthn::AuthenticatedPublicKeyCredential = serde_json::from_str(&text).map_err(|e| format!("{e} in {text}"))?;
                Ok::<_, String>((format!("{back:?}"), format!("{cr:?}")))
            }) {
                Ok(Ok((a, b))) => {
                    if a != b {
                        fs.push(Finding::new("emitted/kind=assertion-credential-reparses-differently", format!("{a} vs {b}"), case.clone()));
                    }
                }
                Ok(Err(e)) => fs.push(Finding::new("emitted/kind=assertion-credential-does-not-reparse", e, case.clone())),
                Err(p) => fs.push(Finding::new("emitted/kind=panic", p, case.clone())),
            }
        }
        other => fs.push(Finding::new("emitted/kind=harness-authentication-failed", format!("{other:?}"), case.clone())),
    }
    fs
}

// ------------------------------------------------------------------------------------------
// client data member order

#[derive(Clone, Serialize)]
struct Two {
    #[serde(rename = "androidPackageName")]
    a: String,
    #[serde(rename = "zeta")]
    z: u32,
}
#[derive(Clone, Serialize)]
struct Nested {
    payment: Value,
    alpha: Vec<u8>,
}

fn top_level_keys(text: &str) -> Result<Vec<String>, String> {
    struct V;
    impl<'de> serde::de::Visitor<'de> for V {
        type Value = Vec<String>;
        fn expecting(&self, f: &mut std::fmt::Formatter) -> std::fmt::Result {
            write!(f, "an object")
        }
        fn visit_map<A: serde::de::MapAccess<'de>>(self, mut m: A) -> Result<Vec<String>, A::Error> {
            let mut v = vec![];
            while let Some(k) = m.next_key::<String>()? {
                let _: serde::de::IgnoredAny = m.next_value()?;
                v.push(k);
            }
            Ok(v)
        }
    }
    let mut de = serde_json::Deserializer::from_str(text);
    serde::Deserializer::deserialize_map(&mut de, V).map_err(|e| e.to_string())
}

fn client_data_cases() -> Vec<Value> {
    // unknown-key maps: 0..3 keys in every order, nested values
    let pool: Vec<(&str, Value)> = vec![("zzz", json!(1)), ("aaa", json!({"n": [1, {"m": null}]})), ("mid", json!("s"))];
    let mut v = vec![];
    let perms: Vec<Vec<usize>> = vec![vec![], vec![0], vec![1], vec![2], vec![0, 1], vec![1, 0], vec![0, 2], vec![2, 0], vec![1, 2], vec![2, 1], vec![0, 1, 2], vec![0, 2, 1], vec![1, 0, 2], vec![1, 2, 0], vec![2, 0, 1], vec![2, 1, 0]];
    for e in 0..3u8 {
        for p in &perms {
            for cross in [None, Some(false), Some(true)] {
                for ty in ["webauthn.create", "webauthn.get", "payment.get"] {
                    let unk: Vec<(String, Value)> = p.iter().map(|&i| (pool[i].0.to_string(), pool[i].1.clone())).collect();
                    v.push(json!({"client_data": {"extra": e, "unknown": unk, "cross": cross, "ty": ty}}));
                }
            }
        }
    }
    // unknown members of which one carries the name of a member the extra data also produces
    // (what the library does with the doubled name is not judged): the OTHER unknown members keep
    // their order, wherever the shared name stands among four or five of them
    for (e, shared) in [(1u8, "androidPackageName"), (1, "zeta"), (2, "payment"), (2, "alpha")] {
        for n in [4usize, 5] {
            for at in 0..n {
                let names = ["topOrigin", "zzz", "aaa", "mid", "b"];
                let mut unk: Vec<(String, Value)> = names[..n - 1].iter().enumerate().map(|(i, k)| (k.to_string(), json!({"i": i}))).collect();
                unk.insert(at, (shared.to_string(), json!("other")));
                v.push(json!({"client_data": {"extra": e, "unknown": unk, "cross": null, "ty": "webauthn.get", "overlap": shared}}));
            }
        }
    }
    v
}
fn client_data_one(case: &Value) -> Vec<Finding> {
    let c = &case["client_data"];
    let e = c["extra"].as_u64().unwrap_or(0);
    let unk: Vec<(String, Value)> = serde_json::from_value(c["unknown"].clone()).unwrap_or_default();
    let cross: Option<bool> = c["cross"].as_bool();
    let ty = match c["ty"].as_str() {
        Some("webauthn.get") => webauthn::ClientDataType::Get,
        Some("payment.get") => webauthn::ClientDataType::PaymentGet,
        _ => webauthn::ClientDataType::Create,
    };
    let unknown_keys: indexmap::IndexMap<String, Value> = unk.iter().cloned().collect();
    let text = par::catch(|| match e {
        0 => serde_json::to_string(&CollectedClientData::<()> { ty, challenge: "Y2g".into(), origin: "https://example.com".into(), cross_origin: cross, extra_data: (), unknown_keys: unknown_keys.clone() }),
        1 => serde_json::to_string(&CollectedClientData::<Two> { ty, challenge: "Y2g".into(), origin: "https://example.com".into(), cross_origin: cross, extra_data: Two { a: "pkg".into(), z: 9 }, unknown_keys: unknown_keys.clone() }),
        _ => serde_json::to_string(&CollectedClientData::<Nested> { ty, challenge: "Y2g".into(), origin: "https://example.com".into(), cross_origin: cross, extra_data: Nested { payment: json!({"rpId": "x", "total": {"v": "1.0"}}), alpha: vec![1, 2] }, unknown_keys: unknown_keys.clone() }),
    });
    let mut fs = vec![];
    let text = match text {
        Err(p) => return vec![Finding::new("clientdata/kind=panic", p, case.clone())],
        Ok(Err(e)) => return vec![Finding::new("clientdata/kind=serialise-fails", e.to_string(), case.clone())],
        Ok(Ok(t)) => t,
    };
    let keys = match top_level_keys(&text) {
        Ok(k) => k,
        Err(e) => return vec![Finding::new("clientdata/kind=not-json", e, case.clone())],
    };
    let mut want: Vec<String> = ["type", "challenge", "origin", "crossOrigin"].iter().map(|s| s.to_string()).collect();
    match e {
        1 => want.extend(["androidPackageName".to_string(), "zeta".to_string()]),
        2 => want.extend(["payment".to_string(), "alpha".to_string()]),
        _ => {}
    }
    want.extend(unk.iter().map(|(k, _)| k.clone()));
    if let Some(shared) = c["overlap"].as_str() {
        // a name on both sides: compare the order of everything else
        let rest = |ks: &[String]| -> Vec<String> { ks.iter().filter(|k| k.as_str() != shared).cloned().collect() };
        let (got, wanted) = (rest(&keys), rest(&want));
        if got != wanted {
            fs.push(Finding::new("clientdata/kind=member-order", format!("members other than the doubled {shared:?}: {got:?}, expected {wanted:?} in {text}"), case.clone()));
        }
        return fs;
    }
    if keys != want {
        let mut sorted = keys.clone();
        sorted.sort();
        sorted.dedup();
        let kind = if sorted.len() != keys.len() { "duplicate-member" } else if keys.len() >= 4 && keys[..4] != want[..4] { "first-four-members" } else { "member-order" };
        fs.push(Finding::new(format!("clientdata/kind={kind}"), format!("members {keys:?}, expected {want:?} in {text}"), case.clone()));
    }
    // values survive
    if let Ok(v) = serde_json::from_str::<Value>(&text) {
        for (k, val) in &unk {
            if v.get(k) != Some(val) {
                fs.push(Finding::new("clientdata/kind=unknown-member-value-changed", format!("{k}"), case.clone()));
            }
        }
        if v["crossOrigin"] != json!(cross == Some(true)) {
            fs.push(Finding::new("clientdata/kind=cross-origin-value", format!("{:?} for {cross:?}", v["crossOrigin"]), case.clone()));
        }
    }
    fs
}
// ------------------------------------------------------------------------------------------
// client data as emitted by Client::register / Client::authenticate with caller-supplied extras,
// including extras whose member name collides with one of the four standard members

fn client_extras_cases() -> Vec<Value> {
    let mut v = vec![json!({"client_extras": {"collide_at": null, "name": null}})];
    for pos in 0..5usize {
        for name in ["type", "challenge", "origin", "crossOrigin"] {
            v.push(json!({"client_extras": {"collide_at": pos, "name": name}}));
        }
    }
    v
}
fn client_extras_one(case: &Value) -> Vec<Finding> {
    use passkey_client::DefaultClientDataWithExtra;
    let c = &case["client_extras"];
    let mut names: Vec<String> = ["androidPackageName", "zeta", "payment", "topOrigin", "appVersion"].iter().map(|s| s.to_string()).collect();
    if let (Some(pos), Some(name)) = (c["collide_at"].as_u64(), c["name"].as_str()) {
        names[pos as usize] = name.to_string();
    }
    let extras: Map<String, Value> = names.iter().enumerate().map(|(i, n)| (n.clone(), json!({"i": i, "v": [i, "x"]}))).collect();
    let standard = ["type", "challenge", "origin", "crossOrigin"];
    let want_tail: Vec<String> = names.iter().filter(|n| !standard.contains(&n.as_str())).cloned().collect();
    let mut fs = vec![];
    for op in ["register", "authenticate"] {
        let store = Shared::new(RefStore::with(vec![seeded(&Seed { n: 1, rp: "example.com".into(), handle: Some(vec![1]), counter: None, hmac: None })]));
        let auth = passkey_authenticator::Authenticator::new(passkey_types::ctap2::Aaguid::new_empty(), store, ScriptedUv::consenting(Log::new()));
        let mut client = passkey_client::Client::new(auth);
        let origin = url::Url::parse("https://example.com").unwrap();
        let cd = DefaultClientDataWithExtra(Value::Object(extras.clone()));
        let text = par::catch(|| {
            if op == "register" {
                crate::core::exec::block_on(client.register(&origin, creation_options(Reg::default()), cd)).map(|c| c.response.client_data_json.to_vec()).map_err(|e| format!("{e:?}"))
            } else {
                crate::core::exec::block_on(client.authenticate(&origin, request_options(Auth::default()), cd)).map(|c| c.response.client_data_json.to_vec()).map_err(|e| format!("{e:?}"))
            }
        });
        let text = match text {
            Err(p) => {
                fs.push(Finding::new("clientdata/client/kind=panic", p, case.clone()));
                continue;
            }
            Ok(Err(e)) => {
                fs.push(Finding::new("clientdata/client/kind=ceremony-fails", e, case.clone()));
                continue;
            }
            Ok(Ok(t)) => String::from_utf8_lossy(&t).to_string(),
        };
        let keys = match top_level_keys(&text) {
            Ok(k) => k,
            Err(e) => {
                fs.push(Finding::new("clientdata/client/kind=not-json", e, case.clone()));
                continue;
            }
        };
        if keys.len() < 4 || keys[..4] != standard {
            fs.push(Finding::new("clientdata/client/kind=first-four-members", format!("{op}: members {keys:?}"), case.clone()));
            continue;
        }
        let tail: Vec<String> = keys[4..].iter().filter(|k| !standard.contains(&k.as_str())).cloned().collect();
        if tail != want_tail {
            fs.push(Finding::new("clientdata/client/kind=extra-member-order", format!("{op}: extra members emitted as {tail:?}, supplied as {want_tail:?} (all members: {keys:?})"), case.clone()));
        }
    }
    fs
}

pub fn run(ctx: &Ctx) -> Result<Run, String> {
    let cs = cases(ctx.tier);
    let mut stats = par::sweep_cases(&cs, ctx.threads, |c, st| {
        let (fs, o) = eval(c);
        if o != "not-applicable" {
            st.case(c, !c.muts.is_empty(), &o);
        } else {
            st.outcome("not-applicable");
        }
        st.findings_from(fs);
    });
    for c in cs.iter().filter(|c| !c.muts.is_empty()).step_by(cs.len() / 3 + 1) {
        stats.samples.push(serde_json::to_value(c).unwrap());
    }
    b64_identity(ctx, &mut stats);
    emitted(&mut stats);
    named_members(&mut stats, ctx.threads);
    raw_unknown_members(&mut stats, ctx.threads);
    long_binary(&mut stats);
    long_text(&mut stats);
    after_failed_parses(&mut stats);
    for case in client_data_cases() {
        stats.case(&case.to_string(), true, "client-data-order");
        for f in client_data_one(&case) {
            stats.finding(f);
        }
    }
    for case in client_extras_cases() {
        stats.case(&case.to_string(), true, "client-data-through-client");
        for f in client_extras_one(&case) {
            stats.finding(f);
        }
    }
    let mut run = Run::from_stats(
        "exploration",
        "creation and request options: all 256 presence patterns of the optional members x one presentation change at a time (each binary member as array / base64url +- padding / base64 +- padding / base64url with non-zero unused trailing bits +- padding, timeout and alg as number / numeric string / integral float / float string, an unknown scalar/object/array member at every position of every object, an unknown string for every enumeration, every algorithm identifier replaced by a number congruent to it modulo 2^64 / 2^32 (integer, string, float; dropped like any unknown identifier, or refused), every string value spelled with JSON escapes (all characters, first and last, an escaped solidus plus upper-case hex) - the same JSON value, an unknown entry at every index of every lenient list incl. pubKeyCredParams entries with an unknown alg in every member order and with trailing unknown members); thorough: all pairs of changes on the full document. Every document is parsed through three routes (borrowed text, an owned serde_json::Value, a byte reader) which must agree (a disagreement is a finding of its own). Oracle: Debug of the parsed value equals that of the canonical presentation (unknown enum = member absent, unknown list entry = entry absent). A valid document after 1..300 documents with malformed lists (null, string, number, object, non-list transports, JSON cut off inside a list) on the same thread parses as on a fresh thread. Long text members: user.name, user.displayName and rp.name of 63..70000 bytes, ASCII and with multi-byte characters across the 64/128/256-byte marks, read back unchanged through the three routes. Long binary members: a challenge of 255..100000 bytes in each of the five presentations parses to the same value. Named unknown members: every identifier-like string literal of the types and client crates (and near-miss spellings of the declared names) as the name of an undeclared member of every object, with seven value shapes, and standing in for each declared member of that object (it must stay ignored; the one spelling the pinned tree documents, allowList, is exempt). Plus base64url encode/decode identity on all byte strings up to length 2 (3 thorough) and patterned lengths 4..64 against an own RFC 4648 codec; every credential emitted by 72 register+authenticate ceremonies re-parsed from its JSON; CollectedClientData member order for 3 extra-data types x 16 orders of 0..3 unknown members x crossOrigin x type, and the client data emitted by Client::register/authenticate for five caller-supplied extras with a standard member's name at each position. Non-trivial = distinct case with at least one presentation change / non-empty input",
        true,
        stats,
    );
    run.assume("descriptor/parameter entries of unknown *type* and list entries of a different JSON shape are outside the alphabet; maps keyed by data (evalByCredential) get no injected members");
    Ok(run)
}

pub fn replay(ctx: &Ctx, case: &Value) -> Result<Vec<Finding>, String> {
    if let Some(b) = case.get("bytes") {
        let b: Vec<u8> = serde_json::from_value(b.clone()).map_err(|e| e.to_string())?;
        let mut st = Stats::new();
        b64_one(&b, &mut st);
        return Ok(st.findings.into_values().map(|x| x.0).collect());
    }
    if let Some(a) = case.get("after_failed_parses") {
        return Ok(after_failed_parses_one(a["n"].as_u64().unwrap_or(0) as usize, a["k"].as_u64().unwrap_or(0) as usize).into_iter().map(|(k, d)| Finding::new(k, d, case.clone())).collect());
    }
    if let Some(l) = case.get("long_text") {
        return Ok(long_text_one(l["member"].as_u64().unwrap_or(0) as usize, l["which"].as_u64().unwrap_or(0) as usize).into_iter().map(|(k, d)| Finding::new(k, d, case.clone())).collect());
    }
    if case.get("long_binary").is_some() {
        let mut st = Stats::new();
        long_binary(&mut st);
        return Ok(st.findings.into_values().map(|x| x.0).filter(|f| f.case == *case).collect());
    }
    if let Some(e) = case.get("raw_unknown") {
        return Ok(raw_unknown_one(e["doc"].as_str().unwrap_or(""), e["object"].as_str().unwrap_or(""), e["value"].as_str().unwrap_or(""), case));
    }
    if let Some(e) = case.get("named_member") {
        return Ok(named_member_one(e["doc"].as_str().unwrap_or(""), e["object"].as_str().unwrap_or(""), e["name"].as_str().unwrap_or(""), case));
    }
    if let Some(e) = case.get("emitted") {
        let org: Org = serde_json::from_value(e["org"].clone()).map_err(|e| e.to_string())?;
        let mode: Mode = serde_json::from_value(e["mode"].clone()).map_err(|e| e.to_string())?;
        return Ok(emitted_one(org, mode, e["prf"].as_bool().unwrap_or(false), e["hmac"].as_u64().unwrap_or(0) as u8, e["user"].as_u64().unwrap_or(0) as u8, e["transports"].as_u64().unwrap_or(0) as u8, case));
    }
    if case.get("client_data").is_some() {
        return Ok(client_data_one(case));
    }
    if case.get("client_extras").is_some() {
        return Ok(client_extras_one(case));
    }
    let _ = ctx;
    let c: Case = serde_json::from_value(case.clone()).map_err(|e| format!("bad C14 case: {e}"))?;
    Ok(eval(&c).0)
}
