//! C08 – signature counters strictly increase and equal what the store holds.
//! Explicit-state search: state = counters of all stored credentials; actions = assertions on each
//! credential (with/without a PRF extension request) and registrations (counter on/off); every
//! transition replays the history on the real Authenticator over a persistent store.
use crate::core::exec::block_on;
use crate::core::graph::{self, Sys};
use crate::core::par;
use crate::core::report::*;
use crate::drivers::*;
use passkey_authenticator::{extensions::HmacSecretConfig, Authenticator};
use passkey_types::ctap2::extensions::{AuthenticatorPrfInputs, AuthenticatorPrfValues};
use passkey_types::ctap2::{get_assertion, Aaguid};
use serde::{Deserialize, Serialize};
use serde_json::{json, Value};

/// boundary values, and two whose four bytes all differ / whose low byte is about to carry (the
/// counter is also read back from the encoded bytes)
pub const STARTS: [Option<u32>; 9] = [Some(0), Some(1), Some(0xFF), Some(0x0102_03FE), Some(0x7FFF_FFFF), Some(0x8000_0000), Some(0xFFFF_FFFE), Some(0xFFFF_FFFF), None];
const RP: &str = "example.com";

#[derive(Clone, Debug, PartialEq, Serialize, Deserialize)]
pub enum Act {
    /// assertion with the i-th stored credential (allow list names it), optional PRF request;
    /// `silent`: up = uv = false and the user-validation step reports neither presence nor verification
    Assert {
        cred: usize,
        ext: bool,
        #[serde(default)]
        silent: bool,
        /// the allow list also names another stored credential, and the PRF inputs are given per
        /// credential for that OTHER one only (no default input): whichever credential signs, only
        /// its counter moves
        #[serde(default)]
        two: bool,
    },
    Register { counter: bool },
}

#[derive(Clone, Debug, Serialize, Deserialize)]
pub struct Case {
    pub start_a: Option<u32>,
    pub start_b: Option<u32>,
    pub hist: Vec<Act>,
    #[serde(default)]
    pub memory: bool,
}

#[derive(Clone)]
pub struct C08 {
    pub depth: usize,
    /// Arc<Mutex<MemoryStore>> instead of the contract store
    pub memory: bool,
}

/// The store under the authenticator plus the creation order of its credentials (the in-memory map
/// has no order of its own; actions address credentials by creation index).
#[derive(Clone)]
pub struct St8 {
    kind: St8Kind,
    order: std::sync::Arc<std::sync::Mutex<Vec<Vec<u8>>>>,
}
#[derive(Clone)]
enum St8Kind {
    Ref(Shared<RefStore>),
    Mem(std::sync::Arc<tokio::sync::Mutex<passkey_authenticator::MemoryStore>>),
}
impl St8 {
    fn new(a: Option<u32>, b: Option<u32>, memory: bool) -> St8 {
        let r = init_store(a, b);
        let order: Vec<Vec<u8>> = r.0.lock().unwrap().items.iter().map(|p| p.credential_id.to_vec()).collect();
        let kind = if memory {
            let m: passkey_authenticator::MemoryStore = r.0.lock().unwrap().items.iter().map(|p| (p.credential_id.to_vec(), p.clone())).collect();
            St8Kind::Mem(std::sync::Arc::new(tokio::sync::Mutex::new(m)))
        } else {
            St8Kind::Ref(r)
        };
        St8 { kind, order: std::sync::Arc::new(std::sync::Mutex::new(order)) }
    }
    /// records in creation order; records whose id the harness has not seen are appended (sorted)
    fn recs_ordered(&self) -> Vec<Rec> {
        let all = match &self.kind {
            St8Kind::Ref(r) => r.recs(),
            St8Kind::Mem(m) => m.recs(),
        };
        let order = self.order.lock().unwrap().clone();
        let mut out: Vec<Rec> = order.iter().filter_map(|id| all.iter().find(|r| r.id == *id).cloned()).collect();
        for r in all {
            if !order.contains(&r.id) {
                out.push(r);
            }
        }
        out
    }
    fn note_created(&self, id: Vec<u8>) {
        self.order.lock().unwrap().push(id);
    }
}

fn init_store(a: Option<u32>, b: Option<u32>) -> Shared<RefStore> {
    let items = vec![
        seeded(&Seed { n: 1, rp: RP.into(), handle: Some(vec![1]), counter: a, hmac: Some(true) }),
        seeded(&Seed { n: 2, rp: RP.into(), handle: Some(vec![2]), counter: b, hmac: Some(true) }),
        seeded(&Seed { n: 3, rp: RP.into(), handle: Some(vec![3]), counter: None, hmac: Some(true) }),
    ];
    let mut s = RefStore::with(items);
    s.newest_first = false;
    Shared::new(s)
}

fn counters(store: &St8) -> Vec<Option<u32>> {
    store.recs_ordered().iter().map(|p| p.counter).collect()
}

/// Apply one action on the real code; returns findings about this step.
fn apply(store: &St8, act: &Act, case: &dyn Fn() -> Value, fs: &mut Vec<Finding>, outcome: &mut String) {
    let log = Log::new();
    let before = store.recs_ordered();
    let silent = matches!(act, Act::Assert { silent: true, .. });
    let uvm = if silent { ScriptedUv::consenting(log.clone()).outcome(UvOutcome::Ok { presence: false, verification: false }) } else { ScriptedUv::consenting(log.clone()) };
    match &store.kind {
        St8Kind::Ref(r) => apply_on(Authenticator::new(Aaguid::new_empty(), Logging { inner: r.clone(), log: log.clone() }, uvm).hmac_secret(HmacSecretConfig::new_without_uv()), store, act, case, fs, outcome, &log, before),
        St8Kind::Mem(m) => apply_on(Authenticator::new(Aaguid::new_empty(), Logging { inner: m.clone(), log: log.clone() }, uvm).hmac_secret(HmacSecretConfig::new_without_uv()), store, act, case, fs, outcome, &log, before),
    }
}

#[allow(clippy::too_many_arguments)]
fn apply_on<S>(mut auth: Authenticator<Logging<S>, ScriptedUv>, store: &St8, act: &Act, case: &dyn Fn() -> Value, fs: &mut Vec<Finding>, outcome: &mut String, log: &Log, before: Vec<Rec>)
where
    S: passkey_authenticator::CredentialStore<PasskeyItem = passkey_types::Passkey> + Send + Sync,
{
    match act {
        Act::Assert { cred, ext, silent, two } => {
            let Some(target) = before.get(*cred).cloned() else {
                *outcome = "assert:no-such-cred".into();
                return;
            };
            let other = before.iter().find(|r| r.id != target.id).cloned().filter(|_| *two);
            let exts = match &other {
                Some(o) => Some(get_assertion::ExtensionInputs { hmac_secret: None, prf: Some(AuthenticatorPrfInputs { eval: None, eval_by_credential: Some([(o.id.clone().into(), AuthenticatorPrfValues { first: [8; 32], second: None })].into_iter().collect()) }) }),
                None => ext.then(|| get_assertion::ExtensionInputs { hmac_secret: None, prf: Some(AuthenticatorPrfInputs { eval: Some(AuthenticatorPrfValues { first: [7; 32], second: None }), eval_by_credential: None }) }),
            };
            let allow = match &other {
                Some(o) => vec![target.id.clone(), o.id.clone()],
                None => vec![target.id.clone()],
            };
            let req = ga_request(RP, Some(allow), false, !*silent, !*silent, false, exts);
            let r = par::catch(|| block_on(auth.get_assertion(req)));
            // with two listed credentials the one that signed is the subject of the counter clauses
            let target = match (&r, &other) {
                (Ok(Ok(resp)), Some(o)) if resp.credential.as_ref().map(|d| d.id.to_vec()) == Some(o.id.clone()) => o.clone(),
                _ => target,
            };
            let after = store.recs_ordered();
            let stored_after = after.iter().find(|r| r.id == target.id).and_then(|r| r.counter);
            let updates = log.snapshot().iter().filter(|e| matches!(e, Event::Update { .. })).count();
            let others_same = before.iter().zip(after.iter()).all(|(b, a)| b.id == target.id || b == a) && before.len() == after.len();
            let mut bad = |kind: &str, d: String| fs.push(Finding::new(format!("op=assert/kind={kind}"), d, case()));
            if !others_same {
                bad("other-credential-changed", "an assertion changed a credential other than the one used".into());
            }
            match (target.counter, r) {
                (_, Err(p)) => {
                    *outcome = "assert:panic".into();
                    let at_max = target.counter == Some(u32::MAX);
                    bad(if at_max { "panic-at-max" } else { "panic" }, format!("assertion with stored counter {:?} panicked: {p}", target.counter));
                }
                (None, Ok(Ok(resp))) => {
                    *outcome = "assert:counterless:ok".into();
                    if resp.auth_data.counter.unwrap_or(0) != 0 {
                        bad("counterless-reports-nonzero", format!("credential without counter reported {:?}", resp.auth_data.counter));
                    }
                    if updates != 0 || stored_after.is_some() || before != after {
                        bad("counterless-rewritten", format!("credential without counter was rewritten ({updates} update calls)"));
                    }
                }
                (Some(c), Ok(Ok(resp))) => {
                    let reported = resp.auth_data.counter.unwrap_or(0);
                    // also what is actually on the wire
                    let wire = resp.auth_data.to_vec();
                    let wire_counter = u32::from_be_bytes(wire[33..37].try_into().unwrap());
                    if wire_counter != reported {
                        bad("wire-counter-differs", format!("auth_data.counter {reported} but encoded bytes say {wire_counter}"));
                    }
                    if c < u32::MAX {
                        *outcome = "assert:counter:ok".into();
                        if reported != c + 1 {
                            bad("not-previous-plus-one", format!("stored counter was {c}, reported {reported}"));
                        }
                        if stored_after != Some(reported) {
                            bad("reported-differs-from-stored", format!("reported {reported}, store now holds {stored_after:?}"));
                        }
                    } else {
                        *outcome = "assert:counter:at-max:ok".into();
                        if reported < c || stored_after.map_or(true, |s| s < c) {
                            bad("wrapped-at-max", format!("stored counter was u32::MAX, reported {reported}, store now holds {stored_after:?}"));
                        }
                    }
                }
                (cnt, Ok(Err(sc))) => {
                    let b: u8 = sc.into();
                    *outcome = format!("assert:err:{b:02x}");
                    if cnt.map_or(true, |c| c < u32::MAX) {
                        bad("unexpected-failure", format!("assertion with consent, known credential and counter {cnt:?} failed with 0x{b:02x}"));
                    } else if stored_after.map_or(true, |s| s < u32::MAX) {
                        bad("wrapped-at-max", format!("failed at max and store now holds {stored_after:?}"));
                    }
                }
            }
        }
        Act::Register { counter } => {
            auth.set_make_credentials_with_signature_counter(*counter);
            // the consuming builders applied AFTER the setter, in rotation with the history's length
            // (configuration order is no input of the ceremony: the counter setting must survive)
            auth = match before.len() % 3 {
                1 => auth.hmac_secret(HmacSecretConfig::new_without_uv()),
                2 => auth.transports(vec![passkey_types::webauthn::AuthenticatorTransport::Internal]),
                _ => auth,
            };
            // ask for hmac-secret so that the new credential can serve PRF requests later
            let ext = passkey_types::ctap2::make_credential::ExtensionInputs { hmac_secret: Some(true), hmac_secret_mc: None, prf: None };
            let req = mc_request(RP, &[9], None, true, true, true, false, Some(ext));
            let r = par::catch(|| block_on(auth.make_credential(req)));
            let after = store.recs_ordered();
            let mut bad = |kind: &str, d: String| fs.push(Finding::new(format!("op=register/kind={kind}"), d, case()));
            match r {
                Err(p) => {
                    *outcome = "register:panic".into();
                    bad("panic", format!("registration panicked: {p}"));
                }
                Ok(Err(sc)) => {
                    let b: u8 = sc.into();
                    *outcome = format!("register:err:{b:02x}");
                    bad("unexpected-failure", format!("plain registration failed with 0x{b:02x}"));
                }
                Ok(Ok(resp)) => {
                    *outcome = format!("register:ok:counter={counter}");
                    if let Some(a) = resp.auth_data.attested_credential_data.as_ref() {
                        store.note_created(a.credential_id().to_vec());
                    }
                    let wire = resp.auth_data.to_vec();
                    let wire_counter = u32::from_be_bytes(wire[33..37].try_into().unwrap());
                    if wire_counter != 0 || resp.auth_data.counter.unwrap_or(0) != 0 {
                        bad("nonzero-at-registration", format!("registration reported counter {:?} / wire {wire_counter}", resp.auth_data.counter));
                    }
                    if after.len() != before.len() + 1 || after[..before.len()] != before[..] {
                        bad("store-not-extended-by-one", "registration did not add exactly one record leaving the others alone".into());
                    } else {
                        let newc = after.last().unwrap().counter;
                        let want = counter.then_some(0);
                        if newc != want {
                            bad("initial-counter-wrong", format!("counters enabled={counter}: new record holds {newc:?}, expected {want:?}"));
                        }
                    }
                }
            }
        }
    }
}

impl Sys for C08 {
    type Act = Act;
    type Snap = Vec<Option<u32>>;
    fn inits(&self) -> usize {
        STARTS.len() * STARTS.len()
    }
    fn init_snap(&self, i: usize) -> Self::Snap {
        vec![STARTS[i / STARTS.len()], STARTS[i % STARTS.len()], None]
    }
    fn actions(&self, _init: usize, snap: &Self::Snap, _depth: usize) -> Vec<Act> {
        let mut v = vec![];
        for cred in 0..snap.len().min(5) {
            for ext in [false, true] {
                v.push(Act::Assert { cred, ext, silent: false, two: false });
            }
            v.push(Act::Assert { cred, ext: false, silent: true, two: false });
            v.push(Act::Assert { cred, ext: true, silent: false, two: true });
            v.push(Act::Assert { cred, ext: true, silent: true, two: false });
        }
        if snap.len() < 5 {
            v.push(Act::Register { counter: true });
            v.push(Act::Register { counter: false });
        }
        v
    }
    fn step(&self, init: usize, hist: &[Act], act: &Act, st: &mut Stats) -> Option<Self::Snap> {
        let (a, b) = (STARTS[init / STARTS.len()], STARTS[init % STARTS.len()]);
        let store = St8::new(a, b, self.memory);
        let mut sink = vec![];
        let mut o = String::new();
        for h in hist {
            apply(&store, h, &|| Value::Null, &mut sink, &mut o);
        }
        let mut fs = vec![];
        let mut outcome = String::new();
        let mk_case = || {
            let mut full = hist.to_vec();
            full.push(act.clone());
            serde_json::to_value(Case { start_a: a, start_b: b, hist: full, memory: self.memory }).unwrap()
        };
        apply(&store, act, &mk_case, &mut fs, &mut outcome);
        let snap = counters(&store);
        st.case(&(init, hist.len(), format!("{act:?}"), &snap), true, &outcome);
        st.sample(|| mk_case());
        st.findings_from(fs);
        // a panic leaves the store as it was; the history stays replayable, keep exploring
        Some(snap)
    }
    fn max_depth(&self) -> usize {
        self.depth
    }
}

/// Whatever the store says about discoverable credentials (full support, only non-discoverable,
/// forced discoverable), a credential with a counter is written back at every assertion: three
/// assertions report start+1, +2, +3 and leave each value in the store.
fn capability_one(cap: u8, start: u32) -> Vec<(String, String)> {
    let mut rs = RefStore::with(vec![seeded(&Seed { n: 1, rp: RP.into(), handle: Some(vec![1]), counter: Some(start), hmac: None })]);
    rs.cap = match cap {
        0 => Cap::Full,
        1 => Cap::OnlyNonDiscoverable,
        _ => Cap::ForcedDiscoverable,
    };
    let store = Shared::new(rs);
    let mut auth = Authenticator::new(Aaguid::new_empty(), store.clone(), ScriptedUv::consenting(Log::new()));
    let mut v = vec![];
    for k in 1..=3u32 {
        match par::catch(|| block_on(auth.get_assertion(ga_request(RP, Some(vec![cred_id(1)]), false, true, true, false, None)))) {
            Err(p) => v.push(("panic".into(), p)),
            Ok(Err(e)) => v.push(("unexpected-failure".into(), format!("assertion {k} on a store with capability {cap} failed: {e:?}"))),
            Ok(Ok(r)) => {
                let stored = store.recs().first().and_then(|r| r.counter);
                let reported = r.auth_data.counter.unwrap_or(0);
                if reported != start + k || stored != Some(start + k) {
                    v.push(("reported-differs-from-stored".into(), format!("store capability {cap}: assertion {k} from counter {start} reports {reported}, the store holds {stored:?}")));
                    break;
                }
            }
        }
    }
    v
}

pub fn run(ctx: &Ctx) -> Result<Run, String> {
    let depth = ctx.tier.pick(4, 8);
    let mut out = graph::bfs(&C08 { depth, memory: false }, ctx.threads);
    // the same exploration on the shipped in-memory store (one level less deep)
    let out_m = graph::bfs(&C08 { depth: depth - 1, memory: true }, ctx.threads);
    out.states += out_m.states;
    out.transitions += out_m.transitions;
    out.generated += out_m.generated;
    out.stats.merge(out_m.stats);
    for cap in 0..3u8 {
        for start in [0u32, 5, 255, 0xFFFF_FFF0] {
            out.stats.case(&("capability", cap, start), true, "store-capability");
            for (k, d) in capability_one(cap, start) {
                out.stats.finding(Finding::new(format!("op=assert/kind={k}"), d, json!({"capability": {"cap": cap, "start": start}})));
            }
        }
    }
    {
        let mut st = Stats::new();
        for start in [0u32, 1, 7, 0x7FFF_FFFF, 0xFFFF_FFFD, 0xFFFF_FFFE] {
            for via_registration in [false, true] {
                st.case(&(start, via_registration), true, "u2f-upgrade");
                st.findings_from(eval_u2f_upgrade(start, via_registration));
            }
        }
        out.transitions += st.evaluations;
        out.stats.merge(st);
    }
    {
        let cc = client_cases();
        let st = par::sweep_cases(&cc, ctx.threads, |c, st| {
            st.case(c, true, "client-assert");
            st.findings_from(eval_client(c));
        });
        out.transitions += st.evaluations;
        out.stats.count("client_level_ceremonies", st.evaluations);
        out.stats.merge(st);
    }
    {
        use super::inst::{self, IOp};
        let alphabet = [IOp::Get { who: 0, prf: false, silent: false }, IOp::Get { who: 0, prf: true, silent: false }, IOp::Get { who: 0, prf: false, silent: true }, IOp::Get { who: 1, prf: false, silent: false }, IOp::Get { who: 4, prf: true, silent: false }, IOp::Make { rk: true, prf: true }, IOp::Cancelled(1), IOp::TraitGet { who: 0 }, IOp::Synced(2)];
        let st = inst::sweep(&alphabet, ctx.tier.pick(3, 4), &[0, 1], ctx.threads, "instance");
        out.transitions += st.evaluations;
        out.stats.count("instance_differential_histories", st.evaluations);
        out.stats.merge(st);
    }
    let mut run = Run::from_stats(
        "model_checking",
        "three assertions on a store of each discoverability capability (full, only non-discoverable, forced) from four start counters; level-synchronous explicit-state BFS over the real get_assertion/make_credential: 81 start vectors (two credentials with each of 9 start counters incl. 0, 255, 0x010203FE, 2^31-1, 2^31, 2^32-2, 2^32-1 and none, one counter-less credential), actions assert(cred i, PRF on/off, with consent / silent: up=uv=false and nothing reported) and register(counter on/off), states deduplicated per start vector on the counter vector; run on the contract store and (one level less deep) on Arc<Mutex<MemoryStore>>; every transition is a distinct non-trivial case (a real ceremony on a rebuilt store)",
        true,
        out.stats,
    );
    run.graph(out.states, out.transitions, out.transitions);
    run.set("generated_states", json!(out.generated));
    run.set("max_depth", json!(out.max_depth));
    run.set("depth_bound", json!(depth));
    run.assume("overflow checks are on in the checked build (as in a debug build); credential ids/keys are symbolic (creation index)");
    Ok(run)
}

// ------------------------------------------------------------------------------------------
// the same invariants for ceremonies driven through the WebAuthn client (which may call the
// authenticator more than once, or not at all): one client ceremony advances the stored counter
// by at most one, and a successful one reports exactly the stored value

#[derive(Clone, Debug, Serialize, Deserialize, PartialEq, Eq, Hash)]
pub struct ClientCase {
    pub start: Option<u32>,
    /// stored PRF secrets: 0 none, 1 both, 2 only the verification-gated one
    pub secrets: u8,
    /// the user is verified (false: userVerification discouraged, presence only)
    #[serde(default = "yes")]
    pub verified: bool,
    /// in-memory store only: the stored credential's rp_id is the empty string (an imported legacy
    /// entry; that store locates credentials by id alone)
    #[serde(default)]
    pub legacy_rp: bool,
    /// authenticator with hmac-secret capability
    pub capable: bool,
    /// 0 no extension, 1 prf eval, 2 credProps only
    pub ext: u8,
    pub listed: bool,
    pub memory: bool,
}
fn yes() -> bool {
    true
}
pub fn client_cases() -> Vec<ClientCase> {
    let mut v = vec![];
    for start in STARTS {
        for secrets in 0..3u8 {
            for capable in [false, true] {
                for ext in 0..3u8 {
                    for listed in [false, true] {
                        for memory in [false, true] {
                            if memory && !listed {
                                continue; // the in-memory store answers list-less lookups with nothing (C05)
                            }
                            for verified in [true, false] {
                                v.push(ClientCase { start, secrets, capable, ext, listed, memory, verified, legacy_rp: false });
                                if memory && listed {
                                    v.push(ClientCase { start, secrets, capable, ext, listed, memory, verified, legacy_rp: true });
                                }
                            }
                        }
                    }
                }
            }
        }
    }
    v
}
pub fn eval_client(c: &ClientCase) -> Vec<Finding> {
    use passkey_types::webauthn;
    let case = json!({"client": c});
    let mut fs = vec![];
    let mut bad = |kind: &str, d: String| fs.push(Finding::new(format!("op=client-assert/kind={kind}"), d, case.clone()));
    let item = seeded(&Seed { n: 1, rp: RP.into(), handle: Some(vec![1]), counter: c.start, hmac: match c.secrets {
        0 => None,
        1 => Some(true),
        _ => Some(false),
    } });
    let mut item = item;
    if c.legacy_rp {
        item.rp_id = String::new();
    }
    let log = Log::new();
    let cfg = super::common::AuthCfg { counter: true, id_len: None, hmac: if c.capable { 2 } else { 0 }, hmac_mc: false, order: 0 };
    let ext = match c.ext {
        0 => None,
        1 => Some(webauthn::AuthenticationExtensionsClientInputs { cred_props: None, prf: Some(webauthn::AuthenticationExtensionsPrfInputs { eval: Some(webauthn::AuthenticationExtensionsPrfValues { first: vec![1, 2, 3].into(), second: None }), eval_by_credential: None }), prf_already_hashed: None }),
        _ => Some(webauthn::AuthenticationExtensionsClientInputs { cred_props: Some(true), prf: None, prf_already_hashed: None }),
    };
    let opts = request_options(Auth { allow: c.listed.then(|| vec![cred_id(1)]), extensions: ext, uv: if c.verified { Default::default() } else { webauthn::UserVerificationRequirement::Discouraged }, ..Default::default() });
    let uvm = if c.verified { ScriptedUv::consenting(log.clone()) } else { ScriptedUv::consenting(log.clone()).outcome(UvOutcome::Ok { presence: true, verification: false }) };
    let origin = url::Url::parse("https://example.com").unwrap();
    macro_rules! go {
        ($store:expr, $recs:expr) => {{
            let mut client = passkey_client::Client::new(super::common::mk_auth(Logging { inner: $store, log: log.clone() }, uvm.clone(), &cfg));
            let r = par::catch(|| block_on(client.authenticate(&origin, opts, passkey_client::DefaultClientData)));
            let recs: Vec<Rec> = $recs;
            (r, recs)
        }};
    }
    let (r, after) = if c.memory {
        let m: passkey_authenticator::MemoryStore = [(item.credential_id.to_vec(), item.clone())].into_iter().collect();
        let s = std::sync::Arc::new(tokio::sync::Mutex::new(m));
        go!(s.clone(), s.recs())
    } else {
        let s = Shared::new(RefStore::with(vec![item.clone()]));
        go!(s.clone(), s.recs())
    };
    let stored = after.first().and_then(|r| r.counter);
    let updates = log.snapshot().iter().filter(|e| matches!(e, Event::Update { result: Ok(()), .. })).count();
    let next = c.start.map(|n| n.saturating_add(1));
    match r {
        Err(p) => bad("panic", p),
        Ok(res) => {
            if updates > 1 {
                bad("counter-written-more-than-once", format!("one client ceremony made {updates} accepted counter write-backs (stored {:?} → {stored:?})", c.start));
            }
            if c.start.is_none() && updates != 0 && res.is_err() {
                bad("counterless-rewritten", format!("a credential without a counter was written back by a failed assertion ({updates} update calls)"));
            }
            if stored != c.start && stored != next {
                bad("advanced-by-more-than-one", format!("one client ceremony took the stored counter from {:?} to {stored:?}", c.start));
            }
            if let Ok(cred) = res {
                let ad = cred.response.authenticator_data.to_vec();
                let reported = ad.get(33..37).map(|b| u32::from_be_bytes([b[0], b[1], b[2], b[3]])).unwrap_or(0);
                match c.start {
                    None => {
                        if updates != 0 {
                            bad("counterless-rewritten", format!("a credential without a counter was written back by an assertion ({updates} update calls)"));
                        }
                        if reported != 0 || stored.is_some() {
                            bad("counterless-rewritten", format!("counter-less credential: reported {reported}, store now {stored:?}"));
                        }
                    }
                    Some(n) => {
                        if Some(reported) != next || stored != next {
                            bad("not-previous-plus-one", format!("stored counter was {n}, the client ceremony reports {reported}, store now holds {stored:?}"));
                        }
                    }
                }
            }
        }
    }
    fs
}

// ------------------------------------------------------------------------------------------
// credentials that enter the store through the public U2F constructors of `Passkey`
// (wrap_u2f_registration_request: counter 0; from_u2f_auth_request: the counter the caller supplies)
// and are then used for CTAP2 assertions: previous + 1, reported = stored

pub fn eval_u2f_upgrade(start: u32, via_registration: bool) -> Vec<Finding> {
    use passkey_types::u2f::{AuthenticationParameter, AuthenticationRequest, RegisterRequest};
    let case = json!({"u2f_upgrade": {"start": start, "via_registration": via_registration}});
    let mut fs = vec![];
    let mut bad = |kind: &str, d: String| fs.push(Finding::new(format!("op=u2f-upgrade/kind={kind}"), d, case.clone()));
    let r = par::catch(|| {
        let app = [0x21u8; 32];
        let handle = vec![0x44u8; 16];
        let key = cose_private_from_scalar(&fixed_scalar(5));
        let pk = if via_registration {
            let resp = passkey_types::u2f::RegisterResponse { public_key: passkey_types::u2f::PublicKey { x: [1; 32], y: [2; 32] }, key_handle: handle.clone(), attestation_certificate: vec![], signature: vec![] };
            passkey_types::Passkey::wrap_u2f_registration_request(&RegisterRequest { challenge: [1; 32], application: app }, &resp, &handle, &key).0
        } else {
            passkey_types::Passkey::from_u2f_auth_request(&AuthenticationRequest { parameter: AuthenticationParameter::EnforceUserPresence, challenge: [1; 32], application: app, key_handle: handle.clone() }, start, &key)
        };
        let want_start = if via_registration { 0 } else { start };
        let rp = pk.rp_id.clone();
        let stored0 = pk.counter;
        let store = Shared::new(RefStore::with(vec![pk]));
        let mut auth = Authenticator::new(Aaguid::new_empty(), store.clone(), ScriptedUv::consenting(Log::new()));
        let mut reported = vec![];
        for _ in 0..2 {
            let req = ga_request(&rp, Some(vec![handle.clone()]), false, true, true, false, None);
            reported.push(block_on(auth.get_assertion(req)).map(|r| r.auth_data.counter.unwrap_or(0)).map_err(sc_byte));
        }
        (want_start, stored0, reported, store.recs().first().and_then(|r| r.counter))
    });
    match r {
        Err(p) => bad("panic", p),
        Ok((want_start, stored0, reported, stored)) => {
            if stored0 != Some(want_start) {
                bad("constructor-counter", format!("the constructed credential holds counter {stored0:?}, expected {want_start}"));
            }
            let n1 = want_start.saturating_add(1);
            let n2 = want_start.saturating_add(2);
            if reported != vec![Ok(n1), Ok(n2)] {
                bad("not-previous-plus-one", format!("two CTAP2 assertions with a credential taken over from U2F at counter {want_start} report {reported:?}, expected {n1} then {n2}"));
            }
            if stored != Some(n2) {
                bad("reported-differs-from-stored", format!("store holds {stored:?} after assertions reporting up to {n2}"));
            }
        }
    }
    fs
}

pub fn replay(_ctx: &Ctx, case: &Value) -> Result<Vec<Finding>, String> {
    if let Some(c) = case.get("capability") {
        return Ok(capability_one(c["cap"].as_u64().unwrap_or(0) as u8, c["start"].as_u64().unwrap_or(0) as u32).into_iter().map(|(k, d)| Finding::new(format!("op=assert/kind={k}"), d, case.clone())).collect());
    }
    if let Some(c) = case.get("u2f_upgrade") {
        return Ok(eval_u2f_upgrade(c["start"].as_u64().unwrap_or(0) as u32, c["via_registration"].as_bool().unwrap_or(false)));
    }
    if let Some(c) = case.get("client") {
        let c: ClientCase = serde_json::from_value(c.clone()).map_err(|e| format!("bad C08 client case: {e}"))?;
        return Ok(eval_client(&c));
    }
    if let Some(fs) = super::inst::replay(case, "instance") {
        return Ok(fs);
    }
    let c: Case = serde_json::from_value(case.clone()).map_err(|e| format!("bad C08 case: {e}"))?;
    let store = St8::new(c.start_a, c.start_b, c.memory);
    let mut fs = vec![];
    let mut o = String::new();
    let n = c.hist.len();
    for (i, h) in c.hist.iter().enumerate() {
        let mut step_fs = vec![];
        apply(&store, h, &|| case.clone(), &mut step_fs, &mut o);
        if i + 1 == n {
            fs = step_fs;
        }
    }
    Ok(fs)
}
