//! C04 – no credential is created or used without user consent; flags are truthful.
//! Complete enumeration of the finite configuration product (states = configurations).
use crate::core::exec::block_on;
use crate::core::par;
use crate::core::report::*;
use crate::drivers::*;
use passkey_authenticator::{Authenticator, CredentialStore};
use passkey_client::{Client, DefaultClientData};
use passkey_types::ctap2::{Aaguid, Flags};
use passkey_types::webauthn;
use passkey_types::Passkey;
use serde::{Deserialize, Serialize};
use serde_json::{json, Value};
use std::sync::Arc;

#[derive(Clone, Copy, Debug, Serialize, Deserialize, PartialEq, Eq, Hash)]
pub enum Op {
    Make,
    Get,
}
#[derive(Clone, Copy, Debug, Serialize, Deserialize, PartialEq, Eq, Hash)]
pub enum Content {
    /// nothing relevant in the store, no list
    NoMatch,
    /// matching credential, named by the allow / exclude list
    MatchViaList,
    /// matching credential, no list in the request
    MatchNoList,
    /// only a credential of another RP; the list names it
    OtherRpOnly,
    /// two matching credentials, both named by the list
    TwoViaList,
    /// two matching credentials, no list
    TwoNoList,
    /// matching credential named by a list of 40 entries in which it is the 17th (16 unknown ids
    /// before it, 23 after): lists longer than any batch size a lookup might use
    MatchViaLongList,
    /// two matching credentials named by a list of 300 entries, one among its first 128 entries and
    /// one beyond the 128th: lists longer than a lookup page
    TwoViaVeryLongList,
}
pub const CONTENTS: [Content; 8] = [Content::NoMatch, Content::MatchViaList, Content::MatchNoList, Content::OtherRpOnly, Content::TwoViaList, Content::TwoNoList, Content::MatchViaLongList, Content::TwoViaVeryLongList];

#[derive(Clone, Debug, Serialize, Deserialize, PartialEq, Eq, Hash)]
pub struct Case {
    pub op: Op,
    pub rk: bool,
    pub up: bool,
    pub uv: bool,
    /// 0 = None, 1 = Some(false), 2 = Some(true)
    pub cap: u8,
    pub presence_cap: bool,
    /// 0..3 = Ok(presence = bit1, verification = bit0); 4,5,6 = Err(0x27, 0x2F, 0x30)
    pub outcome: u8,
    pub pin: bool,
    pub arc_mutex: bool,
    pub level: u8, // 0 = CTAP2, 1 = client
    /// client level only: 0 absent, 1 required, 2 preferred, 3 discouraged
    pub uvreq: u8,
    /// CTAP2 level: authenticator with hmac-secret, seeded credentials carry both secrets, and the
    /// request asks for hmac-secret / a PRF evaluation.  0 no; 1 secrets without UV, evaluation at
    /// creation; 2 UV-only secrets, evaluation at creation; 3 UV-only secrets; 4 secrets without UV
    #[serde(default)]
    pub ext: u8,
    /// CTAP2 level: how the request reaches the authenticator: 0 as a struct; 1 encoded and decoded;
    /// 2 encoded, options with their default value elided, decoded; 3 as 2 and an empty options
    /// map dropped
    #[serde(default)]
    pub wire: u8,
    /// CTAP2 level: while the user prompt is pending, the store's listing order is reversed (what
    /// a later lookup lists first changes; the content does not)
    #[serde(default)]
    pub flip: bool,
    /// CTAP2 level, requests without pin-auth: 1 = pinUvAuthProtocol is present although no
    /// pinUvAuthParam is (a member without meaning on its own: the request is an ordinary one)
    #[serde(default)]
    pub protocol_only: bool,
}

fn cap_of(c: u8) -> Option<bool> {
    match c {
        0 => None,
        1 => Some(false),
        _ => Some(true),
    }
}
fn outcome_of(o: u8) -> UvOutcome {
    match o {
        0..=3 => UvOutcome::Ok { presence: o & 2 != 0, verification: o & 1 != 0 },
        4 => UvOutcome::Err(0x27),
        5 => UvOutcome::Err(0x2F),
        6 => UvOutcome::Err(0x30),
        // verification locked out (blocked / invalid / denied / timed out): only the question that
        // asks for verification fails
        7 => UvOutcome::Lockout(0x3C),
        8 => UvOutcome::Lockout(0x3F),
        9 => UvOutcome::Lockout(0x27),
        10 => UvOutcome::Lockout(0x2F),
        // every other status byte as the user step's error (the byte is the outcome number)
        b => UvOutcome::Err(b),
    }
}
/// what the scripted user step answers to the question (up, uv) under this outcome
fn answer_of(o: u8, asked_uv: bool) -> UvOutcome {
    match outcome_of(o) {
        UvOutcome::Lockout(b) if asked_uv => UvOutcome::Err(b),
        UvOutcome::Lockout(_) => UvOutcome::Ok { presence: true, verification: false },
        x => x,
    }
}

pub fn cases() -> Vec<Case> {
    let mut v = vec![];
    for op in [Op::Make, Op::Get] {
        for bits in 0..8u8 {
            for cap in 0..3u8 {
                for presence_cap in [true, false] {
                    for outcome in 0..7u8 {
                        for pin in [false, true] {
                            for arc_mutex in [false, true] {
                                for ext in 0..5u8 {
                                    if ext >= 2 && pin {
                                        continue;
                                    }
                                    for wire in 0..4u8 {
                                        // the wire shapes are spread over the store kinds
                                        if wire != 0 && (arc_mutex != (wire % 2 == 0) || ext >= 2) {
                                            continue;
                                        }
                                        v.push(Case { op, rk: bits & 4 != 0, up: bits & 2 != 0, uv: bits & 1 != 0, cap, presence_cap, outcome, pin, arc_mutex, level: 0, uvreq: 0, ext, wire, flip: false, protocol_only: false });
                                        if wire == 0 && !pin && ext == 0 {
                                            v.push(Case { op, rk: bits & 4 != 0, up: bits & 2 != 0, uv: bits & 1 != 0, cap, presence_cap, outcome, pin, arc_mutex, level: 0, uvreq: 0, ext, wire, flip: false, protocol_only: true });
                                        }
                                        if wire == 0 && !pin {
                                            v.push(Case { op, rk: bits & 4 != 0, up: bits & 2 != 0, uv: bits & 1 != 0, cap, presence_cap, outcome, pin, arc_mutex, level: 0, uvreq: 0, ext, wire, flip: true, protocol_only: false });
                                        }
                                    }
                                }
                            }
                        }
                    }
                }
            }
        }
        // the user step fails with every status byte there is: whatever the code, a ceremony whose
        // validation step failed ends in an error - also when nothing was asked of the user
        for bits in 0..4u8 {
            for outcome in 11..=255u8 {
                if outcome == UV_PANICS {
                    continue;
                }
                v.push(Case { op, rk: false, up: bits & 2 != 0, uv: bits & 1 != 0, cap: 2, presence_cap: true, outcome, pin: false, arc_mutex: outcome % 2 == 0, level: 0, uvreq: 0, ext: 0, wire: 0, flip: false, protocol_only: false });
            }
        }
        for uvreq in 0..4u8 {
            for cap in 0..3u8 {
                for outcome in 0..11u8 {
                    v.push(Case { op, rk: false, up: true, uv: false, cap, presence_cap: true, outcome, pin: false, arc_mutex: false, level: 1, uvreq, ext: 0, wire: 0, flip: false, protocol_only: false });
                }
            }
        }
    }
    v
}

const RP: &str = "example.com";
const OTHER: &str = "other.org";

fn store_for(op: Op, content: Content) -> (RefStore, Option<Vec<Vec<u8>>>) {
    store_for_ext(op, content, false)
}
/// 300 ids: credential 1 is the 6th entry, credential 3 (which the store lists first) the 201st, the rest unknown
pub fn very_long_list() -> Vec<Vec<u8>> {
    (0..300u16).map(|i| match i { 5 => cred_id(1), 200 => cred_id(3), _ => [vec![0xD1, (i >> 8) as u8, i as u8], vec![0x66; 13]].concat() }).collect()
}
fn store_for_ext(op: Op, content: Content, ext: bool) -> (RefStore, Option<Vec<Vec<u8>>>) {
    let hmac = ext.then_some(true);
    let own = seeded(&Seed { n: 1, rp: RP.into(), handle: Some(vec![1, 2, 3]), counter: Some(5), hmac });
    let other = seeded(&Seed { n: 2, rp: OTHER.into(), handle: Some(vec![1, 2, 3]), counter: Some(5), hmac });
    let _ = op;
    let own2 = seeded(&Seed { n: 3, rp: RP.into(), handle: Some(vec![4, 5]), counter: Some(9), hmac });
    match content {
        Content::TwoViaList => (RefStore::with(vec![own.clone(), other.clone(), own2.clone()]), Some(vec![cred_id(1), cred_id(3)])),
        Content::TwoNoList => (RefStore::with(vec![own.clone(), other.clone(), own2.clone()]), None),
        Content::NoMatch => (RefStore::with(vec![]), None),
        Content::MatchViaList => (RefStore::with(vec![other, own]), Some(vec![cred_id(1)])),
        Content::TwoViaVeryLongList => (RefStore::with(vec![own.clone(), other.clone(), own2.clone()]), Some(very_long_list())),
        Content::MatchViaLongList => {
            let unknown = |k: u8| -> Vec<u8> { [vec![0xD0, k], vec![0x77; 14]].concat() };
            let list: Vec<Vec<u8>> = (0..16u8).map(unknown).chain([cred_id(1)]).chain((16..39u8).map(unknown)).collect();
            (RefStore::with(vec![other, own]), Some(list))
        }
        Content::MatchNoList => (RefStore::with(vec![other, own]), None),
        Content::OtherRpOnly => (RefStore::with(vec![other]), Some(vec![cred_id(2)])),
    }
}

#[derive(Debug, Clone)]
struct Obs {
    /// Ok(flags byte, credential id) or Err(status byte)
    result: Result<(u8, Vec<u8>), u8>,
    before: Vec<Rec>,
    after: Vec<Rec>,
    log: Vec<Event>,
}

fn run_ctap<S>(c: &Case, store: S, list: Option<Vec<Vec<u8>>>, log: Log, hook: Option<Arc<dyn Fn() + Send + Sync>>) -> Result<(u8, Vec<u8>), u8>
where
    S: CredentialStore<PasskeyItem = Passkey> + Send + Sync,
{
    let uv = ScriptedUv { verification_cap: cap_of(c.cap), presence_cap: c.presence_cap, outcome: outcome_of(c.outcome), yields: 0, log };
    let mut auth = Authenticator::new(Aaguid::new_empty(), store, HookUv { inner: uv, hook });
    {
        use passkey_authenticator::extensions::HmacSecretConfig;
        match c.ext {
            0 => {}
            1 => auth = auth.hmac_secret(HmacSecretConfig::new_without_uv().enable_on_make_credential()),
            2 => auth = auth.hmac_secret(HmacSecretConfig::new_with_uv_only().enable_on_make_credential()),
            3 => auth = auth.hmac_secret(HmacSecretConfig::new_with_uv_only()),
            _ => auth = auth.hmac_secret(HmacSecretConfig::new_without_uv()),
        }
    }
    auth.set_make_credentials_with_signature_counter(true);
    use passkey_types::ctap2::extensions::{AuthenticatorPrfInputs, AuthenticatorPrfValues};
    let prf = || AuthenticatorPrfInputs { eval: Some(AuthenticatorPrfValues { first: [3; 32], second: None }), eval_by_credential: None };
    let result = match c.op {
        Op::Make => {
            let ext = (c.ext != 0).then(|| passkey_types::ctap2::make_credential::ExtensionInputs { hmac_secret: Some(true), hmac_secret_mc: None, prf: Some(prf()) });
            let mut req = mc_request(RP, &[9, 9], list, c.rk, c.up, c.uv, c.pin, ext);
            if c.protocol_only {
                req.pin_protocol = Some(1);
            }
            if c.wire != 0 {
                req = rewire(&req, 7, c.wire).unwrap_or_else(|e| panic!("{e}"));
            }
            block_on(auth.make_credential(req)).map(|r| {
                let fl: u8 = r.auth_data.flags.into();
                (fl, r.auth_data.attested_credential_data.as_ref().map(|a| a.credential_id().to_vec()).unwrap_or_default())
            })
        }
        Op::Get => {
            let ext = (c.ext != 0).then(|| passkey_types::ctap2::get_assertion::ExtensionInputs { hmac_secret: None, prf: Some(prf()) });
            let mut req = ga_request(RP, list, c.rk, c.up, c.uv, c.pin, ext);
            if c.protocol_only {
                req.pin_protocol = Some(1);
            }
            if c.wire != 0 {
                req = rewire(&req, 5, c.wire).unwrap_or_else(|e| panic!("{e}"));
            }
            block_on(auth.get_assertion(req)).map(|r| {
                let fl: u8 = r.auth_data.flags.into();
                (fl, r.credential.map(|d| d.id.to_vec()).unwrap_or_default())
            })
        }
    };
    result.map_err(sc_byte)
}

fn observe(c: &Case, content: Content) -> Obs {
    let (mut store, list) = store_for_ext(c.op, content, c.ext != 0);
    // half of the configurations run on a store that reports "nothing found" as Ok(empty list)
    store.empty_ok = !c.presence_cap;
    let before = store.recs();
    let log = Log::new();
    if c.level == 1 {
        return observe_client(c, store, list, log, before);
    }
    if c.arc_mutex {
        let shared = Arc::new(tokio::sync::Mutex::new(Logging { inner: store, log: log.clone() }));
        let s2 = shared.clone();
        let hook: Option<Arc<dyn Fn() + Send + Sync>> = c.flip.then(|| {
            Arc::new(move || {
                if let Ok(mut g) = s2.try_lock() {
                    g.inner.newest_first ^= true;
                }
            }) as Arc<dyn Fn() + Send + Sync>
        });
        let result = run_ctap(c, shared.clone(), list, log.clone(), hook);
        let after = shared.recs();
        Obs { result, before, after, log: log.take() }
    } else {
        let shared = Shared::new(store);
        let s2 = shared.clone();
        let hook: Option<Arc<dyn Fn() + Send + Sync>> = c.flip.then(|| Arc::new(move || s2.0.lock().unwrap().newest_first ^= true) as Arc<dyn Fn() + Send + Sync>);
        let result = run_ctap(c, Logging { inner: shared.clone(), log: log.clone() }, list, log.clone(), hook);
        let after = shared.recs();
        Obs { result, before, after, log: log.take() }
    }
}

fn uv_requirement(n: u8) -> webauthn::UserVerificationRequirement {
    match n {
        1 => webauthn::UserVerificationRequirement::Required,
        3 => webauthn::UserVerificationRequirement::Discouraged,
        _ => webauthn::UserVerificationRequirement::Preferred,
    }
}

fn observe_client(c: &Case, store: RefStore, list: Option<Vec<Vec<u8>>>, log: Log, before: Vec<Rec>) -> Obs {
    let shared = Shared::new(store);
    let uv = ScriptedUv { verification_cap: cap_of(c.cap), presence_cap: true, outcome: outcome_of(c.outcome), yields: 0, log: log.clone() };
    let mut auth = Authenticator::new(Aaguid::new_empty(), Logging { inner: shared.clone(), log: log.clone() }, uv);
    auth.set_make_credentials_with_signature_counter(true);
    let mut client = Client::new(auth);
    let origin = url::Url::parse("https://example.com").unwrap();
    let result: Result<(u8, Vec<u8>), u8> = match c.op {
        Op::Make => {
            let opts = webauthn::CredentialCreationOptions {
                public_key: webauthn::PublicKeyCredentialCreationOptions {
                    rp: webauthn::PublicKeyCredentialRpEntity { id: None, name: "x".into() },
                    user: webauthn::PublicKeyCredentialUserEntity { id: vec![9, 9].into(), name: "u".into(), display_name: "U".into() },
                    challenge: vec![1, 2, 3, 4].into(),
                    pub_key_cred_params: vec![es256_param()],
                    timeout: ambient_timeout(),
                    exclude_credentials: list.map(|l| l.iter().map(|i| descriptor(i)).collect()),
                    authenticator_selection: (c.uvreq != 0).then(|| webauthn::AuthenticatorSelectionCriteria {
                        authenticator_attachment: None,
                        resident_key: None,
                        require_resident_key: false,
                        user_verification: uv_requirement(c.uvreq),
                    }),
                    hints: ambient_hints(),
                    attestation: Default::default(),
                    attestation_formats: None,
                    extensions: None,
                },
            };
            match block_on(client.register(&origin, opts, DefaultClientData)) {
                Ok(cred) => {
                    let ad = &cred.response.authenticator_data;
                    Ok((ad.get(32).copied().unwrap_or(0), cred.raw_id.to_vec()))
                }
                Err(passkey_client::WebauthnError::AuthenticatorError(b)) => Err(b),
                Err(passkey_client::WebauthnError::CredentialNotFound) => Err(0x2E),
                Err(_) => Err(0xFF),
            }
        }
        Op::Get => {
            let opts = webauthn::CredentialRequestOptions {
                public_key: webauthn::PublicKeyCredentialRequestOptions {
                    challenge: vec![1, 2, 3, 4].into(),
                    timeout: ambient_timeout(),
                    rp_id: None,
                    allow_credentials: list.map(|l| l.iter().map(|i| descriptor(i)).collect()),
                    user_verification: uv_requirement(c.uvreq),
                    hints: ambient_hints(),
                    attestation: Default::default(),
                    attestation_formats: None,
                    extensions: None,
                },
            };
            match block_on(client.authenticate(&origin, opts, DefaultClientData)) {
                Ok(cred) => {
                    let ad = &cred.response.authenticator_data;
                    Ok((ad.get(32).copied().unwrap_or(0), cred.raw_id.to_vec()))
                }
                Err(passkey_client::WebauthnError::AuthenticatorError(b)) => Err(b),
                Err(passkey_client::WebauthnError::CredentialNotFound) => Err(0x2E),
                Err(_) => Err(0xFF),
            }
        }
    };
    drop(client);
    let after = shared.recs();
    Obs { result, before, after, log: log.take() }
}

/// The reference consent rule (what must have been reported for the operation to be allowed).
fn consent_ok(c: &Case, asked_up: bool, asked_uv: bool) -> bool {
    let (p, v) = match answer_of(c.outcome, asked_uv) {
        UvOutcome::Ok { presence, verification } => (presence, verification),
        _ => return false,
    };
    if c.op == Op::Make && !asked_up {
        return false;
    }
    if asked_uv && cap_of(c.cap) != Some(true) {
        return false;
    }
    (!asked_up || p) && (!asked_uv || v)
}

pub fn eval(c: &Case) -> (Vec<Finding>, Vec<String>) {
    let mut fs = vec![];
    let mut outcomes = vec![];
    let case_json = serde_json::to_value(c).unwrap();
    let mut bytes_when_missing: Vec<(Content, Result<(), u8>)> = vec![];
    for content in CONTENTS {
        let o = match par::catch(|| observe(c, content)) {
            Ok(o) => o,
            Err(p) => {
                fs.push(Finding::new(format!("panic/op={:?}/site={}", c.op, par::panic_site(&p)), format!("ceremony panicked: {p} content={content:?}"), case_json.clone()));
                continue;
            }
        };
        // what was asked of the user step (client level: derived from what the scripted method saw)
        let asked: Option<(bool, bool)> = o.log.iter().find_map(|e| match e {
            Event::CheckUser { up, uv, .. } => Some((*up, *uv)),
            _ => None,
        });
        let (asked_up, asked_uv) = if c.level == 0 { (c.up, c.uv) } else { asked.unwrap_or((true, c.uvreq != 3)) };
        let ok = consent_ok(c, asked_up, asked_uv);
        let reported = match answer_of(c.outcome, asked_uv) {
            UvOutcome::Ok { presence, verification } => Some((presence, verification)),
            _ => None,
        };
        let mutated = o.log.iter().position(|e| matches!(e, Event::Save { .. } | Event::Update { .. }));
        let checked = o.log.iter().position(|e| matches!(e, Event::CheckUser { .. }));
        let tag = format!("level={}/op={:?}", c.level, c.op);
        let mut bad = |kind: &str, detail: String| fs.push(Finding::new(format!("{tag}/kind={kind}"), format!("{detail}; content={content:?} result={:?}", o.result), case_json.clone()));
        match &o.result {
            Ok((flags, id)) => {
                outcomes.push(format!("{:?}:ok:flags={:02x}", c.op, flags & 0x05));
                if !ok {
                    bad("success-without-consent", format!("succeeded although required consent was not given (asked up={asked_up} uv={asked_uv}, cap={:?}, reported={reported:?})", cap_of(c.cap)));
                }
                let fl = Flags::from_bits_truncate(*flags);
                if let Some((p, v)) = reported {
                    if fl.contains(Flags::UP) != p {
                        bad("up-flag-untruthful", format!("UP bit {} but presence reported {p}", fl.contains(Flags::UP)));
                    }
                    if fl.contains(Flags::UV) != v {
                        bad("uv-flag-untruthful", format!("UV bit {} but verification reported {v}", fl.contains(Flags::UV)));
                    }
                }
                match (checked, mutated) {
                    (None, _) => bad("no-user-check", "succeeded without calling the user-validation step".into()),
                    (Some(ci), Some(mi)) if mi < ci => bad("store-written-before-consent", format!("store call #{mi} precedes check_user #{ci}")),
                    _ => {}
                }
                if c.level == 1 && c.uvreq == 1 && !fl.contains(Flags::UV) {
                    bad("required-uv-not-flagged", "userVerification=required succeeded without the UV bit".into());
                }
                if c.op == Op::Get {
                    let shown = o.log.iter().find_map(|e| match e {
                        Event::CheckUser { cred, .. } => Some(cred.clone()),
                        _ => None,
                    });
                    if shown != Some(Some(id.clone())) {
                        bad("shown-credential-differs", format!("credential shown to the user {:?} is not the one that signed {}", shown.map(|s| s.map(|x| hex(&x))), hex(id)));
                    }
                    if !o.before.iter().any(|r| r.id == *id && r.rp == RP) {
                        bad("signed-with-unknown-credential", "assertion names a credential that is not stored for the RP".into());
                    }
                } else {
                    let saves = o.log.iter().filter(|e| matches!(e, Event::Save { result: Ok(()), .. })).count();
                    if saves != 1 || o.after.len() != o.before.len() + 1 {
                        bad("creation-not-stored-once", format!("successful creation made {saves} successful save calls, store {}→{}", o.before.len(), o.after.len()));
                    }
                }
            }
            Err(b) => {
                outcomes.push(format!("{:?}:err:{b:02x}", c.op));
                if !ok {
                    bytes_when_missing.push((content, Err(*b)));
                    if o.after != o.before {
                        bad("store-changed-without-consent", format!("store changed although consent was missing: before={:?} after={:?}", o.before, o.after));
                    }
                    if mutated.is_some() {
                        bad("store-write-attempt-without-consent", "save/update was called although consent was missing".into());
                    }
                } else {
                    // consent was given: an error must have another reason the reference knows
                    let expected_err = c.pin
                        || (c.op == Op::Get && c.rk)
                        || (c.op == Op::Get && matches!(content, Content::NoMatch | Content::OtherRpOnly))
                        || (c.op == Op::Make && matches!(content, Content::MatchViaList | Content::TwoViaList | Content::MatchViaLongList | Content::TwoViaVeryLongList))
                        // UV-only secrets evaluated at creation: without a verified user there is no
                        // secret the evaluation may use (UserVerificationBlocked, C09's subject)
                        || (c.op == Op::Make && c.ext == 2 && !(asked_uv && reported.map_or(false, |(_, v)| v)));
                    if !expected_err {
                        bad("failure-despite-consent", "all required consent was given and nothing else is wrong, yet the ceremony failed".into());
                    }
                }
            }
        }
        if !ok {
            if let Ok(_) = o.result {
                bytes_when_missing.push((content, Ok(())));
            }
        }
    }
    // "While consent is missing the outcome is the same whether or not a matching credential exists"
    if let Some((c0, r0)) = bytes_when_missing.first().cloned() {
        for (ci, ri) in &bytes_when_missing[1..] {
            if *ri != r0 {
                fs.push(Finding::new(
                    format!("level={}/op={:?}/kind=outcome-reveals-credential", c.level, c.op),
                    format!("consent missing, yet outcome differs with store content: {c0:?} → {r0:?} vs {ci:?} → {ri:?}"),
                    case_json.clone(),
                ));
                break;
            }
        }
    }
    (fs, outcomes)
}

// ------------------------------------------------------------------------------------------
// histories: two ceremonies on ONE authenticator whose user-validation outcome changes between
// them – consent given (or refused) earlier must not carry over

#[derive(Clone, Debug, Serialize, Deserialize, PartialEq, Eq, Hash)]
pub struct Pair {
    pub first: (Op, bool, u8),
    pub second: (Op, bool, u8),
    /// verification capability (0 None, 1 Some(false), 2 Some(true)) the user-validation method
    /// reports during the first and during the second ceremony
    #[serde(default = "caps_default")]
    pub caps: (u8, u8),
}
fn caps_default() -> (u8, u8) {
    (2, 2)
}

/// user validation whose outcome is scripted per call
#[derive(Clone)]
struct SeqUv {
    outcomes: Arc<std::sync::Mutex<Vec<UvOutcome>>>,
    log: Log,
    /// what is_verification_enabled answers right now (changed by the harness between ceremonies)
    cap: Arc<std::sync::Mutex<Option<bool>>>,
}
#[async_trait::async_trait]
impl passkey_authenticator::UserValidationMethod for SeqUv {
    type PasskeyItem = Passkey;
    async fn check_user<'a>(&self, credential: Option<&'a Passkey>, presence: bool, verification: bool) -> Result<passkey_authenticator::UserCheck, passkey_types::ctap2::Ctap2Error> {
        let o = self.outcomes.lock().unwrap().remove(0);
        let (r, logged) = match o {
            UvOutcome::Ok { presence: p, verification: v } => (Ok(passkey_authenticator::UserCheck { presence: p, verification: v }), Ok((p, v))),
            UvOutcome::Lockout(_) if !verification => (Ok(passkey_authenticator::UserCheck { presence: true, verification: false }), Ok((true, false))),
            UvOutcome::Err(b) | UvOutcome::Lockout(b) => (Err(passkey_types::ctap2::Ctap2Error::try_from(b).unwrap_or(passkey_types::ctap2::Ctap2Error::OperationDenied)), Err(b)),
        };
        self.log.push(Event::CheckUser { cred: credential.map(|c| c.credential_id.to_vec()), up: presence, uv: verification, result: logged });
        r
    }
    fn is_presence_enabled(&self) -> bool {
        true
    }
    fn is_verification_enabled(&self) -> Option<bool> {
        *self.cap.lock().unwrap()
    }
}

pub fn pairs() -> Vec<Pair> {
    let mut singles = vec![];
    for op in [Op::Make, Op::Get] {
        for uv in [false, true] {
            for outcome in 0..7u8 {
                singles.push((op, uv, outcome));
            }
        }
    }
    let mut v = vec![];
    for a in &singles {
        for b in &singles {
            for caps in [(2u8, 2u8), (2, 0), (2, 1), (0, 2), (1, 2)] {
                v.push(Pair { first: *a, second: *b, caps });
            }
        }
    }
    v
}

pub fn eval_pair(p: &Pair) -> (Vec<Finding>, String) {
    let case = json!({"pair": p});
    let mut fs = vec![];
    let (store, _) = store_for(Op::Get, Content::MatchNoList);
    let shared = Shared::new(store);
    let log = Log::new();
    let outcomes = Arc::new(std::sync::Mutex::new(vec![outcome_of(p.first.2), outcome_of(p.second.2), outcome_of(0)]));
    let cap = Arc::new(std::sync::Mutex::new(cap_of(p.caps.0)));
    let uv = SeqUv { outcomes: outcomes.clone(), log: log.clone(), cap: cap.clone() };
    let mut auth = Authenticator::new(Aaguid::new_empty(), Logging { inner: shared.clone(), log: log.clone() }, uv);
    auth.set_make_credentials_with_signature_counter(true);
    let mut class = String::new();
    for (k, (op, uvreq, outcome)) in [p.first, p.second].into_iter().enumerate() {
        let before = shared.recs();
        let _ = log.take();
        let cap_now = if k == 0 { p.caps.0 } else { p.caps.1 };
        *cap.lock().unwrap() = cap_of(cap_now);
        // this ceremony's scripted answer (an earlier ceremony may have been refused before its
        // user step and left its own answer unused)
        *outcomes.lock().unwrap() = vec![outcome_of(outcome), outcome_of(0)];
        let r = par::catch(|| match op {
            Op::Make => block_on(auth.make_credential(mc_request(RP, &[9, k as u8], None, false, true, uvreq, false, None))).map(|r| u8::from(r.auth_data.flags)).map_err(sc_byte),
            Op::Get => block_on(auth.get_assertion(ga_request(RP, None, false, true, uvreq, false, None))).map(|r| u8::from(r.auth_data.flags)).map_err(sc_byte),
        });
        let after = shared.recs();
        let c = Case { op, rk: false, up: true, uv: uvreq, cap: cap_now, presence_cap: true, outcome, pin: false, arc_mutex: false, level: 0, uvreq: 0, ext: 0, wire: 0, flip: false, protocol_only: false };
        let ok = consent_ok(&c, true, uvreq);
        let checked = log.snapshot().iter().any(|e| matches!(e, Event::CheckUser { .. }));
        match r {
            Err(pn) => fs.push(Finding::new(format!("history/op={op:?}/kind=panic"), pn, case.clone())),
            Ok(Ok(flags)) => {
                class.push('S');
                if !ok {
                    fs.push(Finding::new(format!("history/op={op:?}/kind=success-without-consent"), format!("ceremony #{k} succeeded although its own user-validation step did not give the required consent (earlier ceremony: {:?})", p.first), case.clone()));
                }
                if !checked {
                    fs.push(Finding::new(format!("history/op={op:?}/kind=no-user-check"), format!("ceremony #{k} succeeded without calling the user-validation step"), case.clone()));
                }
                if let UvOutcome::Ok { presence, verification } = outcome_of(outcome) {
                    if (flags & 1 != 0) != presence || (flags & 4 != 0) != verification {
                        fs.push(Finding::new(format!("history/op={op:?}/kind=flags-untruthful"), format!("ceremony #{k}: flags {flags:#04x}, reported presence={presence} verification={verification}"), case.clone()));
                    }
                }
            }
            Ok(Err(_)) => {
                class.push('E');
                if ok {
                    fs.push(Finding::new(format!("history/op={op:?}/kind=failure-despite-consent"), format!("ceremony #{k} failed although consent was given (earlier ceremony: {:?})", p.first), case.clone()));
                } else if after != before {
                    fs.push(Finding::new(format!("history/op={op:?}/kind=store-changed-without-consent"), format!("ceremony #{k}"), case.clone()));
                }
            }
        }
    }
    (fs, format!("pair:{class}"))
}

pub fn run(ctx: &Ctx) -> Result<Run, String> {
    let inst_stats = {
        // consent is per ceremony: whatever an earlier ceremony on the same authenticator went
        // through (approved and then failed at the counter write, denied, dropped, a panic in
        // user-supplied code), the next one asks again and obeys the answer
        use super::inst::{self, IOp};
        let alphabet = [IOp::GetUpdateFails, IOp::Denied(1), IOp::Get { who: 0, prf: false, silent: false }, IOp::Cancelled(1), IOp::Panics { op: 1, what: 0 }, IOp::Panics { op: 1, what: 2 }, IOp::Denied(0), IOp::Make { rk: true, prf: false }];
        inst::sweep(&alphabet, ctx.tier.pick(3, 4), &[0, 1], ctx.threads, "instance")
    };
    let cs = cases();
    let stats = par::sweep_cases(&cs, ctx.threads, |c, st| {
        let (fs, outcomes) = eval(c);
        let nontrivial = outcomes.iter().any(|o| o.contains(":ok:")) || outcomes.iter().any(|o| o.contains(":err:27") || o.contains(":err:2b"));
        st.case(c, nontrivial, "configuration");
        st.evaluations += (CONTENTS.len() - 1) as u64;
        for o in outcomes {
            st.outcome(&o);
        }
        st.count("ceremonies", CONTENTS.len() as u64);
        st.sample(|| json!({"case": c, "contents": "all 6 store contents"}));
        st.findings_from(fs);
    });
    let ps = pairs();
    let st2 = par::sweep_cases(&ps, ctx.threads, |p, st| {
        let (fs, class) = eval_pair(p);
        st.case(p, true, &class);
        st.count("ceremony_pairs_on_one_authenticator", 1);
        st.findings_from(fs);
    });
    let mut stats = stats;
    stats.merge(st2);
    stats.count("instance_differential_histories", inst_stats.evaluations);
    stats.merge(inst_stats);
    // the credential shown to the user is the one that signs – also by KEY: credentials with the same
    // id and different keys (other instances on the thread; an entry replaced under a long-lived one)
    stats.merge(super::inst::colliding_sweep("shared-state"));
    let n = cs.len() as u64;
    let okc = stats.outcomes.iter().filter(|(k, _)| k.contains(":ok:")).map(|(_, v)| *v).sum::<u64>();
    if okc == 0 {
        // not a harness fault by itself (the implementation may reject everything), but record it
    }
    let mut run = Run::from_stats(
        "model_checking",
        "complete product op x rk x up x uv x verification-capability x presence-capability (the configurations with presence capability off also use a store that answers 'nothing found' with Ok(empty) instead of an error) x validation-outcome(7; and the user step failing with each of the other 244 status bytes, for every up/uv request incl. the silent one) x pin-auth x store kind, each with 6 store contents incl. two simultaneously matching credentials (CTAP2 level) plus userVerification(4) x op x capability x outcome at client level; plus all ordered pairs of (operation, uv requested, validation outcome) ceremonies on ONE authenticator, with the verification capability staying or changing between the two (configured -> absent / unconfigured and back) (neither consent nor a capability seen earlier may carry over); a configuration is non-trivial when at least one of its ceremonies succeeded or was refused for a consent reason (0x27/0x2B)",
        true,
        stats,
    );
    run.graph(n * CONTENTS.len() as u64, n * CONTENTS.len() as u64, n * CONTENTS.len() as u64);
    run.set("configurations", json!(n));
    run.set("successful_ceremonies", json!(okc));
    run.assume("user validation and store are harness implementations of the public traits; error codes are not compared, only Ok/Err and equality of the status byte across store contents");
    Ok(run)
}

pub fn replay(_ctx: &Ctx, case: &Value) -> Result<Vec<Finding>, String> {
    if let Some(fs) = super::inst::replay(case, "instance") {
        return Ok(fs);
    }
    if let Some(fs) = super::inst::colliding_replay(case, "shared-state") {
        return Ok(fs);
    }
    if let Some(p) = case.get("pair") {
        let p: Pair = serde_json::from_value(p.clone()).map_err(|e| format!("bad C04 pair: {e}"))?;
        return Ok(eval_pair(&p).0);
    }
    let c: Case = serde_json::from_value(case.clone()).map_err(|e| format!("bad C04 case: {e}"))?;
    Ok(eval(&c).0)
}
