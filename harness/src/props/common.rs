//! Shared ceremony drivers for the client-level properties (C02, C03, C06, C09, C14, C18).
use crate::core::exec::block_on;
use crate::core::par;
use crate::drivers::*;
use crate::oracles::b64;
use passkey_authenticator::{Authenticator, CredentialStore};
use passkey_client::{Client, DefaultClientData, DefaultClientDataWithCustomHash, DefaultClientDataWithExtra, Origin, UnverifiedAssetLink, WebauthnError};
use passkey_types::webauthn::{self, AuthenticatedPublicKeyCredential, CreatedPublicKeyCredential};
use passkey_types::Passkey;
use serde::{Deserialize, Serialize};
use url::Url;

/// (origin, RP ID) pairs accepted under C01.
#[derive(Clone, Copy, Debug, Serialize, Deserialize, PartialEq, Eq, Hash)]
pub enum Org {
    HostIsRp,
    SubDomain,
    Port,
    Idn,
    Localhost,
    Android,
    /// host = RP ID of 33 bytes (one more than a 32-byte boundary)
    Long33,
    /// origin on a sub-domain, RP ID of 64 bytes
    Long64,
    /// Android app origins whose asset-link host is not in canonical spelling (RP ID absent: the
    /// effective RP ID is the host exactly as the link spells it)
    AndroidUpper,
    AndroidUnicode,
    /// an Android app origin whose certificate hash encodes to base64url text with '-' and '_' in it
    /// (the sample fingerprint of the library's documentation spells the same in both base64 alphabets)
    AndroidFp2,
}
pub const ORGS: [Org; 11] = [Org::HostIsRp, Org::SubDomain, Org::Port, Org::Idn, Org::Localhost, Org::Android, Org::Long33, Org::Long64, Org::AndroidUpper, Org::AndroidUnicode, Org::AndroidFp2];
const LONG33: &str = "a-long-relying-party.example3.com";
const LONG64: &str = "accounts.a-rather-long-relying-party-identifier.example-64.co.uk";
pub const FP: &str = "B3:5B:68:D5:CE:84:50:55:7C:6A:55:FD:64:B5:1F:EA:C1:10:CB:36:D6:A3:52:1C:59:48:DB:3A:38:0A:34:A9";
pub const FP2: &str = "FB:FF:BE:FB:FF:BE:FB:FF:BE:FB:FF:BE:FB:FF:BE:FB:FF:BE:FB:FF:BE:FB:FF:BE:FB:FF:BE:FB:FF:BE:FF:FE";
pub fn fp2_bytes() -> Vec<u8> {
    FP2.split(':').map(|h| u8::from_str_radix(h, 16).unwrap()).collect()
}
pub fn fp_bytes() -> Vec<u8> {
    FP.split(':').map(|h| u8::from_str_radix(h, 16).unwrap()).collect()
}
impl Org {
    /// (rp id argument, effective rp id, origin string a relying party expects)
    pub fn spec(self) -> (Option<&'static str>, &'static str, String) {
        match self {
            Org::HostIsRp => (None, "example.com", "https://example.com".into()),
            Org::SubDomain => (Some("example.com"), "example.com", "https://login.example.com".into()),
            Org::Port => (None, "example.com", "https://example.com:8443".into()),
            Org::Idn => (Some("xn--bcher-kva.example.com"), "xn--bcher-kva.example.com", "https://www.xn--bcher-kva.example.com".into()),
            Org::Localhost => (None, "localhost", "http://localhost:8080".into()),
            Org::Long33 => (None, LONG33, format!("https://{LONG33}")),
            Org::Long64 => (Some(LONG64), LONG64, format!("https://login.{LONG64}")),
            Org::AndroidUpper => (None, "Example.COM", format!("android:apk-key-hash:{}", b64::url_nopad(&fp_bytes()))),
            Org::AndroidUnicode => (None, "bücher.example.com", format!("android:apk-key-hash:{}", b64::url_nopad(&fp_bytes()))),
            Org::Android => (Some("example.com"), "example.com", format!("android:apk-key-hash:{}", b64::url_nopad(&fp_bytes()))),
            Org::AndroidFp2 => (Some("example.com"), "example.com", format!("android:apk-key-hash:{}", b64::url_nopad(&fp2_bytes()))),
        }
    }
    pub fn url(self) -> Option<Url> {
        match self {
            Org::Android | Org::AndroidUpper | Org::AndroidUnicode | Org::AndroidFp2 => None,
            o => Some(Url::parse(&o.spec().2).unwrap()),
        }
    }
    pub fn rp(self) -> String {
        self.spec().1.to_string()
    }
}

#[derive(Clone, Copy, Debug, Serialize, Deserialize, PartialEq, Eq, Hash)]
pub enum Mode {
    Default,
    Extra,
    CallerHash,
}
pub const MODES: [Mode; 3] = [Mode::Default, Mode::Extra, Mode::CallerHash];

#[derive(Clone, Serialize)]
pub struct Extra {
    #[serde(rename = "androidPackageName")]
    pub package: String,
    pub nested: serde_json::Value,
}
pub fn extra() -> Extra {
    Extra { package: "com.example.app".into(), nested: serde_json::json!({"b": [1, 2, {"c": null}], "a": "é"}) }
}
pub fn extra_expect() -> Vec<(String, serde_json::Value)> {
    vec![("androidPackageName".into(), serde_json::json!("com.example.app")), ("nested".into(), serde_json::json!({"b": [1, 2, {"c": null}], "a": "é"}))]
}
pub fn caller_hash() -> Vec<u8> {
    (0..32u8).map(|i| 0xA5 ^ i.wrapping_mul(3)).collect()
}

pub type StdClient<S> = Client<S, ScriptedUv, public_suffix::PublicSuffixList>;

/// Authenticator configuration dimensions.
#[derive(Clone, Copy, Debug, Default, Serialize, Deserialize, PartialEq, Eq, Hash)]
pub struct AuthCfg {
    pub counter: bool,
    pub id_len: Option<u8>,
    /// 0 = no hmac-secret, 1 = UV only, 2 = with non-UV secret
    pub hmac: u8,
    /// evaluation at creation
    pub hmac_mc: bool,
    /// the order in which the configuration is applied: 0 setters, then the hmac-secret builder;
    /// 1 builder first, then setters (the order of the repository's own examples); 2 setters, hmac
    /// builder, then the transports builder with the default transports; 3 the same with an empty
    /// transports list.  Whatever the order, the authenticator must end up configured as asked.
    #[serde(default)]
    pub order: u8,
}

pub fn mk_auth<S>(store: S, uv: ScriptedUv, cfg: &AuthCfg) -> Authenticator<S, ScriptedUv>
where
    S: CredentialStore<PasskeyItem = Passkey> + Send + Sync,
{
    use passkey_authenticator::extensions::HmacSecretConfig;
    let mut auth = Authenticator::new(passkey_types::ctap2::Aaguid::from(*b"harness-aaguid-0"), store, uv);
    let h = match cfg.hmac {
        0 => None,
        1 => Some(HmacSecretConfig::new_with_uv_only()),
        _ => Some(HmacSecretConfig::new_without_uv()),
    }
    .map(|h| if cfg.hmac_mc { h.enable_on_make_credential() } else { h });
    let setters = |auth: &mut Authenticator<S, ScriptedUv>| {
        auth.set_make_credentials_with_signature_counter(cfg.counter);
        if let Some(n) = cfg.id_len {
            auth.set_make_credential_id_length(passkey_authenticator::CredentialIdLength::from(n));
        }
    };
    if cfg.order == 1 {
        if let Some(h) = h {
            auth = auth.hmac_secret(h);
        }
        setters(&mut auth);
        return auth;
    }
    setters(&mut auth);
    if let Some(h) = h {
        auth = auth.hmac_secret(h);
    }
    match cfg.order {
        2 => auth.transports(vec![passkey_types::webauthn::AuthenticatorTransport::Internal, passkey_types::webauthn::AuthenticatorTransport::Hybrid]),
        3 => auth.transports(vec![]),
        _ => auth,
    }
}

pub fn mk_client<S>(store: S, uv: ScriptedUv, org: Org, cfg: &AuthCfg) -> StdClient<S>
where
    S: CredentialStore<PasskeyItem = Passkey> + Send + Sync,
{
    Client::new(mk_auth(store, uv, cfg)).allows_insecure_localhost(org == Org::Localhost)
}

pub fn with_origin<R>(org: Org, f: impl FnOnce(Origin<'_>) -> R) -> R {
    match org.url() {
        Some(u) => f(Origin::Web(std::borrow::Cow::Owned(u))),
        None => {
            let host = match org {
                Org::AndroidUpper => "Example.COM",
                Org::AndroidUnicode => "bücher.example.com",
                _ => "example.com",
            };
            let link = UnverifiedAssetLink::new("com.example.app", if org == Org::AndroidFp2 { FP2 } else { FP }, host, Url::parse("https://example.com/.well-known/assetlinks.json").unwrap()).expect("harness: asset link");
            f(Origin::Android(link))
        }
    }
}

pub fn err_string(e: &WebauthnError) -> String {
    format!("{e:?}")
}

/// Registration through the client in the given client-data mode; panics are caught.
pub fn register<S>(client: &mut StdClient<S>, org: Org, mode: Mode, opts: webauthn::CredentialCreationOptions) -> Result<Result<CreatedPublicKeyCredential, WebauthnError>, String>
where
    S: CredentialStore<PasskeyItem = Passkey> + Send + Sync,
{
    par::catch(|| {
        with_origin(org, |o| match mode {
            Mode::Default => block_on(client.register(o, opts, DefaultClientData)),
            Mode::Extra => block_on(client.register(o, opts, DefaultClientDataWithExtra(extra()))),
            Mode::CallerHash => block_on(client.register(o, opts, DefaultClientDataWithCustomHash(caller_hash()))),
        })
    })
}

pub fn authenticate<S>(client: &mut StdClient<S>, org: Org, mode: Mode, opts: webauthn::CredentialRequestOptions) -> Result<Result<AuthenticatedPublicKeyCredential, WebauthnError>, String>
where
    S: CredentialStore<PasskeyItem = Passkey> + Send + Sync,
{
    par::catch(|| {
        with_origin(org, |o| match mode {
            Mode::Default => block_on(client.authenticate(o, opts, DefaultClientData)),
            Mode::Extra => block_on(client.authenticate(o, opts, DefaultClientDataWithExtra(extra()))),
            Mode::CallerHash => block_on(client.authenticate(o, opts, DefaultClientDataWithCustomHash(caller_hash()))),
        })
    })
}

/// Challenges: lengths incl. empty; contents chosen so that the base64url text contains '-' and
/// '_' and would need padding (this separates base64url-nopad from base64 and padded forms).
pub fn challenges() -> Vec<Vec<u8>> {
    let mut v = vec![];
    for len in [0usize, 1, 2, 3, 16, 32, 33, 64] {
        v.push((0..len).map(|i| [0xfb, 0xff, 0xbe, 0x3e, 0x3f][i % 5]).collect());
    }
    v.push(vec![0xff; 5]);
    v.push(vec![0x00; 7]);
    v
}
