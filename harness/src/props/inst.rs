//! Instance differential, shared by several checks: a history of operations executed on ONE
//! long-lived Authenticator must give, step by step, the same results and leave the same store as
//! the same history executed with a FRESH Authenticator for every operation over an equal store.
//! Whatever the library's documented state is lives in the store; an instance that remembers more
//! (a cache, a busy flag, a memo) and lets it change an answer shows here.  The complete history
//! tree over a small operation alphabet is enumerated; nothing is merged.
use crate::core::exec::{poll_n, Polled};
use crate::core::par;
use crate::core::report::*;
use crate::drivers::*;
use passkey_authenticator::{extensions::HmacSecretConfig, Authenticator, CredentialStore, Ctap2Api, MemoryStore, U2fApi};
use passkey_types::ctap2::extensions::{AuthenticatorPrfInputs, AuthenticatorPrfValues};
use passkey_types::ctap2::{get_assertion, make_credential, Aaguid, Flags};
use passkey_types::u2f::{AuthenticationParameter, AuthenticationRequest, RegisterRequest};
use passkey_types::Passkey;
use serde::{Deserialize, Serialize};
use serde_json::json;
use std::sync::Arc;

const RP: &str = "example.com";

#[derive(Clone, Copy, Debug, PartialEq, Eq, Hash, Serialize, Deserialize)]
pub enum IOp {
    /// makeCredential (rk, hmac-secret requested), user id = step index
    Make { rk: bool, prf: bool },
    /// getAssertion; `who`: 0 seeded A, 1 seeded B (counter-less), 2 no allow list, 3 unknown id,
    /// 4 the credential created first in this history (unknown id if none)
    Get { who: u8, prf: bool, silent: bool },
    Info,
    /// the same two ceremonies through the sealed CTAP2 trait
    TraitMake,
    TraitGet { who: u8 },
    /// a ceremony started and dropped while the user step is pending (0 make, 1 get A, 2 trait make, 3 trait get A)
    Cancelled(u8),
    U2fRegister { h: u8 },
    U2fAuthenticate { h: u8 },
    /// a ceremony the user denies (OperationDenied from the user step): 0 make, 1 get A, 2 trait make, 3 trait get A
    Denied(u8),
    /// an assertion with a stored credential whose key cannot sign (public half only): refused late,
    /// after lookup and consent
    GetUnusableKey,
    /// an assertion with A whose counter write-back the store refuses (after consent)
    GetUpdateFails,
    /// a ceremony (0 make, 1 get A, 2 trait make, 3 trait get A) during which user-supplied code
    /// panics - `what`: 0 the user-validation method, 1 the store's lookup, 2 the store's write;
    /// the embedder catches the unwind and goes on using the instance
    Panics { op: u8, what: u8 },
    /// not a ceremony: the store's record of A changes behind the authenticator's back (a store
    /// that syncs with other devices) - 0 other hmac-secret secrets, 1 the presence-gated secret
    /// gone, 2 counter + 100, 3 another private key, 4 no hmac-secret data at all
    Synced(u8),
}

fn seeds() -> Vec<Passkey> {
    vec![
        seeded(&Seed { n: 1, rp: RP.into(), handle: Some(vec![1]), counter: Some(41), hmac: Some(true) }),
        seeded(&Seed { n: 2, rp: RP.into(), handle: Some(vec![2]), counter: None, hmac: Some(true) }),
        seeded(&Seed { n: 3, rp: "other.org".into(), handle: Some(vec![1]), counter: Some(7), hmac: None }),
        {
            // a credential of which the store only has the public half
            let mut p = seeded(&Seed { n: 4, rp: RP.into(), handle: Some(vec![4]), counter: Some(3), hmac: None });
            p.key.params.retain(|(l, _)| *l != coset::Label::Int(-4));
            p
        },
    ]
}

fn prf() -> AuthenticatorPrfInputs {
    AuthenticatorPrfInputs { eval: Some(AuthenticatorPrfValues { first: [5; 32], second: None }), eval_by_credential: None }
}

/// 0 contract store, 1 Arc<Mutex<MemoryStore>>, 2 Arc<Mutex<Option<Passkey>>>
pub const STORES: [&str; 3] = ["RefStore", "Arc<Mutex<MemoryStore>>", "Arc<Mutex<Option>>"];

fn mk<S>(store: S, silent: bool) -> Authenticator<S, ScriptedUv>
where
    S: CredentialStore<PasskeyItem = Passkey> + Send + Sync,
{
    mk_log(store, silent, Log::new())
}
fn mk_log<S>(store: S, silent: bool, log: Log) -> Authenticator<S, ScriptedUv>
where
    S: CredentialStore<PasskeyItem = Passkey> + Send + Sync,
{
    let mut uv = ScriptedUv::consenting(log);
    uv.yields = 1;
    if silent {
        uv.outcome = UvOutcome::Ok { presence: false, verification: false };
    }
    let mut a = Authenticator::new(Aaguid::from(*b"harness-aaguid-0"), store, uv).hmac_secret(HmacSecretConfig::new_without_uv().enable_on_make_credential());
    a.set_make_credentials_with_signature_counter(true);
    a
}

/// normalised result of one operation; `created` collects the ids of credentials made so far
fn one<S>(auth: &mut Authenticator<S, ScriptedUv>, op: IOp, step: usize, created: &mut Vec<Vec<u8>>) -> String
where
    S: CredentialStore<PasskeyItem = Passkey> + Send + Sync,
{
    let norm_id = |id: &[u8], created: &[Vec<u8>]| -> String {
        match created.iter().position(|c| c == id) {
            Some(i) => format!("created#{i}"),
            None => hex(&id[..id.len().min(4)]),
        }
    };
    let who_list = |who: u8, created: &[Vec<u8>]| -> Option<Vec<Vec<u8>>> {
        match who {
            0 => Some(vec![cred_id(1)]),
            1 => Some(vec![cred_id(2)]),
            2 => None,
            3 => Some(vec![vec![0xEE; 16]]),
            _ => Some(vec![created.first().cloned().unwrap_or(vec![0xEF; 16])]),
        }
    };
    let run = |f: std::pin::Pin<Box<dyn std::future::Future<Output = String> + '_>>, cancel: bool| -> String {
        match poll_n(f, cancel.then_some(1)) {
            Polled::Done { value, .. } => value,
            Polled::Cancelled { polls } => format!("cancelled-after-{polls}-polls"),
            Polled::Stuck { polls } => format!("STUCK-after-{polls}-polls"),
        }
    };
    let mc_req = |prf_on: bool, rk: bool| {
        let ext = prf_on.then(|| make_credential::ExtensionInputs { hmac_secret: Some(true), hmac_secret_mc: None, prf: Some(prf()) });
        mc_request(RP, &[0x30, step as u8], None, rk, true, true, false, ext)
    };
    let mc_fmt = |r: Result<make_credential::Response, passkey_types::ctap2::StatusCode>, created: &mut Vec<Vec<u8>>| match r {
        Ok(r) => {
            let id = r.auth_data.attested_credential_data.as_ref().map(|a| a.credential_id().to_vec()).unwrap_or_default();
            created.push(id);
            format!("ok flags={:?} counter={:?} prf={:?}", r.auth_data.flags, r.auth_data.counter, r.unsigned_extension_outputs.as_ref().and_then(|u| u.prf.as_ref()).map(|p| (p.enabled, p.results.is_some())))
        }
        Err(e) => format!("err:{e:?}"),
    };
    let ga_fmt = |r: Result<get_assertion::Response, passkey_types::ctap2::StatusCode>, created: &[Vec<u8>]| match r {
        Ok(r) => {
            let id = r.credential.as_ref().map(|d| d.id.to_vec()).unwrap_or_default();
            // seeded credentials sign deterministically; created ones have random keys
            let sig = if created.contains(&id) { "-".to_string() } else { hex(&r.signature[..r.signature.len().min(12)]) };
            let prf_out = r.unsigned_extension_outputs.as_ref().and_then(|u| u.prf.as_ref()).map(|p| if created.contains(&id) { "some".to_string() } else { hex(&p.results.first[..6]) });
            format!("ok cred={} flags={:?} counter={:?} user={:?} sig={sig} prf={prf_out:?}", norm_id(&id, created), r.auth_data.flags, r.auth_data.counter, r.user.as_ref().map(|u| u.id.to_vec()))
        }
        Err(e) => format!("err:{e:?}"),
    };
    match op {
        IOp::Synced(_) => "synced".into(),
        IOp::GetUnusableKey => {
            let req = ga_request(RP, Some(vec![cred_id(4)]), false, true, true, false, None);
            let r = match poll_n(auth.get_assertion(req), None) {
                Polled::Done { value, .. } => value,
                _ => return "STUCK".into(),
            };
            ga_fmt(r, created)
        }
        IOp::GetUpdateFails => one(auth, IOp::Get { who: 0, prf: false, silent: false }, step, created),
        IOp::Panics { op, .. } | IOp::Denied(op) => {
            let k = op;
            let inner = match k {
                0 => IOp::Make { rk: true, prf: false },
                1 => IOp::Get { who: 0, prf: false, silent: false },
                2 => IOp::TraitMake,
                _ => IOp::TraitGet { who: 0 },
            };
            one(auth, inner, step, created)
        }
        IOp::Make { rk, prf } => {
            let req = mc_req(prf, rk);
            let r = match poll_n(auth.make_credential(req), None) {
                Polled::Done { value, .. } => value,
                _ => return "STUCK".into(),
            };
            mc_fmt(r, created)
        }
        IOp::TraitMake => {
            let req = mc_req(false, true);
            let r = match poll_n(Ctap2Api::make_credential(auth, req), None) {
                Polled::Done { value, .. } => value,
                _ => return "STUCK".into(),
            };
            mc_fmt(r, created)
        }
        IOp::Get { who, prf: p, silent } => {
            let ext = p.then(|| get_assertion::ExtensionInputs { hmac_secret: None, prf: Some(prf()) });
            let req = ga_request(RP, who_list(who, created), false, !silent, !silent, false, ext);
            let r = match poll_n(auth.get_assertion(req), None) {
                Polled::Done { value, .. } => value,
                _ => return "STUCK".into(),
            };
            ga_fmt(r, created)
        }
        IOp::TraitGet { who } => {
            let req = ga_request(RP, who_list(who, created), false, true, true, false, None);
            let r = match poll_n(Ctap2Api::get_assertion(auth, req), None) {
                Polled::Done { value, .. } => value,
                _ => return "STUCK".into(),
            };
            ga_fmt(r, created)
        }
        IOp::Info => match poll_n(auth.get_info(), None) {
            Polled::Done { value, .. } => format!("{value:?}"),
            _ => "STUCK".into(),
        },
        IOp::Cancelled(k) => {
            let list = Some(vec![cred_id(1)]);
            match k {
                0 => run(Box::pin(async { format!("completed:{}", auth.make_credential(mc_req(false, true)).await.is_ok()) }), true),
                1 => run(Box::pin(async { format!("completed:{}", auth.get_assertion(ga_request(RP, list, false, true, true, false, None)).await.is_ok()) }), true),
                2 => run(Box::pin(async { format!("completed:{}", Ctap2Api::make_credential(auth, mc_req(false, true)).await.is_ok()) }), true),
                _ => run(Box::pin(async { format!("completed:{}", Ctap2Api::get_assertion(auth, ga_request(RP, list, false, true, true, false, None)).await.is_ok()) }), true),
            }
        }
        IOp::U2fRegister { h } => {
            let handle = vec![0x40 + h; 20];
            match poll_n(U2fApi::register(auth, RegisterRequest { challenge: [3; 32], application: [4; 32] }, &handle), None) {
                Polled::Done { value: Ok(r), .. } => format!("ok handle={}", hex(&r.key_handle[..2])),
                Polled::Done { value: Err(e), .. } => format!("err:{e:?}"),
                _ => "STUCK".into(),
            }
        }
        IOp::U2fAuthenticate { h } => {
            let req = AuthenticationRequest { parameter: AuthenticationParameter::EnforceUserPresence, challenge: [3; 32], application: [4; 32], key_handle: vec![0x40 + h; 20] };
            match poll_n(U2fApi::authenticate(&*auth, req, 9, Flags::UP), None) {
                Polled::Done { value: Ok(r), .. } => format!("ok counter={} presence={:?} siglen>0={}", r.counter, r.user_presence, !r.signature.is_empty()),
                Polled::Done { value: Err(e), .. } => format!("err:{e:?}"),
                _ => "STUCK".into(),
            }
        }
    }
}

type Snap = Vec<(String, Option<Vec<u8>>, Option<u32>, bool)>;
fn snap(recs: Vec<Rec>, created: &[Vec<u8>]) -> Snap {
    let mut v: Snap = recs.into_iter().map(|r| (format!("{}/{}", r.rp, created.iter().position(|c| *c == r.id).map_or_else(|| hex(&r.id[..r.id.len().min(4)]), |i| format!("created#{i}"))), r.handle, r.counter, r.uv_secret.is_some())).collect();
    v.sort();
    v
}

fn run_hist<S>(store: S, recs: &dyn Fn() -> Vec<Rec>, hist: &[IOp], one_instance: bool) -> (Vec<String>, Snap)
where
    S: CredentialStore<PasskeyItem = Passkey> + Send + Sync + Clone,
{
    let mut created = vec![];
    let mut out = vec![];
    let silent_of = |op: &IOp| matches!(op, IOp::Get { silent: true, .. });
    // the user step's answer is configuration of the instance: a silent operation gets its own
    // instance in both runs (it is the *other* operations that share one)
    let log = Log::new();
    // every instance reaches the store through the same switch (drivers::SwitchStore)
    let store = SwitchStore::new(store);
    let mut long_lived = mk_log(store.clone(), false, log.clone());
    for (k, op) in hist.iter().enumerate() {
        if let IOp::Synced(what) = op {
            // applied to the store directly, in both runs alike
            let mut st = store.clone();
            let list = [descriptor(&cred_id(1))];
            let found = match poll_n(st.find_credentials(Some(&list), RP), None) {
                Polled::Done { value: Ok(v), .. } => v.into_iter().next(),
                _ => None,
            };
            if let Some(mut p) = found {
                match what {
                    0 => p.extensions.hmac_secret = Some(passkey_types::StoredHmacSecret { cred_with_uv: vec![0x5A; 32], cred_without_uv: Some(vec![0xA5; 32]) }),
                    1 => {
                        if let Some(h) = p.extensions.hmac_secret.as_mut() {
                            h.cred_without_uv = None;
                        }
                    }
                    2 => p.counter = p.counter.map(|c| c + 100),
                    3 => p.key = seeded(&Seed { n: 9, rp: RP.into(), handle: None, counter: None, hmac: None }).key.clone(),
                    _ => p.extensions.hmac_secret = None,
                }
                let _ = poll_n(st.update_credential(p), None);
            }
            out.push("synced".into());
            continue;
        }
        let answer = match op {
            IOp::Denied(_) => Some(UvOutcome::Err(0x27)),
            IOp::Panics { what: 0, .. } => Some(UvOutcome::Err(UV_PANICS)),
            _ => None,
        };
        let switch = match op {
            IOp::GetUpdateFails => 1,
            IOp::Panics { what: 1, .. } => 3,
            IOp::Panics { what: 2, .. } => 4,
            _ => 0,
        };
        store.switch.store(switch, std::sync::atomic::Ordering::SeqCst);
        let injected = matches!(op, IOp::Panics { .. });
        // an injected panic is caught like an embedder would; any other panic unwinds to the caller
        let guarded = |f: &mut dyn FnMut() -> String| -> String {
            if injected {
                match std::panic::catch_unwind(std::panic::AssertUnwindSafe(|| f())) {
                    Ok(r) => r,
                    Err(p) => {
                        let m = p.downcast_ref::<String>().cloned().or_else(|| p.downcast_ref::<&str>().map(|s| s.to_string())).unwrap_or_default();
                        if m.starts_with("injected:") { "panicked (injected)".to_string() } else { format!("panicked: {m}") }
                    }
                }
            } else {
                f()
            }
        };
        let r = if one_instance && !silent_of(op) {
            log.set_answer(answer);
            guarded(&mut || one(&mut long_lived, *op, k, &mut created))
        } else {
            let l2 = Log::new();
            l2.set_answer(answer);
            let mut fresh = mk_log(store.clone(), silent_of(op), l2);
            guarded(&mut || one(&mut fresh, *op, k, &mut created))
        };
        store.switch.store(0, std::sync::atomic::Ordering::SeqCst);
        out.push(r);
    }
    (out, snap(recs(), &created))
}

fn run_kind(kind: u8, hist: &[IOp], one_instance: bool) -> (Vec<String>, Snap) {
    match kind {
        1 => {
            let m: MemoryStore = seeds().into_iter().map(|p| (p.credential_id.to_vec(), p)).collect();
            let s = Arc::new(tokio::sync::Mutex::new(m));
            run_hist(s.clone(), &|| s.recs(), hist, one_instance)
        }
        2 => {
            let s: Arc<tokio::sync::Mutex<Option<Passkey>>> = Arc::new(tokio::sync::Mutex::new(seeds().into_iter().next()));
            run_hist(s.clone(), &|| s.recs(), hist, one_instance)
        }
        _ => {
            let mut rs = RefStore::with(seeds());
            rs.newest_first = false;
            let s = Shared::new(rs);
            run_hist(s.clone(), &|| s.recs(), hist, one_instance)
        }
    }
}

/// Findings (kind, detail) for one history on one store kind.
pub fn differential(kind: u8, hist: &[IOp]) -> Vec<(String, String)> {
    let a = match par::catch(|| run_kind(kind, hist, true)) {
        Ok(a) => a,
        Err(p) => return vec![(format!("panic-on-one-instance/site={}", par::panic_site(&p)), p)],
    };
    let b = match par::catch(|| run_kind(kind, hist, false)) {
        Ok(b) => b,
        // a panic with fresh instances is not this oracle's subject
        Err(_) => return vec![],
    };
    let mut v = vec![];
    for (k, (x, y)) in a.0.iter().zip(b.0.iter()).enumerate() {
        if x != y {
            v.push((format!("instance-state-changes-result/op={}", op_name(&hist[k])), format!("operation #{k} ({:?}) of {hist:?} on {}: one long-lived authenticator answers {x}, a fresh authenticator over the same store answers {y}", hist[k], STORES[kind as usize % 3])));
            break;
        }
    }
    if v.is_empty() && a.1 != b.1 {
        v.push(("instance-state-changes-store".into(), format!("after {hist:?} on {}: store {:?} with one long-lived authenticator, {:?} with fresh ones", STORES[kind as usize % 3], a.1, b.1)));
    }
    if a.0.iter().any(|r| r.starts_with("STUCK")) {
        v.push(("stuck".into(), format!("an operation of {hist:?} never completes on a long-lived authenticator")));
    }
    v
}
fn op_name(op: &IOp) -> &'static str {
    match op {
        IOp::Make { .. } => "make_credential",
        IOp::Get { .. } => "get_assertion",
        IOp::Info => "get_info",
        IOp::TraitMake => "Ctap2Api::make_credential",
        IOp::TraitGet { .. } => "Ctap2Api::get_assertion",
        IOp::Cancelled(_) => "cancelled",
        IOp::U2fRegister { .. } => "u2f_register",
        IOp::U2fAuthenticate { .. } => "u2f_authenticate",
        IOp::Denied(_) => "denied-by-user",
        IOp::GetUnusableKey => "get_assertion(unusable key)",
        IOp::GetUpdateFails => "get_assertion(update fails)",
        IOp::Panics { .. } => "user-code-panics",
        IOp::Synced(_) => "store-synced",
    }
}

/// Sweep the complete history tree of `alphabet` to `depth` on the given store kinds.
pub fn sweep(alphabet: &[IOp], depth: usize, kinds: &[u8], threads: usize, key_prefix: &str) -> Stats {
    let n = alphabet.len();
    let mut hists: Vec<(u8, Vec<IOp>)> = vec![];
    for &kind in kinds {
        for d in 2..=depth {
            for idx in 0..n.pow(d as u32) {
                let mut x = idx;
                let h: Vec<IOp> = (0..d)
                    .map(|_| {
                        let o = alphabet[x % n];
                        x /= n;
                        o
                    })
                    .collect();
                hists.push((kind, h));
            }
        }
    }
    let prefix = key_prefix.to_string();
    par::sweep_cases(&hists, threads, |(kind, h), st| {
        st.case(&(kind, h), true, "instance-differential");
        for (k, d) in differential(*kind, h) {
            st.finding(Finding::new(format!("{prefix}/kind={k}"), d, json!({"instance_differential": {"store": kind, "hist": h}})));
        }
    })
}

/// Repetition: `op` n times in a row on one instance, then each probe - counters, budgets and
/// thresholds that an instance (or anything behind it) keeps show only after many equal steps.
pub fn repeat_sweep(alphabet: &[IOp], reps: &[usize], kinds: &[u8], threads: usize, key_prefix: &str) -> Stats {
    let mut hists: Vec<(u8, Vec<IOp>)> = vec![];
    for &kind in kinds {
        for op in alphabet {
            for &n in reps {
                for probe in alphabet {
                    let mut h = vec![*op; n];
                    h.push(*probe);
                    hists.push((kind, h));
                }
            }
        }
    }
    let prefix = key_prefix.to_string();
    par::sweep_cases(&hists, threads, |(kind, h), st| {
        st.case(&(kind, h), true, "instance-repetition");
        for (k, d) in differential(*kind, h) {
            let d = if d.len() > 700 { format!("{}…{}", &d[..d.floor_char_boundary(350)], &d[d.floor_char_boundary(d.len() - 300)..]) } else { d };
            st.finding(Finding::new(format!("{prefix}/kind={k}"), d, json!({"instance_differential": {"store": kind, "hist": h}})));
        }
    })
}

pub fn replay(case: &serde_json::Value, key_prefix: &str) -> Option<Vec<Finding>> {
    let c = case.get("instance_differential")?;
    let kind = c["store"].as_u64().unwrap_or(0) as u8;
    let hist: Vec<IOp> = serde_json::from_value(c["hist"].clone()).ok()?;
    Some(differential(kind, &hist).into_iter().map(|(k, d)| Finding::new(format!("{key_prefix}/kind={k}"), d, case.clone())).collect())
}

// ------------------------------------------------------------------------------------------
// the same differential one level up: ONE long-lived WebAuthn Client against fresh Clients

#[derive(Clone, Copy, Debug, PartialEq, Eq, Hash, Serialize, Deserialize)]
pub enum COp {
    /// Client::register; origin 0 = https://example.com, 1 = https://login.example.com with rp id example.com
    Register { rk: bool, cred_props: bool, origin: u8 },
    /// Client::authenticate; who: 0 seeded A, 2 no allow list, 3 unknown id, 4 first created
    Authenticate { who: u8, origin: u8, prf: bool },
    /// a request the client refuses before it reaches the authenticator (RP id not valid for the origin)
    BadRpId,
}

fn client_one<S>(client: &mut passkey_client::Client<S, ScriptedUv, public_suffix::PublicSuffixList>, op: COp, step: usize, created: &mut Vec<Vec<u8>>) -> String
where
    S: CredentialStore<PasskeyItem = Passkey> + Send + Sync,
{
    use passkey_types::webauthn;
    let origin_of = |o: u8| url::Url::parse(if o == 0 { "https://example.com" } else { "https://login.example.com" }).unwrap();
    let rp_of = |o: u8| (o != 0).then(|| RP.to_string());
    match op {
        COp::Register { rk, cred_props, origin } => {
            let sel = Some(webauthn::AuthenticatorSelectionCriteria { authenticator_attachment: None, resident_key: None, require_resident_key: rk, user_verification: Default::default() });
            let ext = cred_props.then(|| webauthn::AuthenticationExtensionsClientInputs { cred_props: Some(true), prf: None, prf_already_hashed: None });
            let opts = creation_options(Reg { rp_id: rp_of(origin), user_id: vec![0x50, step as u8], selection: sel, extensions: ext, ..Default::default() });
            match poll_n(client.register(&origin_of(origin), opts, passkey_client::DefaultClientData), None) {
                Polled::Done { value: Ok(c), .. } => {
                    created.push(c.raw_id.to_vec());
                    let ad = c.response.authenticator_data.to_vec();
                    format!("ok flags={:02x} counter={:?} credProps={:?} adlen>37={}", ad.get(32).copied().unwrap_or(0), ad.get(33..37), c.client_extension_results.cred_props.as_ref().map(|p| p.discoverable), ad.len() > 37)
                }
                Polled::Done { value: Err(e), .. } => format!("err:{e:?}"),
                _ => "STUCK".into(),
            }
        }
        COp::Authenticate { who, origin, prf: p } => {
            let allow = match who {
                0 => Some(vec![cred_id(1)]),
                2 => None,
                3 => Some(vec![vec![0xEE; 16]]),
                _ => Some(vec![created.first().cloned().unwrap_or(vec![0xEF; 16])]),
            };
            let ext = p.then(|| webauthn::AuthenticationExtensionsClientInputs { cred_props: None, prf: Some(webauthn::AuthenticationExtensionsPrfInputs { eval: Some(webauthn::AuthenticationExtensionsPrfValues { first: vec![1, 2, 3].into(), second: None }), eval_by_credential: None }), prf_already_hashed: None });
            let opts = request_options(Auth { rp_id: rp_of(origin), allow, extensions: ext, ..Default::default() });
            match poll_n(client.authenticate(&origin_of(origin), opts, passkey_client::DefaultClientData), None) {
                Polled::Done { value: Ok(c), .. } => {
                    let id = c.raw_id.to_vec();
                    let ad = c.response.authenticator_data.to_vec();
                    let who = created.iter().position(|x| *x == id).map_or_else(|| hex(&id[..id.len().min(4)]), |i| format!("created#{i}"));
                    let prf_out = c.client_extension_results.prf.as_ref().map(|o| o.results.is_some());
                    format!("ok cred={who} flags={:02x} counter={:?} userHandle={:?} prf={prf_out:?}", ad.get(32).copied().unwrap_or(0), ad.get(33..37), c.response.user_handle.as_ref().map(|h| h.to_vec()))
                }
                Polled::Done { value: Err(e), .. } => format!("err:{e:?}"),
                _ => "STUCK".into(),
            }
        }
        COp::BadRpId => {
            let opts = request_options(Auth { rp_id: Some("evil.org".into()), allow: None, ..Default::default() });
            match poll_n(client.authenticate(&origin_of(0), opts, passkey_client::DefaultClientData), None) {
                Polled::Done { value: Ok(_), .. } => "ok(!)".into(),
                Polled::Done { value: Err(e), .. } => format!("err:{e:?}"),
                _ => "STUCK".into(),
            }
        }
    }
}

fn client_run<S>(store: S, recs: &dyn Fn() -> Vec<Rec>, hist: &[COp], one_instance: bool) -> (Vec<String>, Snap)
where
    S: CredentialStore<PasskeyItem = Passkey> + Send + Sync + Clone,
{
    let mut created = vec![];
    let mut out = vec![];
    let mut long_lived = passkey_client::Client::new(mk(store.clone(), false));
    for (k, op) in hist.iter().enumerate() {
        let r = if one_instance { client_one(&mut long_lived, *op, k, &mut created) } else { client_one(&mut passkey_client::Client::new(mk(store.clone(), false)), *op, k, &mut created) };
        out.push(r);
    }
    (out, snap(recs(), &created))
}
fn client_run_kind(kind: u8, hist: &[COp], one_instance: bool) -> (Vec<String>, Snap) {
    match kind {
        1 => {
            let m: MemoryStore = seeds().into_iter().map(|p| (p.credential_id.to_vec(), p)).collect();
            let s = Arc::new(tokio::sync::Mutex::new(m));
            client_run(s.clone(), &|| s.recs(), hist, one_instance)
        }
        _ => {
            let mut rs = RefStore::with(seeds());
            rs.newest_first = false;
            let s = Shared::new(rs);
            client_run(s.clone(), &|| s.recs(), hist, one_instance)
        }
    }
}
pub fn client_differential(kind: u8, hist: &[COp]) -> Vec<(String, String)> {
    let a = match par::catch(|| client_run_kind(kind, hist, true)) {
        Ok(a) => a,
        Err(p) => return vec![(format!("panic-on-one-client/site={}", par::panic_site(&p)), p)],
    };
    let Ok(b) = par::catch(|| client_run_kind(kind, hist, false)) else { return vec![] };
    let mut v = vec![];
    for (k, (x, y)) in a.0.iter().zip(b.0.iter()).enumerate() {
        if x != y {
            v.push(("client-state-changes-result".into(), format!("operation #{k} ({:?}) of {hist:?} on {}: one long-lived Client answers {x}, a fresh Client over the same store answers {y}", hist[k], STORES[kind as usize % 3])));
            break;
        }
    }
    if v.is_empty() && a.1 != b.1 {
        v.push(("client-state-changes-store".into(), format!("after {hist:?} on {}: store {:?} with one long-lived Client, {:?} with fresh ones", STORES[kind as usize % 3], a.1, b.1)));
    }
    v
}
pub fn client_sweep(alphabet: &[COp], depth: usize, kinds: &[u8], threads: usize, key_prefix: &str) -> Stats {
    let n = alphabet.len();
    let mut hists: Vec<(u8, Vec<COp>)> = vec![];
    for &kind in kinds {
        for d in 2..=depth {
            for idx in 0..n.pow(d as u32) {
                let mut x = idx;
                hists.push((kind, (0..d).map(|_| { let o = alphabet[x % n]; x /= n; o }).collect()));
            }
        }
    }
    let prefix = key_prefix.to_string();
    par::sweep_cases(&hists, threads, |(kind, h), st| {
        st.case(&(kind, h), true, "client-instance-differential");
        for (k, d) in client_differential(*kind, h) {
            st.finding(Finding::new(format!("{prefix}/kind={k}"), d, json!({"client_instance_differential": {"store": kind, "hist": h}})));
        }
    })
}
pub fn client_replay(case: &serde_json::Value, key_prefix: &str) -> Option<Vec<Finding>> {
    let c = case.get("client_instance_differential")?;
    let kind = c["store"].as_u64().unwrap_or(0) as u8;
    let hist: Vec<COp> = serde_json::from_value(c["hist"].clone()).ok()?;
    Some(client_differential(kind, &hist).into_iter().map(|(k, d)| Finding::new(format!("{key_prefix}/kind={k}"), d, case.clone())).collect())
}

// ------------------------------------------------------------------------------------------
// state shared BETWEEN instances (statics, thread-locals): two authenticators on one thread whose
// stores hold credentials with the SAME id but different keys (imported / restored credentials);
// each assertion must verify under the key its own store holds.

/// a passkey with credential id of seed `n` but the private key of seed `key_of`
fn with_key(n: u8, key_of: u8, rp: &str, counter: Option<u32>) -> Passkey {
    let mut p = seeded(&Seed { n, rp: rp.into(), handle: Some(vec![n]), counter, hmac: None });
    p.key = cose_private_from_scalar(&fixed_scalar(key_of));
    p
}

pub fn colliding_ids(kind: u8) -> Vec<(String, String)> {
    use crate::oracles::rp;
    let mut v = vec![];
    let r = par::catch(|| {
        let mut out: Vec<(String, String)> = vec![];
        // three stores: id 1 with key 1 for RP a; id 1 with key 9 for RP b; id 1 with key 17 for RP a again (restored)
        let specs: [(u8, &str); 3] = [(1, "a.example"), (9, "b.example"), (17, "a.example")];
        let verify = |out: &mut Vec<(String, String)>, label: &str, key_of: u8, rpid: &str, resp: &get_assertion::Response, hash: &[u8]| {
            let (x, y) = public_xy_from_scalar(&fixed_scalar(key_of));
            let mut msg = resp.auth_data.to_vec();
            msg.extend_from_slice(hash);
            match rp::verifying_key(&x, &y).and_then(|k| rp::ecdsa_verify(&k, &msg, &resp.signature)) {
                Ok(_) => {}
                Err(e) => out.push(("signature-not-under-own-key".into(), format!("{label}: the assertion for {rpid} does not verify under the key that authenticator's store holds for the credential ({e}); other authenticators on this thread hold the same credential id with other keys"))),
            }
            if resp.auth_data.rp_id_hash() != rp::sha256(rpid.as_bytes()).as_slice() {
                out.push(("rp-id-hash".into(), format!("{label}: rpIdHash is not that of {rpid}")));
            }
        };
        for round in 0..2 {
            for (i, (key_of, rpid)) in specs.iter().enumerate() {
                let item = with_key(1, *key_of, rpid, Some(3));
                let req = ga_request(rpid, Some(vec![cred_id(1)]), false, true, true, false, None);
                let hash = req.client_data_hash.to_vec();
                let res = match kind {
                    1 => {
                        let m: MemoryStore = [(item.credential_id.to_vec(), item)].into_iter().collect();
                        poll_n(mk(Arc::new(tokio::sync::Mutex::new(m)), false).get_assertion(req), None)
                    }
                    2 => poll_n(mk(Arc::new(tokio::sync::Mutex::new(Some(item))), false).get_assertion(req), None),
                    _ => poll_n(mk(Shared::new(RefStore::with(vec![item])), false).get_assertion(req), None),
                };
                match res {
                    Polled::Done { value: Ok(resp), .. } => verify(&mut out, &format!("round {round}, authenticator {i}"), *key_of, rpid, &resp, &hash),
                    Polled::Done { value: Err(e), .. } => out.push(("assertion-fails".into(), format!("round {round}, authenticator {i}: {e:?}"))),
                    _ => out.push(("stuck".into(), "assertion never completes".into())),
                }
            }
        }
        // ONE long-lived authenticator whose store entry is replaced under the same id by a credential
        // with another key (a restore, a key rotation by sync) between two assertions
        {
            let store = Shared::new(RefStore::with(vec![with_key(1, 1, "a.example", Some(3))]));
            let mut auth = mk(store.clone(), false);
            for (round, key_of) in [(0u8, 1u8), (1, 9), (2, 17), (3, 1)] {
                store.0.lock().unwrap().items[0] = with_key(1, key_of, "a.example", Some(3 + u32::from(round)));
                let req = ga_request("a.example", Some(vec![cred_id(1)]), false, true, true, false, None);
                let hash = req.client_data_hash.to_vec();
                match poll_n(auth.get_assertion(req), None) {
                    Polled::Done { value: Ok(resp), .. } => verify(&mut out, &format!("one authenticator, entry replaced (assertion #{round})"), key_of, "a.example", &resp, &hash),
                    Polled::Done { value: Err(e), .. } => out.push(("assertion-fails".into(), format!("one authenticator, entry replaced (assertion #{round}): {e:?}"))),
                    _ => out.push(("stuck".into(), "assertion never completes".into())),
                }
            }
        }
        // the U2F face of the same: handle H registered, used, registered again (new key), used
        let s = Shared::new(RefStore::new());
        let mut auth = mk(s.clone(), false);
        let handle = vec![0x61; 24];
        for round in 0..2u8 {
            let app = [round + 1; 32];
            match poll_n(U2fApi::register(&mut auth, RegisterRequest { challenge: [3; 32], application: app }, &handle), None) {
                Polled::Done { value: Ok(reg), .. } => {
                    let req = AuthenticationRequest { parameter: AuthenticationParameter::EnforceUserPresence, challenge: [5; 32], application: app, key_handle: handle.clone() };
                    match poll_n(U2fApi::authenticate(&auth, req, 4, Flags::UP), None) {
                        Polled::Done { value: Ok(a), .. } => {
                            let mut msg = app.to_vec();
                            msg.push(u8::from(a.user_presence));
                            msg.extend_from_slice(&a.counter.to_be_bytes());
                            msg.extend_from_slice(&[5; 32]);
                            if let Err(e) = rp::verifying_key(&reg.public_key.x, &reg.public_key.y).and_then(|k| rp::ecdsa_verify(&k, &msg, &a.signature)) {
                                out.push(("u2f-signature-not-under-registered-key".into(), format!("registration #{round} of one key handle: the authentication does not verify under the key just registered ({e})")));
                            }
                        }
                        Polled::Done { value: Err(e), .. } => out.push(("u2f-authentication-fails".into(), format!("{e:?}"))),
                        _ => out.push(("stuck".into(), "u2f authenticate never completes".into())),
                    }
                }
                Polled::Done { value: Err(e), .. } => out.push(("u2f-registration-fails".into(), format!("{e:?}"))),
                _ => out.push(("stuck".into(), "u2f register never completes".into())),
            }
        }
        out
    });
    match r {
        Ok(o) => v.extend(o),
        Err(p) => v.push((format!("panic/site={}", par::panic_site(&p)), p)),
    }
    v
}

pub fn colliding_sweep(key_prefix: &str) -> Stats {
    let mut st = Stats::new();
    for kind in 0..3u8 {
        // on a fresh thread, so that the scenario is the thread's whole history (replay does the same)
        let fs = std::thread::scope(|s| s.spawn(move || colliding_ids(kind)).join()).unwrap_or_else(|_| vec![("harness-thread-panicked".into(), String::new())]);
        st.case(&("colliding", kind), true, "colliding-ids");
        for (k, d) in fs {
            st.finding(Finding::new(format!("{key_prefix}/kind={k}"), format!("{d}; stores: {}", STORES[kind as usize % 3]), json!({"colliding_ids": {"store": kind}})));
        }
    }
    st
}
pub fn colliding_replay(case: &serde_json::Value, key_prefix: &str) -> Option<Vec<Finding>> {
    let c = case.get("colliding_ids")?;
    let kind = c["store"].as_u64().unwrap_or(0) as u8;
    let fs = std::thread::scope(|s| s.spawn(move || colliding_ids(kind)).join()).ok()?;
    Some(fs.into_iter().map(|(k, d)| Finding::new(format!("{key_prefix}/kind={k}"), format!("{d}; stores: {}", STORES[kind as usize % 3]), case.clone())).collect())
}

// ------------------------------------------------------------------------------------------
// long runs on one thread: many registrations with mixed credential-id lengths and PRF secrets,
// spread over several authenticator instances.  Every byte string the library draws at random
// (credential ids, both PRF secrets) must be fresh: no 8-byte window of one may occur in another.

pub fn long_run(n: usize) -> Vec<(String, String)> {
    let r = par::catch(|| {
        let mut out: Vec<(String, String)> = vec![];
        let mut seen: std::collections::HashMap<[u8; 8], String> = std::collections::HashMap::new();
        let lens = [16u8, 20, 33, 60, 64, 32, 48];
        let mut auths: Vec<(Shared<RefStore>, Authenticator<Shared<RefStore>, ScriptedUv>)> = lens
            .iter()
            .enumerate()
            .map(|(i, l)| {
                let s = Shared::new(RefStore::new());
                let mut a = mk(s.clone(), false);
                if i % 3 == 1 {
                    a = a.hmac_secret(HmacSecretConfig::new_with_uv_only());
                }
                a.set_make_credential_id_length(passkey_authenticator::CredentialIdLength::from(*l));
                (s, a)
            })
            .collect();
        for k in 0..n {
            let which = (k / 5 + k) % auths.len();
            let (store, auth) = &mut auths[which];
            let req = mc_request(RP, &[0x70, k as u8], None, true, true, true, false, Some(make_credential::ExtensionInputs { hmac_secret: Some(true), hmac_secret_mc: None, prf: None }));
            let before: Vec<Vec<u8>> = store.recs().into_iter().map(|r| r.id).collect();
            match poll_n(auth.make_credential(req), None) {
                Polled::Done { value: Ok(resp), .. } => {
                    let id = resp.auth_data.attested_credential_data.as_ref().map(|a| a.credential_id().to_vec()).unwrap_or_default();
                    let Some(rec) = store.recs().into_iter().find(|r| !before.contains(&r.id)) else {
                        out.push(("long-run-nothing-stored".into(), format!("registration #{k} stored nothing")));
                        continue;
                    };
                    let mut fresh: Vec<(String, Vec<u8>)> = vec![(format!("credential id of registration #{k} ({} bytes)", id.len()), id.clone())];
                    if let Some(s) = rec.uv_secret {
                        fresh.push((format!("UV-gated PRF secret of registration #{k}"), s));
                    }
                    if let Some(s) = rec.nouv_secret {
                        fresh.push((format!("non-gated PRF secret of registration #{k}"), s));
                    }
                    for (what, bytes) in fresh {
                        let mut reported = false;
                        for w in bytes.windows(8) {
                            let w: [u8; 8] = w.try_into().unwrap();
                            match seen.get(&w) {
                                Some(earlier) if *earlier != what && !reported => {
                                    out.push(("random-material-reused".into(), format!("8 bytes of the {what} already occur in the {earlier} drawn earlier on this thread: the value is not fresh random")));
                                    reported = true;
                                }
                                _ => {}
                            }
                        }
                        for w in bytes.windows(8) {
                            seen.entry(w.try_into().unwrap()).or_insert_with(|| what.clone());
                        }
                    }
                }
                Polled::Done { value: Err(e), .. } => out.push(("long-run-registration-fails".into(), format!("registration #{k}: {e:?}"))),
                _ => out.push(("stuck".into(), format!("registration #{k} never completes"))),
            }
            if out.len() > 3 {
                break;
            }
        }
        out
    });
    match r {
        Ok(o) => o,
        Err(p) => vec![(format!("long-run-panic/site={}", par::panic_site(&p)), p)],
    }
}
pub fn long_run_sweep(n: usize, key_prefix: &str) -> Stats {
    let mut st = Stats::new();
    let fs = std::thread::scope(|s| s.spawn(move || long_run(n)).join()).unwrap_or_else(|_| vec![("harness-thread-panicked".into(), String::new())]);
    st.case(&("long-run", n), true, "long-run");
    st.count("long_run_registrations", n as u64);
    for (k, d) in fs {
        st.finding(Finding::new(format!("{key_prefix}/kind={k}"), d, json!({"long_run": {"registrations": n}})));
    }
    st
}
pub fn long_run_replay(case: &serde_json::Value, key_prefix: &str) -> Option<Vec<Finding>> {
    let c = case.get("long_run")?;
    let n = c["registrations"].as_u64().unwrap_or(64) as usize;
    let fs = std::thread::scope(|s| s.spawn(move || long_run(n)).join()).ok()?;
    Some(fs.into_iter().map(|(k, d)| Finding::new(format!("{key_prefix}/kind={k}"), d, case.clone())).collect())
}
