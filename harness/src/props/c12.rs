//! C12 – authenticator data binary encoding follows the WebAuthn layout and round-trips.
use crate::core::par;
use crate::core::report::*;
use crate::oracles::rp;
use ciborium::value::Value as Cbor;
use coset::iana;
use passkey_types::ctap2::{get_assertion, make_credential, Aaguid, AttestedCredentialData, AuthenticatorData, Flags};
use serde::{Deserialize, Serialize};
use serde_json::{json, Value};

const RPS: [&str; 8] = ["", "example.com", "bücher.example", "Example.COM", "android:apk-key-hash:AbCd_-Ef", "example.com.", "a-long-relying-party.example3.com", "accounts.a-rather-long-relying-party-identifier.example-64.co.uk"];
const COUNTERS: [Option<u32>; 5] = [None, Some(0), Some(1), Some(0x8000_0000), Some(0xFFFF_FFFF)];
const ID_LENS: [usize; 8] = [0, 1, 16, 64, 255, 256, 1023, 65535];

#[derive(Clone, Debug, Serialize, Deserialize, PartialEq, Eq, Hash)]
pub struct Case {
    pub rp: u8,
    pub counter: u8,
    /// subset of {UP=1, UV=4, BE=8, BS=16}
    pub flags: u8,
    /// true: assign the public `flags` field (exact subset); false: through set_flags (ORs into the default BE|BS)
    pub assign_flags: bool,
    /// None = no attested data; Some((aaguid pattern, id length))
    pub attested: Option<(u8, usize)>,
    /// 0 none, 1 make: hmac-secret true, 2 make: hmac-secret-mc bytes, 3 assertion: hmac-secret bytes
    pub ext: u8,
    /// corruption sweep depth: 0 = prefixes + 16 boundary values, 1 = all 256 values per position, 2 = all two-byte corruptions
    pub depth: u8,
    /// length of the extension's byte string for ext 2 / 3 (absent: 48 resp. 32 bytes, the sizes real
    /// authenticators produce).  Neither the setters nor the encoder restrict it.
    #[serde(default)]
    pub ext_len: Option<usize>,
}
/// byte-string lengths around the CBOR length-prefix boundaries and the sizes of typical scratch buffers
pub const EXT_LENS: [usize; 16] = [0, 1, 23, 24, 255, 256, 990, 1008, 1009, 1023, 1024, 1025, 4096, 65535, 65536, 70000];

fn flag_subsets() -> Vec<u8> {
    let bits = [0x01u8, 0x04, 0x08, 0x10];
    (0..16u8).map(|m| bits.iter().enumerate().filter(|(i, _)| m & (1 << i) != 0).map(|(_, b)| *b).sum()).collect()
}

pub fn cases(tier: Tier) -> Vec<Case> {
    let mut v = vec![];
    for rp in 0..8u8 {
        for counter in 0..5u8 {
            for flags in flag_subsets() {
                for assign_flags in [false, true] {
                    let mut atts: Vec<Option<(u8, usize)>> = vec![None];
                    for a in 0..2u8 {
                        for l in ID_LENS {
                            atts.push(Some((a, l)));
                        }
                    }
                    // credential ids whose length is a multiple of a 4 KiB page (chunked readers)
                    if rp == 1 && counter == 2 && matches!(flags, 0x01 | 0x1d) {
                        for l in [4095usize, 4096, 4097, 8192, 12288, 61440] {
                            atts.push(Some((1, l)));
                        }
                    }
                    // other legal shapes of the credential public key
                    if rp == 1 && matches!(counter, 1 | 4) {
                        for a in 2..16u8 {
                            atts.push(Some((a, 16)));
                        }
                    }
                    for attested in atts {
                        for ext in 0..4u8 {
                            let long = attested.map_or(0, |a| a.1) > 300;
                            // RP ids 3.. (upper case, android facet, trailing dot) matter for the hash only
                            if rp >= 3 && attested.map_or(0, |a| a.1) > 64 {
                                continue;
                            }
                            // the 65535-byte ids are expensive: keep one rp/counter slice of them
                            if attested.map_or(0, |a| a.1) == 65535 && !(rp == 1 && counter == 2 && matches!(flags, 0x01 | 0x1d)) {
                                continue;
                            }
                            // the RP-id spellings 3.. meet a slice of the counter/flag product
                            if rp >= 3 && !(matches!(counter, 1 | 4) && matches!(flags, 0 | 0x01 | 0x05 | 0x1d)) {
                                continue;
                            }
                            let rep = rp == 1 && (counter == 0 || counter == 4) && matches!(flags, 0 | 0x01 | 0x05 | 0x1d) && attested.map_or(true, |a| a.0 == 1 && (a.1 == 16 || a.1 == 64));
                            let depth = if long {
                                0
                            } else if rep && (assign_flags || tier == Tier::Thorough) {
                                1
                            } else {
                                0
                            };
                            v.push(Case { rp, counter, flags, assign_flags, attested, ext, depth, ext_len: None });
                        }
                    }
                }
            }
        }
    }
    // extension outputs of every length class, without and with attested data, alone and (make) next
    // to hmac-secret: true
    for ext in [2u8, 3, 4] {
        for l in EXT_LENS {
            for attested in [None, Some((1u8, 16usize))] {
                for (counter, flags) in [(2u8, 0x01u8), (4, 0x1d)] {
                    v.push(Case { rp: 1, counter, flags, assign_flags: true, attested, ext, depth: 0, ext_len: Some(l) });
                }
            }
        }
    }
    // extension outputs nested 1..12, 64 and 200 levels deep
    for depth in (1usize..=12).chain([64, 200]) {
        for attested in [None, Some((1u8, 16usize))] {
            v.push(Case { rp: 1, counter: 2, flags: 0x05, assign_flags: true, attested, ext: 5, depth: 0, ext_len: Some(depth) });
        }
    }
    if tier == Tier::Thorough {
        // all two-byte corruptions of the two shortest encodings
        v.push(Case { rp: 1, counter: 1, flags: 0x05, assign_flags: true, attested: None, ext: 0, depth: 2, ext_len: None });
        v.push(Case { rp: 1, counter: 1, flags: 0x01, assign_flags: true, attested: None, ext: 3, depth: 2, ext_len: None });
    }
    v
}

fn xy() -> (Vec<u8>, Vec<u8>) {
    let (x, y) = crate::drivers::public_xy_from_scalar(&crate::drivers::fixed_scalar(1));
    (x.to_vec(), y.to_vec())
}

struct Built {
    value: AuthenticatorData,
    expect_flags: u8,
    expect_counter: u32,
    aaguid: Option<[u8; 16]>,
    id: Option<Vec<u8>>,
    ext: Option<Cbor>,
}

fn build(c: &Case) -> Result<Built, String> {
    let rp = RPS[c.rp as usize];
    let counter = COUNTERS[c.counter as usize];
    let mut ad = AuthenticatorData::new(rp, counter);
    let mut expect_flags;
    if c.assign_flags {
        ad.flags = Flags::from_bits(c.flags).ok_or("bad flag subset")?;
        expect_flags = c.flags;
    } else {
        ad = ad.set_flags(Flags::from_bits(c.flags).ok_or("bad flag subset")?);
        expect_flags = c.flags | 0x08 | 0x10; // the constructor starts from BE|BS
    }
    let mut aaguid = None;
    let mut id = None;
    if let Some((a, l)) = c.attested {
        let ag: [u8; 16] = if a == 0 { [0; 16] } else { core::array::from_fn(|i| 0xA0 + i as u8) };
        let cid: Vec<u8> = (0..l).map(|i| (i as u8).wrapping_mul(7).wrapping_add(3)).collect();
        let (x, y) = xy();
        // key shapes: 0/1 both coordinates; 2 compressed (y as sign bit, RFC 9053); 3 OKP Ed25519 (x only);
        // 4 both coordinates plus key id and an unregistered parameter
        let key = match a {
            2 => coset::CoseKeyBuilder::new_ec2_pub_key_y_sign(iana::EllipticCurve::P_256, x, y[31] & 1 == 1).algorithm(iana::Algorithm::ES256).build(),
            3 => coset::CoseKeyBuilder::new_okp_key().param(iana::OkpKeyParameter::Crv as i64, Cbor::Integer((iana::EllipticCurve::Ed25519 as i64).into())).param(iana::OkpKeyParameter::X as i64, Cbor::Bytes(x)).algorithm(iana::Algorithm::EdDSA).build(),
            4 => coset::CoseKeyBuilder::new_ec2_pub_key(iana::EllipticCurve::P_256, x, y).algorithm(iana::Algorithm::ES256).key_id(vec![1, 2, 3]).param(-70000, Cbor::Text("vendor".into())).build(),
            // the same key with its members in another (legal, non-canonical) order: y, x, crv
            5 => coset::CoseKey {
                kty: coset::RegisteredLabel::Assigned(iana::KeyType::EC2),
                alg: Some(coset::RegisteredLabelWithPrivate::Assigned(iana::Algorithm::ES256)),
                params: vec![(coset::Label::Int(-3), Cbor::Bytes(y)), (coset::Label::Int(-2), Cbor::Bytes(x)), (coset::Label::Int(-1), Cbor::Integer((iana::EllipticCurve::P_256 as i64).into()))],
                ..Default::default()
            },
            // algorithm and curve crossed: ES256 on other curves (32-byte coordinates all the same),
            // other algorithms on P-256, no algorithm - the key section says what the key says
            6..=10 => {
                let crv = [iana::EllipticCurve::P_384 as i64, iana::EllipticCurve::P_521 as i64, iana::EllipticCurve::Secp256k1 as i64, iana::EllipticCurve::Ed25519 as i64, 99][(a - 6) as usize];
                coset::CoseKey {
                    kty: coset::RegisteredLabel::Assigned(iana::KeyType::EC2),
                    alg: Some(coset::RegisteredLabelWithPrivate::Assigned(iana::Algorithm::ES256)),
                    params: vec![(coset::Label::Int(-1), Cbor::Integer(crv.into())), (coset::Label::Int(-2), Cbor::Bytes(x)), (coset::Label::Int(-3), Cbor::Bytes(y))],
                    ..Default::default()
                }
            }
            11..=14 => coset::CoseKeyBuilder::new_ec2_pub_key(iana::EllipticCurve::P_256, x, y).algorithm([iana::Algorithm::ES384, iana::Algorithm::ES512, iana::Algorithm::ES256K, iana::Algorithm::EdDSA][(a - 11) as usize]).build(),
            15 => coset::CoseKeyBuilder::new_ec2_pub_key(iana::EllipticCurve::P_256, x, y).build(),
            _ => coset::CoseKeyBuilder::new_ec2_pub_key(iana::EllipticCurve::P_256, x, y).algorithm(iana::Algorithm::ES256).build(),
        };
        let acd = AttestedCredentialData::new(Aaguid::from(ag), cid.clone(), key).map_err(|e| format!("constructor refused a {l}-byte id: {e}"))?;
        ad = ad.set_attested_credential_data(acd);
        expect_flags |= 0x40;
        aaguid = Some(ag);
        id = Some(cid);
    }
    let mut ext = None;
    match c.ext {
        1 => {
            ad = ad.set_make_credential_extensions(Some(make_credential::SignedExtensionOutputs { hmac_secret: Some(true), hmac_secret_mc: None })).map_err(|e| format!("{e:?}"))?;
            ext = Some(Cbor::Map(vec![(Cbor::Text("hmac-secret".into()), Cbor::Bool(true))]));
        }
        2 => {
            let b: Vec<u8> = (0..c.ext_len.unwrap_or(48)).map(|i| i as u8).collect();
            ad = ad.set_make_credential_extensions(Some(make_credential::SignedExtensionOutputs { hmac_secret: None, hmac_secret_mc: Some(b.clone().into()) })).map_err(|e| format!("{e:?}"))?;
            ext = Some(Cbor::Map(vec![(Cbor::Text("hmac-secret-mc".into()), Cbor::Bytes(b))]));
        }
        4 => {
            let b: Vec<u8> = (0..c.ext_len.unwrap_or(48)).map(|i| (i as u8) ^ 0x33).collect();
            ad = ad.set_make_credential_extensions(Some(make_credential::SignedExtensionOutputs { hmac_secret: Some(true), hmac_secret_mc: Some(b.clone().into()) })).map_err(|e| format!("{e:?}"))?;
            ext = Some(Cbor::Map(vec![(Cbor::Text("hmac-secret".into()), Cbor::Bool(true)), (Cbor::Text("hmac-secret-mc".into()), Cbor::Bytes(b))]));
        }
        5 => {
            // an extension output that is a container nested ext_len levels deep (the member is an
            // arbitrary CBOR value; the public field is assigned directly)
            let mut v = Cbor::Integer(1.into());
            for k in 0..c.ext_len.unwrap_or(1) {
                v = if k % 2 == 0 { Cbor::Array(vec![v]) } else { Cbor::Map(vec![(Cbor::Text("n".into()), v)]) };
            }
            let m = Cbor::Map(vec![(Cbor::Text("x-nested".into()), v)]);
            ad.extensions = Some(m.clone());
            ad.flags |= Flags::ED;
            ext = Some(m);
        }
        3 => {
            let b: Vec<u8> = (0..c.ext_len.unwrap_or(32)).map(|i| 100u8.wrapping_add(i as u8)).collect();
            ad = ad.set_assertion_extensions(Some(get_assertion::SignedExtensionOutputs { hmac_secret: Some(b.clone().into()) })).map_err(|e| format!("{e:?}"))?;
            ext = Some(Cbor::Map(vec![(Cbor::Text("hmac-secret".into()), Cbor::Bytes(b))]));
        }
        _ => {}
    }
    if ext.is_some() {
        expect_flags |= 0x80;
    }
    Ok(Built { value: ad, expect_flags, expect_counter: counter.unwrap_or(0), aaguid, id, ext })
}

const BOUNDARY: [u8; 16] = [0x00, 0x01, 0x02, 0x17, 0x18, 0x1f, 0x20, 0x3f, 0x40, 0x5f, 0x7f, 0x80, 0x9f, 0xbf, 0xfe, 0xff];

/// decode under catch_unwind; Ok(Some(debug)) accepted, Ok(None) rejected, Err = panic
fn decode(b: &[u8]) -> Result<Option<AuthenticatorData>, String> {
    par::catch(|| AuthenticatorData::from_slice(b).ok())
}

pub fn eval(c: &Case) -> (Vec<Finding>, String, u64) {
    let case = serde_json::to_value(c).unwrap();
    let mut fs = vec![];
    let mut decodes = 0u64;
    let mut bad = |kind: &str, d: String| fs.push(Finding::new(format!("kind={kind}"), d, case.clone()));
    let built = match par::catch(|| build(c)) {
        Err(p) => {
            bad("panic-in-constructor", p);
            return (fs, "panic".into(), 0);
        }
        Ok(Err(e)) => {
            bad("constructor-refused", e);
            return (fs, "refused".into(), 0);
        }
        Ok(Ok(b)) => b,
    };
    let bytes = match par::catch(|| built.value.to_vec()) {
        Ok(b) => b,
        Err(p) => {
            bad("panic-in-to-vec", p);
            return (fs, "panic".into(), 0);
        }
    };
    // ---- layout, by the independent parser
    match rp::parse_auth_data(&bytes) {
        Err(e) => bad("layout-unparseable", e),
        Ok(p) => {
            if p.rp_id_hash[..] != rp::sha256(RPS[c.rp as usize].as_bytes())[..] {
                bad("rp-id-hash", "first 32 bytes are not SHA-256(rp id)".into());
            }
            if p.flags != built.expect_flags {
                bad("flags-byte", format!("flags byte {:#04x}, expected {:#04x} (AT/ED exactly when the section is present)", p.flags, built.expect_flags));
            }
            if p.counter != built.expect_counter {
                bad("counter-not-big-endian", format!("counter bytes decode to {}, expected {}", p.counter, built.expect_counter));
            }
            match (&p.attested, &built.id) {
                (Some(a), Some(id)) => {
                    if Some(a.aaguid) != built.aaguid {
                        bad("aaguid", "aaguid bytes differ".into());
                    }
                    if &a.cred_id != id {
                        bad("credential-id", format!("credential id section has {} bytes, expected {}", a.cred_id.len(), id.len()));
                    }
                    if c.attested.map_or(0, |a| a.0) <= 1 {
                        match rp::es256_cose_xy(&a.cose) {
                            Ok((x, y)) => {
                                if (x, y) != xy() {
                                    bad("cose-key", "COSE key coordinates differ".into());
                                }
                            }
                            Err(e) => bad("cose-key", e),
                        }
                    }
                }
                (None, None) => {}
                _ => bad("attested-section-presence", "attested credential data section present/absent contrary to the value".into()),
            }
            // built with serialize_bytes_as_base64_string, byte-valued extension outputs are written as
            // base64url text (the feature's documented effect on every `Bytes`); the map must be the
            // expected one up to that spelling
            let want_ext = if crate::variant() == "serialize_bytes_as_base64_string" {
                built.ext.clone().map(|e| match e {
                    Cbor::Map(m) => Cbor::Map(m.into_iter().map(|(k, v)| (k, match v {
                        Cbor::Bytes(b) => Cbor::Text(crate::oracles::b64::url_nopad(&b)),
                        other => other,
                    })).collect()),
                    other => other,
                })
            } else {
                built.ext.clone()
            };
            if p.extensions != want_ext {
                bad("extension-map", format!("extension section {:?}, expected {:?}", p.extensions, built.ext));
            }
            if p.trailing != 0 {
                bad("trailing-bytes", format!("{} bytes after the last section", p.trailing));
            }
        }
    }
    // ---- the serde form (how the value travels inside CTAP2 messages): one CBOR byte string holding
    // exactly to_vec(), in every build variant, and it deserialises to an equal value
    // (authenticator data beyond ciborium's 4 KiB scratch buffer – credential ids several times the
    // WebAuthn maximum of 1023 bytes – cannot be borrowed by a visit_bytes-only visitor and is not
    // demanded here)
    if bytes.len() <= 4000 {
        let mut wire = vec![];
        match par::catch(|| ciborium::ser::into_writer(&built.value, &mut wire).map_err(|e| e.to_string())) {
            Err(p) => bad("panic-in-serialize", p),
            Ok(Err(e)) => bad("serde-serialize-fails", e),
            Ok(Ok(())) => {
                match ciborium::de::from_reader::<Cbor, _>(wire.as_slice()) {
                    Ok(Cbor::Bytes(b)) if b == bytes => {}
                    Ok(other) => bad("serde-form-not-the-byte-string", format!("serialised as {} instead of a byte string holding to_vec()", match other {
                        Cbor::Bytes(_) => "a byte string with other content",
                        Cbor::Text(_) => "a text string",
                        Cbor::Array(_) => "an array",
                        _ => "another CBOR type",
                    })),
                    Err(e) => bad("serde-form-not-cbor", e.to_string()),
                }
                match par::catch(|| ciborium::de::from_reader::<AuthenticatorData, _>(wire.as_slice()).map_err(|e| e.to_string())) {
                    Err(p) => bad("panic-in-deserialize", p),
                    Ok(Err(e)) => bad("serde-round-trip-fails", e),
                    Ok(Ok(back)) => {
                        if back.to_vec() != bytes {
                            bad("serde-round-trip-differs", "deserialising the serialised value gives another value".into());
                        }
                    }
                }
            }
        }
    }
    // ---- round trip
    decodes += 1;
    match decode(&bytes) {
        Err(p) => bad("panic-in-from-slice", format!("decoding a valid encoding panicked: {p}")),
        Ok(None) => bad("valid-encoding-rejected", "from_slice rejects to_vec's output".into()),
        Ok(Some(back)) => {
            let mut want = build(c).unwrap().value;
            if want.counter.is_none() {
                want.counter = Some(0);
            }
            // to_vec adds AT for attested data; the decoded value carries it in flags
            if want.attested_credential_data.is_some() {
                want.flags |= Flags::AT;
            }
            if back != want {
                bad("round-trip-differs", format!("decoded value differs: {:?} vs {:?}", short(&back), short(&want)));
            }
        }
    }
    // ---- every strict prefix is rejected
    let n = bytes.len();
    let prefix_lens: Vec<usize> = if n <= 400 { (0..n).collect() } else { (0..120).chain(n - 120..n).chain((37 + 18 + built.id.as_ref().map_or(0, |i| i.len())).saturating_sub(6)..(37 + 18 + built.id.as_ref().map_or(0, |i| i.len()) + 6).min(n)).collect() };
    for l in prefix_lens {
        decodes += 1;
        match decode(&bytes[..l]) {
            Err(p) => bad("panic-on-truncation", format!("prefix of {l}/{n} bytes: {p}")),
            Ok(Some(_)) => bad("truncation-accepted", format!("prefix of {l} bytes of a {n}-byte encoding was accepted{}", if l < 37 { " (< 37 bytes)" } else { " (flagged section missing or truncated)" })),
            Ok(None) => {}
        }
    }
    // ---- single-byte replacements
    let positions: Vec<usize> = if n <= 400 { (0..n).collect() } else { (0..100).chain(n - 100..n).collect() };
    let mut buf = bytes.clone();
    for &pos in &positions {
        let orig = buf[pos];
        let vals: Vec<u8> = if c.depth >= 1 || pos == 32 { (0..=255u8).collect() } else { BOUNDARY.to_vec() };
        for v in vals {
            if v == orig {
                continue;
            }
            buf[pos] = v;
            decodes += 1;
            match decode(&buf) {
                Err(p) => bad(&format!("panic-on-corruption/site={}", par::panic_site(&p)), format!("byte {pos} := {v:#04x}: {p}")),
                Ok(Some(_)) => {
                    if pos == 32 {
                        if v & 0x22 != 0 {
                            bad("reserved-flag-bits-accepted", format!("flags byte {v:#04x} accepted"));
                        }
                        let at_missing = v & 0x40 != 0 && built.id.is_none() && n == 37;
                        let ed_missing = v & 0x80 != 0 && built.ext.is_none() && built.id.is_none() && n == 37;
                        if at_missing || ed_missing {
                            bad("flagged-section-missing-accepted", format!("flags byte {v:#04x} on a 37-byte encoding accepted"));
                        }
                    }
                }
                Ok(None) => {}
            }
        }
        buf[pos] = orig;
    }
    // ---- all two-byte corruptions (thorough, shortest encodings)
    if c.depth >= 2 && n <= 80 {
        for p1 in 0..n {
            for p2 in p1 + 1..n {
                let (o1, o2) = (buf[p1], buf[p2]);
                for v1 in BOUNDARY {
                    for v2 in 0..=255u8 {
                        buf[p1] = v1;
                        buf[p2] = v2;
                        decodes += 1;
                        if let Err(p) = decode(&buf) {
                            bad(&format!("panic-on-corruption/site={}", par::panic_site(&p)), format!("bytes {p1},{p2} := {v1:#04x},{v2:#04x}: {p}"));
                        }
                    }
                }
                buf[p1] = o1;
                buf[p2] = o2;
            }
        }
    }
    (fs, format!("encoded:{}", if built.id.is_some() { "attested" } else { "plain" }), decodes)
}

fn short(a: &AuthenticatorData) -> String {
    format!("flags={:?} counter={:?} attested={} ext={:?}", a.flags, a.counter, a.attested_credential_data.as_ref().map_or("none".into(), |x| format!("id[{}]", x.credential_id().len())), a.extensions)
}

// ------------------------------------------------------------------------------------------
// setter sequences: every order of up to 3 (4) setter calls after the constructor

#[derive(Clone, Copy, Debug, Serialize, Deserialize, PartialEq, Eq, Hash)]
pub enum Setter {
    FlagsUp,
    FlagsUvBe,
    Attested16,
    Attested0,
    MakeExtNone,
    MakeExtEmpty,
    MakeExtHmac,
    MakeExtMc,
    AssertExtNone,
    AssertExtEmpty,
    AssertExtBytes,
}
pub const SETTERS: [Setter; 11] = [Setter::FlagsUp, Setter::FlagsUvBe, Setter::Attested16, Setter::Attested0, Setter::MakeExtNone, Setter::MakeExtEmpty, Setter::MakeExtHmac, Setter::MakeExtMc, Setter::AssertExtNone, Setter::AssertExtEmpty, Setter::AssertExtBytes];

fn apply_setter(ad: AuthenticatorData, s: Setter) -> Result<AuthenticatorData, String> {
    let acd = |l: usize| {
        let (x, y) = xy();
        let key = coset::CoseKeyBuilder::new_ec2_pub_key(iana::EllipticCurve::P_256, x, y).algorithm(iana::Algorithm::ES256).build();
        AttestedCredentialData::new(Aaguid::from([9; 16]), vec![7; l], key).unwrap()
    };
    let e = |r: Result<AuthenticatorData, passkey_types::ctap2::Ctap2Error>| r.map_err(|e| format!("{e:?}"));
    match s {
        Setter::FlagsUp => Ok(ad.set_flags(Flags::UP)),
        Setter::FlagsUvBe => Ok(ad.set_flags(Flags::UV | Flags::BE)),
        Setter::Attested16 => Ok(ad.set_attested_credential_data(acd(16))),
        Setter::Attested0 => Ok(ad.set_attested_credential_data(acd(0))),
        Setter::MakeExtNone => e(ad.set_make_credential_extensions(None)),
        Setter::MakeExtEmpty => e(ad.set_make_credential_extensions(Some(make_credential::SignedExtensionOutputs { hmac_secret: None, hmac_secret_mc: None }))),
        Setter::MakeExtHmac => e(ad.set_make_credential_extensions(Some(make_credential::SignedExtensionOutputs { hmac_secret: Some(true), hmac_secret_mc: None }))),
        Setter::MakeExtMc => e(ad.set_make_credential_extensions(Some(make_credential::SignedExtensionOutputs { hmac_secret: None, hmac_secret_mc: Some(vec![1; 48].into()) }))),
        Setter::AssertExtNone => e(ad.set_assertion_extensions(None)),
        Setter::AssertExtEmpty => e(ad.set_assertion_extensions(Some(get_assertion::SignedExtensionOutputs { hmac_secret: None }))),
        Setter::AssertExtBytes => e(ad.set_assertion_extensions(Some(get_assertion::SignedExtensionOutputs { hmac_secret: Some(vec![2; 32].into()) }))),
    }
}

pub fn eval_setters(seq: &[Setter]) -> Vec<Finding> {
    let case = json!({"setters": seq});
    let mut fs = vec![];
    let built = par::catch(|| {
        let mut ad = AuthenticatorData::new("example.com", Some(3));
        for s in seq {
            ad = apply_setter(ad, *s)?;
        }
        let attested = ad.attested_credential_data.is_some();
        let ext = ad.extensions.is_some();
        Ok::<_, String>((ad.to_vec(), attested, ext, format!("{ad:?}")))
    });
    let (bytes, attested, ext, dbg) = match built {
        Err(p) => return vec![Finding::new("setters/kind=panic", p, case)],
        Ok(Err(e)) => return vec![Finding::new("setters/kind=setter-fails", e, case)],
        Ok(Ok(x)) => x,
    };
    let mut bad = |kind: &str, d: String| fs.push(Finding::new(format!("setters/kind={kind}"), d, case.clone()));
    match rp::parse_auth_data(&bytes) {
        Err(e) => bad("encoding-does-not-follow-layout", format!("{e} (value: {dbg})")),
        Ok(p) => {
            if (p.flags & rp::AT != 0) != attested || p.attested.is_some() != attested {
                bad("at-flag-vs-section", format!("AT flag {} but attested credential data present = {attested}", p.flags & rp::AT != 0));
            }
            if (p.flags & rp::ED != 0) != ext || p.extensions.is_some() != ext {
                bad("ed-flag-vs-section", format!("ED flag {} but extension data present = {ext}", p.flags & rp::ED != 0));
            }
            if p.trailing != 0 {
                bad("trailing-bytes", format!("{}", p.trailing));
            }
            // the value is what the LAST call of each setter made it
            let want_id_len = seq.iter().rev().find_map(|s| match s {
                Setter::Attested16 => Some(16usize),
                Setter::Attested0 => Some(0),
                _ => None,
            });
            if let (Some(w), Some(a)) = (want_id_len, &p.attested) {
                if a.cred_id.len() != w {
                    bad("earlier-setter-call-wins", format!("the last attested-data setter in {seq:?} set a {w}-byte credential id, the encoding carries a {}-byte one", a.cred_id.len()));
                }
            }
        }
    }
    match decode(&bytes) {
        Err(p) => bad("panic-in-from-slice", p),
        Ok(None) => bad("own-encoding-rejected", format!("from_slice rejects what to_vec produced for {dbg}")),
        Ok(Some(back)) => {
            if format!("{back:?}") != dbg {
                bad("round-trip-differs", format!("{back:?} vs {dbg}"));
            }
        }
    }
    fs
}

fn setter_sequences(depth: usize) -> Vec<Vec<Setter>> {
    let mut all: Vec<Vec<Setter>> = vec![vec![]];
    let mut level: Vec<Vec<Setter>> = vec![vec![]];
    for _ in 0..depth {
        let mut next = vec![];
        for s in &level {
            for a in SETTERS {
                let mut n = s.clone();
                n.push(a);
                next.push(n);
            }
        }
        all.extend(next.iter().cloned());
        level = next;
    }
    all
}

// ------------------------------------------------------------------------------------------
// serialisation after a serialisation that failed: a sink that accepts only the first n bytes
// (a transport buffer that is too small) makes the first attempt fail; what the same thread
// serialises next must be what a thread that never failed serialises
struct Stingy {
    left: usize,
}
impl ciborium_io::Write for Stingy {
    type Error = &'static str;
    fn write_all(&mut self, data: &[u8]) -> Result<(), Self::Error> {
        if data.len() > self.left {
            self.left = 0;
            return Err("sink full");
        }
        self.left -= data.len();
        Ok(())
    }
    fn flush(&mut self) -> Result<(), Self::Error> {
        Ok(())
    }
}
fn after_failed_write(first: usize, second: usize, n: usize, json: bool) -> Vec<(String, String)> {
    let pick = |k: usize| {
        let c = Case { rp: (k % 3) as u8, counter: (k % 5) as u8, flags: [0x01u8, 0x05, 0x1d][k % 3], assign_flags: true, attested: (k % 2 == 1).then_some((1, 16)), ext: (k % 4) as u8, depth: 0, ext_len: None };
        build(&c).map(|b| b.value)
    };
    let (Ok(a), Ok(b), Ok(b2)) = (pick(first), pick(second), pick(second)) else { return vec![] };
    let ser = move |v: &AuthenticatorData| -> Result<Vec<u8>, String> {
        if json {
            serde_json::to_vec(v).map_err(|e| e.to_string())
        } else {
            let mut out = vec![];
            ciborium::ser::into_writer(v, &mut out).map_err(|e| e.to_string())?;
            Ok(out)
        }
    };
    // on a thread of its own: the failed attempt, then the second value
    let a2 = a;
    let got = std::thread::spawn(move || {
        par::catch(|| {
            if json {
                struct W(usize);
                impl std::io::Write for W {
                    fn write(&mut self, d: &[u8]) -> std::io::Result<usize> {
                        if d.len() > self.0 {
                            self.0 = 0;
                            return Err(std::io::Error::other("sink full"));
                        }
                        self.0 -= d.len();
                        Ok(d.len())
                    }
                    fn flush(&mut self) -> std::io::Result<()> {
                        Ok(())
                    }
                }
                let _ = serde_json::to_writer(W(n), &a2);
            } else {
                let _ = ciborium::ser::into_writer(&a2, Stingy { left: n });
            }
            ser(&b2)
        })
    })
    .join();
    let want = std::thread::spawn(move || ser(&b)).join();
    match (got, want) {
        (Ok(Ok(Ok(g))), Ok(Ok(w))) if g == w => vec![],
        (Ok(Ok(g)), Ok(w)) => vec![("serialisation-after-failed-write-differs".into(), format!("after an attempt that failed in a sink accepting {n} bytes, the same thread serialises the next authenticator data as {:?} bytes; a thread that never failed writes {:?} bytes", g.as_ref().map(|x| x.len()), w.as_ref().map(|x| x.len())))],
        (Ok(Err(p)), _) => vec![("panic-serialising".into(), p)],
        _ => vec![("harness".into(), "serialisation thread died".into())],
    }
}

pub fn run(ctx: &Ctx) -> Result<Run, String> {
    let cs = cases(ctx.tier);
    let mut stats = par::sweep_cases(&cs, ctx.threads, |c, st| {
        let (fs, o, d) = eval(c);
        st.case(c, true, &o);
        st.count("decodes", d);
        st.findings_from(fs);
    });
    let seqs = setter_sequences(ctx.tier.pick(3, 4));
    let st2 = par::sweep_cases(&seqs, ctx.threads, |q, st| {
        st.case(q, !q.is_empty(), "setter-sequence");
        st.count("setter_sequences", 1);
        st.findings_from(eval_setters(q));
    });
    stats.merge(st2);
    for first in 0..6usize {
        for second in 0..6usize {
            for n in [0usize, 1, 2, 10, 36, 37, 38, 60, 100] {
                for json in [false, true] {
                    stats.case(&(first, second, n, json, "after-failed-write"), true, "after-failed-write");
                    for (k, d) in after_failed_write(first, second, n, json) {
                        stats.finding(Finding::new(format!("kind={k}"), d, json!({"after_failed_write": {"first": first, "second": second, "n": n, "json": json}})));
                    }
                }
            }
        }
    }
    // credential ids longer than 65535 bytes are refused at construction
    for l in [65536usize, 70000] {
        let (x, y) = xy();
        let key = coset::CoseKeyBuilder::new_ec2_pub_key(iana::EllipticCurve::P_256, x, y).algorithm(iana::Algorithm::ES256).build();
        let r = par::catch(|| AttestedCredentialData::new(Aaguid::new_empty(), vec![0u8; l], key).is_ok());
        stats.evaluations += 1;
        match r {
            Ok(false) => stats.outcome("long-id-refused"),
            Ok(true) => stats.finding(Finding::new("kind=overlong-credential-id-accepted", format!("AttestedCredentialData::new accepted a {l}-byte credential id"), json!({"overlong_id": l}))),
            Err(p) => stats.finding(Finding::new("kind=panic-in-constructor", p, json!({"overlong_id": l}))),
        }
    }
    for c in cs.iter().step_by(cs.len() / 4 + 1) {
        stats.samples.push(serde_json::to_value(c).unwrap());
    }
    let mut run = Run::from_stats(
        "exploration",
        "full product RP id {'', ascii, Unicode, upper-case ascii, android facet with upper case, trailing dot, 33 and 64 bytes long} x counter {None,0,1,2^31,2^32-1} x all 16 subsets of {UP,UV,BE,BS} (through set_flags and by assigning the public field) x attested data {absent, AAGUID 0/pattern x id length 0,1,16,64,255,256,1023,65535 and 4095,4096,4097,8192,12288,61440, and for 16-byte ids the key shapes compressed EC2 (y as sign bit), OKP, EC2 with key id and an unregistered parameter, EC2 with its members in the order y, x, crv} x extensions {none, hmac-secret true, hmac-secret-mc bytes, assertion hmac-secret}; each encoding is parsed by an independent byte-level parser, round-tripped through from_slice and through serde (one CBOR byte string holding to_vec()), every strict prefix decoded (must be rejected) and every position replaced by 16 boundary values (all 256 for the flags byte and for a representative subset of encodings); thorough adds all two-byte corruptions of the two shortest encodings. plus every sequence of up to 3 (4 thorough) setter calls out of 11 (flags, attested data, make/assert extension outputs incl. None and empty) after the constructor: AT/ED set exactly when the section is present, own encoding decodes to an equal value. Every case is a distinct encoding",
        true,
        stats,
    );
    run.assume("AT and ED are structural (owned by the section setters), so only subsets of {UP,UV,BE,BS} are assigned; ids of 65535 bytes are built for one RP/counter slice only");
    Ok(run)
}

pub fn replay(_ctx: &Ctx, case: &Value) -> Result<Vec<Finding>, String> {
    if let Some(l) = case.get("overlong_id").and_then(|v| v.as_u64()) {
        let (x, y) = xy();
        let key = coset::CoseKeyBuilder::new_ec2_pub_key(iana::EllipticCurve::P_256, x, y).algorithm(iana::Algorithm::ES256).build();
        return Ok(match par::catch(|| AttestedCredentialData::new(Aaguid::new_empty(), vec![0u8; l as usize], key).is_ok()) {
            Ok(false) => vec![],
            Ok(true) => vec![Finding::new("kind=overlong-credential-id-accepted", "accepted", case.clone())],
            Err(p) => vec![Finding::new("kind=panic-in-constructor", p, case.clone())],
        });
    }
    if let Some(a) = case.get("after_failed_write") {
        return Ok(after_failed_write(a["first"].as_u64().unwrap_or(0) as usize, a["second"].as_u64().unwrap_or(0) as usize, a["n"].as_u64().unwrap_or(0) as usize, a["json"].as_bool().unwrap_or(false)).into_iter().map(|(k, d)| Finding::new(format!("kind={k}"), d, case.clone())).collect());
    }
    if let Some(q) = case.get("setters") {
        let q: Vec<Setter> = serde_json::from_value(q.clone()).map_err(|e| format!("bad C12 setter sequence: {e}"))?;
        return Ok(eval_setters(&q));
    }
    let c: Case = serde_json::from_value(case.clone()).map_err(|e| format!("bad C12 case: {e}"))?;
    Ok(eval(&c).0)
}

/// seed encodings for C15
pub fn encode_public(c: &Case) -> Result<Vec<u8>, String> {
    Ok(build(c)?.value.to_vec())
}
