//! C17 – U2F registration and authentication messages are well-formed and verifiable.
use crate::core::exec::block_on;
use crate::core::graph::{self, Sys};
use crate::core::par;
use crate::core::report::*;
use crate::drivers::*;
use crate::oracles::{b64, rp};
use passkey_authenticator::{Authenticator, MemoryStore, U2fApi};
use passkey_types::ctap2::{Aaguid, Flags};
use passkey_types::u2f::{self, AuthenticationParameter, AuthenticationRequest, RegisterRequest, RequestPayload};
use serde::{Deserialize, Serialize};
use serde_json::{json, Value};
use std::sync::Arc;

fn pattern(n: u8) -> [u8; 32] {
    match n {
        0 => [0; 32],
        1 => [0xff; 32],
        2 => core::array::from_fn(|i| i as u8),
        _ => core::array::from_fn(|i| 0xA5 ^ (i as u8).wrapping_mul(11)),
    }
}
fn handle(len: usize, seed: u8) -> Vec<u8> {
    (0..len).map(|i| seed.wrapping_add(i as u8)).collect()
}

#[derive(Clone, Debug, Serialize, Deserialize, PartialEq, Eq, Hash)]
pub struct Case {
    pub challenge: u8,
    pub application: u8,
    pub handle_len: usize,
    pub counter: u32,
    pub presence: bool,
    pub memory_store: bool,
    /// control byte of the authentication request: 0 = 0x03 (enforce), else 0x07 / 0x08
    #[serde(default)]
    pub p1: u8,
    /// further bits of the presence-flags byte handed to authenticate (e.g. 0x04 = UV)
    #[serde(default)]
    pub flags: u8,
    /// run on the shipped single-slot store Arc<Mutex<Option<Passkey>>>
    #[serde(default)]
    pub option_store: bool,
    /// CTAP2 assertions made with the U2F-registered credential (RP = base64url(application)) before
    /// the U2F authentication: the stored counter is then ahead of the counter the U2F caller supplies
    #[serde(default)]
    pub ctap2_assertions: u8,
    /// the contract store hands credentials back with the members of their COSE key in reverse order
    #[serde(default)]
    pub reordered_keys: bool,
    /// challenge / application given as bytes (hex) instead of a pattern number: 32-byte constants
    /// of the library sources
    #[serde(default)]
    pub challenge_bytes: Option<String>,
    #[serde(default)]
    pub application_bytes: Option<String>,
    /// the token's user-verification capability: 0 configured, 1 supported but not configured, 2 none
    /// (U2F knows presence only; what the token can verify is no input of a U2F message)
    #[serde(default)]
    pub uv_cap: u8,
    /// the store files every item under the account it was saved for (drivers::KeepsUser): a U2F
    /// registration then has a user handle - the key handle - like any other item of that vault
    #[serde(default)]
    pub keeps_user: bool,
}
fn unhex32(s: &str) -> [u8; 32] {
    let mut a = [0u8; 32];
    for (i, b) in a.iter_mut().enumerate() {
        *b = u8::from_str_radix(s.get(2 * i..2 * i + 2).unwrap_or("00"), 16).unwrap_or(0);
    }
    a
}
/// 32-byte constants of the library sources: array-repeat expressions and string literals of that length
pub fn constants32() -> Vec<[u8; 32]> {
    let crates = ["passkey-types", "passkey-authenticator", "passkey-client", "passkey-transports"];
    let mut v: Vec<[u8; 32]> = crate::core::dict::array_repeat_constants(&crates).into_iter().chain(crate::core::dict::source_literals(&crates, 32)).filter(|b| b.len() == 32).map(|b| b.try_into().unwrap()).collect();
    v.sort();
    v.dedup();
    v
}

// ---- raw message oracle

/// Parse `05 || 04 x y || L || handle || cert || sig || 9000` given the (known) certificate length.
fn parse_register_raw(b: &[u8], cert_len: usize) -> Result<([u8; 32], [u8; 32], Vec<u8>, Vec<u8>), String> {
    if b.len() < 1 + 65 + 1 + 2 {
        return Err("too short".into());
    }
    if b[0] != 0x05 {
        return Err(format!("reserved byte is {:#04x}, expected 0x05", b[0]));
    }
    if b[1] != 0x04 {
        return Err(format!("public key does not start with 0x04 but {:#04x}", b[1]));
    }
    let x: [u8; 32] = b[2..34].try_into().unwrap();
    let y: [u8; 32] = b[34..66].try_into().unwrap();
    let l = b[66] as usize;
    let rest = &b[67..];
    if rest.len() < l + cert_len + 2 {
        return Err("key handle length byte exceeds the message".into());
    }
    let h = rest[..l].to_vec();
    let sig = rest[l + cert_len..rest.len() - 2].to_vec();
    if rest[rest.len() - 2..] != [0x90, 0x00] {
        return Err(format!("status word {:02x}{:02x}", rest[rest.len() - 2], rest[rest.len() - 1]));
    }
    Ok((x, y, h, sig))
}

fn check_register(req_ch: &[u8; 32], req_app: &[u8; 32], h: &[u8], resp_fields: (&[u8; 32], &[u8; 32], &[u8], &[u8], &[u8]), encoded: &[u8]) -> Vec<(&'static str, String)> {
    let (x, y, kh, cert, sig) = resp_fields;
    let mut v = vec![];
    if kh != h {
        v.push(("key-handle-differs", "response key handle is not the one given".into()));
    }
    let mut msg = vec![0x00];
    msg.extend_from_slice(req_app);
    msg.extend_from_slice(req_ch);
    msg.extend_from_slice(h);
    msg.extend(rp::sec1(x, y));
    match rp::verifying_key(x, y) {
        Err(e) => v.push(("public-key-not-on-curve", e)),
        Ok(k) => {
            if let Err(e) = rp::ecdsa_verify(&k, &msg, sig) {
                v.push(("registration-signature", format!("{e} over 00 || application || challenge || key handle || public key")));
            }
        }
    }
    match parse_register_raw(encoded, cert.len()) {
        Err(e) => v.push(("register-encoding", e)),
        Ok((ex, ey, eh, esig)) => {
            if &ex != x || &ey != y || eh != h || esig != sig {
                v.push(("register-encoding", "fields of the raw message are not the response's fields in the specified order".into()));
            }
        }
    }
    v
}

fn check_authenticate(ch: &[u8; 32], app: &[u8; 32], counter: u32, presence: u8, key: &([u8; 32], [u8; 32]), sig: &[u8], encoded: &[u8]) -> Vec<(&'static str, String)> {
    let mut v = vec![];
    let mut msg = app.to_vec();
    msg.push(presence);
    msg.extend_from_slice(&counter.to_be_bytes());
    msg.extend_from_slice(ch);
    match rp::verifying_key(&key.0, &key.1) {
        Err(e) => v.push(("registered-key-invalid", e)),
        Ok(k) => {
            if let Err(e) = rp::ecdsa_verify(&k, &msg, sig) {
                v.push(("authentication-signature", format!("{e} over application || presence || counter(BE) || challenge under the registered key")));
            }
        }
    }
    let mut want = vec![presence];
    want.extend_from_slice(&counter.to_be_bytes());
    want.extend_from_slice(sig);
    want.extend_from_slice(&[0x90, 0x00]);
    if encoded != want.as_slice() {
        v.push(("authenticate-encoding", "raw message is not presence || counter(BE) || signature || 9000".into()));
    }
    v
}

type AuthOut = Result<(Vec<u8>, Vec<u8>), ()>; // (signature, encoded)

fn reg<S>(auth: &mut Authenticator<S, ScriptedUv>, ch: [u8; 32], app: [u8; 32], h: &[u8]) -> Result<Result<Vec<(&'static str, String)>, ()>, String>
where
    S: passkey_authenticator::CredentialStore<PasskeyItem = passkey_types::Passkey> + Send + Sync,
{
    par::catch(|| match block_on(U2fApi::register(auth, RegisterRequest { challenge: ch, application: app }, h)) {
        Err(_) => Err(()),
        Ok(r) => {
            let (x, y) = (r.public_key.x, r.public_key.y);
            let (kh, cert, sig) = (r.key_handle.clone(), r.attestation_certificate.clone(), r.signature.clone());
            let enc = r.encode();
            Ok(check_register(&ch, &app, h, (&x, &y, &kh, &cert, &sig), &enc))
        }
    })
}
fn authn<S>(auth: &Authenticator<S, ScriptedUv>, ch: [u8; 32], app: [u8; 32], h: &[u8], counter: u32, presence: bool) -> Result<AuthOut, String>
where
    S: passkey_authenticator::CredentialStore<PasskeyItem = passkey_types::Passkey> + Send + Sync,
{
    authn_p(auth, ch, app, h, counter, u8::from(presence), 0)
}
fn authn_p<S>(auth: &Authenticator<S, ScriptedUv>, ch: [u8; 32], app: [u8; 32], h: &[u8], counter: u32, flags: u8, p1: u8) -> Result<AuthOut, String>
where
    S: passkey_authenticator::CredentialStore<PasskeyItem = passkey_types::Passkey> + Send + Sync,
{
    par::catch(|| {
        let parameter = match p1 {
            7 => AuthenticationParameter::CheckOnly,
            8 => AuthenticationParameter::DontEnforceUserPresence,
            _ => AuthenticationParameter::EnforceUserPresence,
        };
        let req = AuthenticationRequest { parameter, challenge: ch, application: app, key_handle: h.to_vec() };
        match block_on(U2fApi::authenticate(auth, req, counter, Flags::from_bits_truncate(flags))) {
            Err(_) => Err(()),
            Ok(r) => {
                let sig = r.signature.clone();
                let (c, p) = (r.counter, u8::from(r.user_presence));
                let enc = r.encode();
                if c != counter || p != flags {
                    return Ok((vec![], vec![]));
                }
                Ok((sig, enc))
            }
        }
    })
}

pub fn eval(c: &Case) -> (Vec<Finding>, String) {
    let case = serde_json::to_value(c).unwrap();
    let mut fs = vec![];
    let (ch, app) = (c.challenge_bytes.as_deref().map(unhex32).unwrap_or_else(|| pattern(c.challenge)), c.application_bytes.as_deref().map(unhex32).unwrap_or_else(|| pattern(c.application)));
    let h = handle(c.handle_len, 0x30);
    let store_name = if c.option_store { "Option" } else if c.memory_store { "MemoryStore" } else { "RefStore" };
    let mut bad = |kind: &str, d: String| fs.push(Finding::new(format!("kind={kind}"), format!("{d}; store={store_name}"), case.clone()));
    macro_rules! body {
        ($store:expr, $recs:expr) => {{
            let mut auth = Authenticator::new(Aaguid::new_empty(), $store, ScriptedUv::consenting(Log::new()).cap(match c.uv_cap {
                1 => Some(false),
                2 => None,
                _ => Some(true),
            }));
            match reg(&mut auth, ch, app, &h) {
                Err(p) => bad("panic-in-register", p),
                Ok(Err(())) => bad("registration-fails", "U2F registration failed on a working store".into()),
                Ok(Ok(problems)) => {
                    for (k, d) in problems {
                        bad(k, d);
                    }
                    let recs: Vec<Rec> = $recs;
                    let want_rp = b64::url_nopad(&app);
                    match recs.iter().find(|r| r.id == h) {
                        None => bad("credential-not-stored", "no stored credential has the key handle as id".into()),
                        Some(r) => {
                            if r.rp != want_rp {
                                bad("stored-application", format!("stored RP id {:?}, expected base64url(application) {want_rp:?}", r.rp));
                            }
                            let key = r.d.as_ref().and_then(|d| rp::public_of(d).ok());
                            match key {
                                None => bad("stored-key-invalid", "stored credential has no usable private key".into()),
                                Some((x, y)) => {
                                    let key: ([u8; 32], [u8; 32]) = (x.try_into().unwrap(), y.try_into().unwrap());
                                    for k in 0..c.ctap2_assertions {
                                        let req = ga_request(&want_rp, Some(vec![h.clone()]), false, true, true, false, None);
                                        if par::catch(|| block_on(auth.get_assertion(req))).map(|r| r.is_ok()) != Ok(true) {
                                            bad("ctap2-assertion-with-u2f-credential-fails", format!("CTAP2 assertion #{k} with the U2F-registered credential failed"));
                                        }
                                    }
                                    // authentication with the same handle and application
                                    let ch2 = pattern(c.challenge ^ 1);
                                    let fl = u8::from(c.presence) | c.flags;
                                    match authn_p(&auth, ch2, app, &h, c.counter, fl, c.p1) {
                                        Err(p) => bad("panic-in-authenticate", p),
                                        Ok(Err(())) => bad("authentication-fails", "authentication with the registered key handle and application failed".into()),
                                        Ok(Ok((sig, enc))) => {
                                            if sig.is_empty() {
                                                bad("counter-or-presence-not-echoed", "response counter/presence differ from the arguments".into());
                                            }
                                            for (k, d) in check_authenticate(&ch2, &app, c.counter, fl, &key, &sig, &enc) {
                                                bad(k, d);
                                            }
                                        }
                                    }
                                    // unknown key handles fail: the registered one with one more byte, with its
                                    // last byte removed, with its last byte changed, and the empty handle
                                    let mut unknowns: Vec<Vec<u8>> = vec![[h.clone(), vec![0x99]].concat()];
                                    if !h.is_empty() {
                                        unknowns.push(h[..h.len() - 1].to_vec());
                                        let mut flipped = h.clone();
                                        *flipped.last_mut().unwrap() ^= 0x01;
                                        unknowns.push(flipped);
                                        unknowns.push(vec![]);
                                    }
                                    for unknown in unknowns {
                                        match authn_p(&auth, ch2, app, &unknown, c.counter, fl, c.p1) {
                                            Err(p) => bad("panic-in-authenticate", p),
                                            Ok(Ok(_)) => bad("unknown-key-handle-accepted", format!("authentication with an unknown key handle ({} bytes, registered {} bytes) succeeded", unknown.len(), h.len())),
                                            Ok(Err(())) => {}
                                        }
                                    }
                                }
                            }
                        }
                    }
                }
            }
        }};
    }
    if c.keeps_user {
        let shared = Shared::new(RefStore::new());
        body!(KeepsUser { inner: shared.clone() }, shared.recs());
    } else if c.reordered_keys {
        let shared = Shared::new(RefStore::new());
        body!(ReorderKeys { inner: shared.clone() }, shared.recs());
    } else if c.option_store {
        let shared: Arc<tokio::sync::Mutex<Option<passkey_types::Passkey>>> = Arc::new(tokio::sync::Mutex::new(None));
        body!(shared.clone(), shared.recs());
    } else if c.memory_store {
        let shared = Arc::new(tokio::sync::Mutex::new(MemoryStore::new()));
        body!(shared.clone(), shared.recs());
    } else {
        let shared = Shared::new(RefStore::new());
        body!(shared.clone(), shared.recs());
    }
    (fs, "register+authenticate".into())
}

// ---- request frames

fn frame(ins: u8, p1: u8, data: &[u8], le: bool) -> Vec<u8> {
    let mut f = vec![0x00, ins, p1, 0x00, 0x00, (data.len() >> 8) as u8, data.len() as u8];
    f.extend_from_slice(data);
    if le {
        f.extend_from_slice(&[0x00, 0x00]);
    }
    f
}
fn frames(st: &mut Stats) {
    for le in [false, true] {
        for (c, a) in [(0u8, 1u8), (2, 3), (1, 1)] {
            let (ch, app) = (pattern(c), pattern(a));
            let mut data = ch.to_vec();
            data.extend_from_slice(&app);
            let f = frame(0x01, 0x00, &data, le);
            let case = json!({"frame": f});
            st.case(&f, true, "frame:register");
            match par::catch(|| u2f::Request::try_from(f.as_slice())) {
                Err(p) => st.finding(Finding::new("frame/kind=panic", p, case)),
                Ok(Ok(u2f::Request { data: RequestPayload::Register(r), .. })) if r.challenge == ch && r.application == app => {}
                Ok(other) => st.finding(Finding::new("frame/kind=register-request-misparsed", format!("{other:?}"), case)),
            }
            for p1 in [0x03u8, 0x07, 0x08] {
                for hl in 0..=255usize {
                    let h = handle(hl, 0x77);
                    let mut data = ch.to_vec();
                    data.extend_from_slice(&app);
                    data.push(hl as u8);
                    data.extend_from_slice(&h);
                    let f = frame(0x02, p1, &data, le);
                    st.case(&f, true, "frame:authenticate");
                    let case = json!({"frame": f});
                    match par::catch(|| u2f::Request::try_from(f.as_slice())) {
                        Err(p) => st.finding(Finding::new("frame/kind=panic", p, case)),
                        Ok(Ok(u2f::Request { data: RequestPayload::Authenticate(r), p1: pp, .. })) if r.challenge == ch && r.application == app && r.key_handle == h && pp == p1 && format!("{:?}", r.parameter) == ["", "", "", "EnforceUserPresence", "", "", "", "CheckOnly", "DontEnforceUserPresence"][p1 as usize] => {}
                        Ok(other) => st.finding(Finding::new("frame/kind=authenticate-request-misparsed", format!("{:?}", other.map(|r| (r.p1, r.data_len))), case)),
                    }
                }
            }
        }
        let f = frame(0x03, 0x00, &[], le);
        let case = json!({"frame": f});
        st.case(&f, true, "frame:version");
        match par::catch(|| u2f::Request::try_from(f.as_slice())) {
            Err(p) => st.finding(Finding::new("frame/kind=panic", p, case)),
            Ok(Ok(u2f::Request { data: RequestPayload::Version, .. })) => {}
            Ok(other) => st.finding(Finding::new("frame/kind=version-request-misparsed", format!("{other:?}"), case)),
        }
    }
    let v = u2f::Version.encode();
    st.case("version", true, "version-response");
    if v != b"U2F_V2\x90\x00" {
        st.finding(Finding::new("kind=version-encoding", format!("{v:?}"), json!({"version": true})));
    }
}

// ---- response structs encoded directly (fields the authenticator never produces, e.g. a certificate)

fn direct_encodings(st: &mut Stats) {
    for cert_len in [0usize, 1, 32, 300] {
        for h_len in [0usize, 1, 64, 255] {
            for sig_len in [0usize, 64, 70, 72] {
                let case = json!({"direct_register_response": {"cert_len": cert_len, "handle_len": h_len, "sig_len": sig_len}});
                st.case(&case.to_string(), true, "direct:register-response");
                let (x, y) = (core::array::from_fn::<u8, 32, _>(|i| i as u8 + 1), core::array::from_fn::<u8, 32, _>(|i| 0xF0 ^ i as u8));
                let cert: Vec<u8> = (0..cert_len).map(|i| 0x30 ^ i as u8).collect();
                let kh = handle(h_len, 0x51);
                let sig: Vec<u8> = (0..sig_len).map(|i| 0xC0 ^ i as u8).collect();
                let r = par::catch(|| u2f::RegisterResponse { public_key: u2f::PublicKey { x, y }, key_handle: kh.clone(), attestation_certificate: cert.clone(), signature: sig.clone() }.encode());
                match r {
                    Err(p) => st.finding(Finding::new("kind=panic-in-encode", p, case)),
                    Ok(enc) => {
                        let mut want = vec![0x05, 0x04];
                        want.extend(x);
                        want.extend(y);
                        want.push(h_len as u8);
                        want.extend(&kh);
                        want.extend(&cert);
                        want.extend(&sig);
                        want.extend([0x90, 0x00]);
                        if enc != want {
                            st.finding(Finding::new("kind=register-encoding", format!("RegisterResponse with a {cert_len}-byte certificate is not encoded as 05 || public key || L || key handle || certificate || signature || 9000"), case));
                        }
                    }
                }
            }
        }
    }
    for counter in [0u32, 1, 0x0102_0304, u32::MAX] {
        for presence in [0u8, 1] {
            for sig_len in [0usize, 8, 72] {
                let case = json!({"direct_authentication_response": {"counter": counter, "presence": presence, "sig_len": sig_len}});
                st.case(&case.to_string(), true, "direct:authentication-response");
                let sig: Vec<u8> = (0..sig_len).map(|i| 0xA0 ^ i as u8).collect();
                let r = par::catch(|| u2f::AuthenticationResponse { user_presence: Flags::from_bits_truncate(presence), counter, signature: sig.clone() }.encode());
                let mut want = vec![presence];
                want.extend(counter.to_be_bytes());
                want.extend(&sig);
                want.extend([0x90, 0x00]);
                match r {
                    Err(p) => st.finding(Finding::new("kind=panic-in-encode", p, case)),
                    Ok(enc) if enc != want => st.finding(Finding::new("kind=authenticate-encoding", "AuthenticationResponse is not encoded as presence || counter(BE) || signature || 9000".to_string(), case)),
                    Ok(_) => {}
                }
            }
        }
    }
}

// ---- sequences

#[derive(Clone, Debug, PartialEq, Serialize, Deserialize)]
pub enum Act {
    Register { h: u8, app: u8 },
    Authenticate { h: u8, app: u8 },
}
#[derive(Clone)]
pub struct Seq {
    pub depth: usize,
    /// 0 contract store, 1 Arc<Mutex<MemoryStore>>, 2 Arc<Mutex<Option<Passkey>>> (single slot)
    pub kind: u8,
    /// histories that reach the same store content are merged only beyond this depth: up to it the
    /// complete history tree is explored, so state the authenticator itself might keep between
    /// calls (a cache, a flag) cannot hide behind an equal store
    pub tree_depth: usize,
}
const SEQ_STORES: [&str; 3] = ["RefStore", "MemoryStore", "Option"];
fn seq_run(kind: u8, hist: &[Act]) -> (Vec<(String, String)>, Vec<(u8, u8)>, String) {
    match kind {
        1 => {
            let mem = Arc::new(tokio::sync::Mutex::new(MemoryStore::new()));
            seq_run_on(mem.clone(), &|| mem.recs(), false, hist)
        }
        2 => {
            let slot: Arc<tokio::sync::Mutex<Option<passkey_types::Passkey>>> = Arc::new(tokio::sync::Mutex::new(None));
            seq_run_on(slot.clone(), &|| slot.recs(), true, hist)
        }
        _ => {
            let rs = Shared::new(RefStore::new());
            seq_run_on(rs.clone(), &|| rs.recs(), false, hist)
        }
    }
}
/// One authenticator instance lives through the whole history (state it keeps between calls is
/// part of what is explored).  `single_slot`: the store holds only the credential registered last.
fn seq_run_on<S>(store: S, recs: &dyn Fn() -> Vec<Rec>, single_slot: bool, hist: &[Act]) -> (Vec<(String, String)>, Vec<(u8, u8)>, String)
where
    S: passkey_authenticator::CredentialStore<PasskeyItem = passkey_types::Passkey> + Send + Sync,
{
    // returns findings of the last step, the model (registered (h, app) pairs), outcome
    let mut model: Vec<(u8, u8, Option<([u8; 32], [u8; 32])>)> = vec![];
    let mut fs = vec![];
    let mut outcome = String::new();
    let mut auth = Authenticator::new(Aaguid::new_empty(), store, ScriptedUv::consenting(Log::new()));
    for (i, a) in hist.iter().enumerate() {
        let last = i + 1 == hist.len();
        let mut step: Vec<(String, String)> = vec![];
        match a {
            Act::Register { h, app } => {
                let (hh, aa) = (handle(8 + *h as usize, *h), pattern(*app));
                match reg(&mut auth, pattern(2), aa, &hh) {
                    Err(p) => step.push(("panic-in-register".into(), p)),
                    Ok(Err(())) => step.push(("registration-fails".into(), "failed".into())),
                    Ok(Ok(pr)) => {
                        for (k, d) in pr {
                            step.push((k.to_string(), d));
                        }
                        let key = recs().iter().find(|r| r.id == hh && r.rp == b64::url_nopad(&aa)).and_then(|r| r.d.as_ref()).and_then(|d| rp::public_of(d).ok()).map(|(x, y)| (x.try_into().unwrap(), y.try_into().unwrap()));
                        if key.is_none() {
                            step.push(("credential-not-stored".into(), "registered credential not found under (key handle, application)".into()));
                        }
                        // the stores are keyed by credential id (= key handle): registering a handle
                        // again, under whichever application, replaces the earlier record; the
                        // single-slot store keeps nothing else
                        if single_slot {
                            model.clear();
                        }
                        model.retain(|(mh, _, _)| mh != h);
                        model.push((*h, *app, key));
                        outcome = "register:ok".into();
                    }
                }
            }
            Act::Authenticate { h, app } => {
                let (hh, aa) = (handle(8 + *h as usize, *h), pattern(*app));
                let r = authn(&auth, pattern(3), aa, &hh, 7, true);
                let known_exact = model.iter().find(|(mh, ma, _)| mh == h && ma == app);
                let known_handle = model.iter().any(|(mh, _, _)| mh == h);
                match r {
                    Err(p) => step.push(("panic-in-authenticate".into(), p)),
                    Ok(Err(())) => {
                        outcome = "authenticate:err".into();
                        if known_exact.is_some() {
                            step.push(("authentication-fails".into(), "a registered (key handle, application) pair failed to authenticate".into()));
                        }
                    }
                    Ok(Ok((sig, enc))) => {
                        if !known_handle {
                            step.push(("unknown-key-handle-accepted".into(), "authentication with a key handle that is not (or no longer) registered succeeded".into()));
                            outcome = "authenticate:ok-unknown".into();
                        } else if let Some((_, _, Some(key))) = known_exact {
                            outcome = "authenticate:ok".into();
                            for (k, d) in check_authenticate(&pattern(3), &aa, 7, 1, key, &sig, &enc) {
                                step.push((k.to_string(), d));
                            }
                        } else {
                            // known handle under another application: recorded, not judged (statement is silent)
                            outcome = "authenticate:ok-other-application(not judged)".into();
                        }
                    }
                }
            }
        }
        if last {
            fs = step;
        }
    }
    (fs, model.iter().map(|m| (m.0, m.1)).collect(), outcome)
}
impl Sys for Seq {
    type Act = Act;
    type Snap = (Vec<(u8, u8)>, String);
    fn inits(&self) -> usize {
        1
    }
    fn init_snap(&self, _: usize) -> Self::Snap {
        (vec![], String::new())
    }
    fn actions(&self, _: usize, _: &Self::Snap, _: usize) -> Vec<Act> {
        let mut v = vec![];
        for h in 0..2 {
            for app in 0..2 {
                v.push(Act::Register { h, app });
                v.push(Act::Authenticate { h, app });
            }
        }
        v.push(Act::Authenticate { h: 5, app: 0 });
        v
    }
    fn step(&self, _init: usize, hist: &[Act], act: &Act, st: &mut Stats) -> Option<Self::Snap> {
        let mut full = hist.to_vec();
        full.push(act.clone());
        let (fs, model, outcome) = seq_run(self.kind, &full);
        let case = json!({"kind": self.kind, "hist": full});
        st.case(&format!("{}/{full:?}", self.kind), true, &format!("seq:{outcome}"));
        for (k, d) in fs {
            st.finding(Finding::new(format!("kind={k}"), format!("{d}; sequence on {}", SEQ_STORES[self.kind as usize % 3]), case.clone()));
        }
        let mut m = model;
        m.sort();
        Some((m, if full.len() <= self.tree_depth { format!("{full:?}") } else { String::new() }))
    }
    fn max_depth(&self) -> usize {
        self.depth
    }
}

pub fn cases(tier: Tier) -> Vec<Case> {
    let mut v = vec![];
    let counters = [0u32, 1, 0x8000_0000, 0xFFFF_FFFF];
    for hl in 0..=255usize {
        let k = hl % 4;
        v.push(Case { challenge: k as u8, application: ((k + 1) % 4) as u8, handle_len: hl, counter: counters[k], presence: hl % 2 == 0, memory_store: hl % 3 == 0, p1: [0u8, 7, 8][hl % 3], flags: [0u8, 4][(hl / 3) % 2], option_store: hl % 5 == 1, ctap2_assertions: [0u8, 0, 3][hl % 3], reordered_keys: hl % 7 == 2, challenge_bytes: None, application_bytes: None, uv_cap: 0, keeps_user: false });
        if tier == Tier::Thorough {
            for memory_store in [false, true] {
                for presence in [false, true] {
                    v.push(Case { challenge: ((k + 2) % 4) as u8, application: ((k + 2) % 4) as u8, handle_len: hl, counter: counters[(k + 1) % 4], presence, memory_store, p1: [0u8, 7, 8][(hl / 2) % 3], flags: 0, option_store: false, ctap2_assertions: 0, reordered_keys: false, challenge_bytes: None, application_bytes: None, uv_cap: 0, keeps_user: false });
                }
            }
        }
    }
    for challenge in 0..4u8 {
        for application in 0..4u8 {
            for counter in counters {
                for presence in [false, true] {
                    for memory_store in [false, true] {
                        for p1 in [0u8, 7, 8] {
                            for flags in [0u8, 4] {
                                v.push(Case { challenge, application, handle_len: 32, counter, presence, memory_store, p1, flags, option_store: false, ctap2_assertions: 0, reordered_keys: false, challenge_bytes: None, application_bytes: None, uv_cap: 0, keeps_user: false });
                                if !memory_store {
                                    v.push(Case { challenge, application, handle_len: 32, counter, presence, memory_store, p1, flags, option_store: true, ctap2_assertions: 0, reordered_keys: false, challenge_bytes: None, application_bytes: None, uv_cap: 0, keeps_user: false });
                                }
                                if flags == 0 && p1 == 0 {
                                    v.push(Case { challenge, application, handle_len: 32, counter, presence, memory_store, p1, flags, option_store: false, ctap2_assertions: 3, reordered_keys: false, challenge_bytes: None, application_bytes: None, uv_cap: 0, keeps_user: false });
                                    if !memory_store {
                                        v.push(Case { challenge, application, handle_len: 32, counter, presence, memory_store, p1, flags, option_store: false, ctap2_assertions: 3, reordered_keys: true, challenge_bytes: None, application_bytes: None, uv_cap: 0, keeps_user: false });
                                    }
                                }
                            }
                        }
                    }
                }
            }
        }
    }
    // tokens without (configured) user verification
    let more: Vec<Case> = v.iter().filter(|c| c.handle_len == 32 && c.challenge < 2 && c.application < 2 && c.counter <= 1 && c.ctap2_assertions == 0 && !c.reordered_keys).flat_map(|c| [Case { uv_cap: 1, ..c.clone() }, Case { uv_cap: 2, ..c.clone() }]).collect();
    v.extend(more);
    // an account vault as store: every key-handle length, and the control-byte / flag / CTAP2 products at 32 bytes
    let vault: Vec<Case> = v.iter().filter(|c| !c.memory_store && !c.option_store && !c.reordered_keys && c.uv_cap == 0 && (c.handle_len != 32 || (c.challenge < 2 && c.application < 2 && c.counter <= 1))).map(|c| Case { keeps_user: true, ..c.clone() }).collect();
    v.extend(vault);
    // 32-byte constants of the library sources as application and challenge: every ordered pair of
    // them, and each next to a pattern
    let consts = constants32();
    let hx = |b: &[u8; 32]| hex(b);
    for (i, a) in consts.iter().enumerate() {
        for (j, b) in consts.iter().enumerate() {
            for memory_store in [false, true] {
                v.push(Case { challenge: (j % 4) as u8, application: (i % 4) as u8, handle_len: 32, counter: 1, presence: true, memory_store, p1: 0, flags: 0, option_store: false, ctap2_assertions: 0, reordered_keys: false, challenge_bytes: Some(hx(b)), application_bytes: Some(hx(a)), uv_cap: 0, keeps_user: false });
            }
        }
        for other in 0..4u8 {
            v.push(Case { challenge: other, application: 0, handle_len: 32, counter: 1, presence: true, memory_store: false, p1: 0, flags: 0, option_store: false, ctap2_assertions: 0, reordered_keys: false, challenge_bytes: None, application_bytes: Some(hx(a)), uv_cap: 0, keeps_user: false });
            v.push(Case { challenge: 0, application: other, handle_len: 32, counter: 1, presence: true, memory_store: false, p1: 0, flags: 0, option_store: false, ctap2_assertions: 0, reordered_keys: false, challenge_bytes: Some(hx(a)), application_bytes: None, uv_cap: 0, keeps_user: false });
        }
    }
    v.sort_by_key(|c| serde_json::to_string(c).unwrap());
    v.dedup();
    v
}

pub fn run(ctx: &Ctx) -> Result<Run, String> {
    let cs = cases(ctx.tier);
    let mut stats = par::sweep_cases(&cs, ctx.threads, |c, st| {
        let (fs, o) = eval(c);
        st.case(c, true, &o);
        st.findings_from(fs);
    });
    for c in cs.iter().step_by(cs.len() / 3 + 1) {
        stats.samples.push(serde_json::to_value(c).unwrap());
    }
    frames(&mut stats);
    direct_encodings(&mut stats);
    super::sigshape::u2f_shapes(ctx.tier, &mut stats);
    stats.case(&"after-conversion-panic", true, "after-user-code-panic");
    for (k, d) in super::vault::after_conversion_panic(0) {
        stats.finding(Finding::new(format!("after-panic/kind={k}"), d, json!({"after_conversion_panic": 0})));
    }
    let depth = ctx.tier.pick(3, 6);
    let mut states = 0;
    let mut transitions = 0;
    for kind in 0..3u8 {
        // the single-slot store needs one more step for "register A, use A, register B, use A"
        let g = graph::bfs(&Seq { depth: if kind == 2 { depth + 1 } else { depth }, kind, tree_depth: 4 }, ctx.threads);
        states += g.states;
        transitions += g.transitions;
        stats.merge(g.stats);
    }
    {
        use super::inst::{self, IOp};
        let alphabet = [IOp::U2fRegister { h: 0 }, IOp::U2fRegister { h: 1 }, IOp::U2fAuthenticate { h: 0 }, IOp::U2fAuthenticate { h: 1 }, IOp::Get { who: 0, prf: false, silent: false }, IOp::Make { rk: true, prf: false }];
        let st = inst::sweep(&alphabet, ctx.tier.pick(4, 5), &[0, 1, 2], ctx.threads, "instance");
        transitions += st.evaluations;
        stats.count("instance_differential_histories", st.evaluations);
        stats.merge(inst::repeat_sweep(&[IOp::U2fRegister { h: 0 }, IOp::U2fAuthenticate { h: 0 }, IOp::U2fAuthenticate { h: 1 }, IOp::Get { who: 0, prf: false, silent: false }], &[8, 9, 17, 33], &[0, 1, 2], ctx.threads, "instance"));
        stats.merge(st);
    }
    let n = cs.len() as u64;
    let mut run = Run::from_stats(
        "model_checking",
        "a store with its own item type whose conversion to a Passkey panics once during an authentication (unwind caught): the next authentication on the same authenticator succeeds; every 32-byte constant of the library sources (array-repeat expressions, string literals) as application and as challenge, all ordered pairs; signature shapes: for 3 fixed stored keys x 2 applications the smallest counter whose RFC 6979 signature falls into each DER shape class (r padded / not / shorter than 32 bytes x s full / shorter; quick 5 classes, thorough all 6) is searched with the harness's own signer and authenticated over three stores - success, byte-equality with the predicted signature, verification and raw encoding demanded; single register+authenticate+unknown-handle runs for every key-handle length 0..255 and the product challenge/application patterns(4x4, incl. equal) x counter {0,1,2^31,2^32-1} x presence x control byte {0x03, 0x07, 0x08} x further flag bits {none, UV} x user-verification capability of the token {configured, unconfigured, none} x {0, 3} CTAP2 assertions with the credential before the U2F authentication x {RefStore, Arc<Mutex<MemoryStore>>, Arc<Mutex<Option<Passkey>>>, a store that returns the COSE key members in reverse order, an account vault that keeps the user entity of every save as the item's user handle} (unknown handles: the registered one plus a byte, minus a byte, with a changed byte, and the empty handle); response structs with certificate/handle/signature lengths the authenticator itself never produces encoded directly; every well-formed extended-length request frame (register, authenticate with P1 in {3,7,8} and every handle length, version; with and without trailing Le) parsed back; BFS over sequences of register(h in 2, app in 2) / authenticate(h in 2 + unknown, app in 2) on ONE authenticator instance over the contract store, Arc<Mutex<MemoryStore>> and the single-slot Arc<Mutex<Option<Passkey>>> (a handle whose credential was replaced is unknown again; one step deeper); the complete history tree to depth 4, histories merged on equal store content beyond that. Signatures are verified with p256 over the byte strings of the U2F raw-message specification; raw encodings are parsed by the harness",
        true,
        stats,
    );
    run.graph(states + n, transitions + n, transitions + n);
    run.set("sequence_states", json!(states));
    run.set("sequence_transitions", json!(transitions));
    run.assume("registration signatures may be raw r||s or DER (the statement does not fix the encoding); authentication with a known handle under another application is recorded but not judged");
    Ok(run)
}

pub fn replay(_ctx: &Ctx, case: &Value) -> Result<Vec<Finding>, String> {
    if let Some(api) = case.get("after_conversion_panic").and_then(|a| a.as_u64()) {
        return Ok(super::vault::after_conversion_panic(api as u8).into_iter().map(|(k, d)| Finding::new(format!("after-panic/kind={k}"), d, case.clone())).collect());
    }
    if let Some(fs) = super::sigshape::replay(case) {
        return Ok(fs);
    }
    if let Some(fs) = super::inst::replay(case, "instance") {
        return Ok(fs);
    }
    if case.get("hist").is_some() {
        let hist: Vec<Act> = serde_json::from_value(case["hist"].clone()).map_err(|e| e.to_string())?;
        let kind = case["kind"].as_u64().map(|k| k as u8).unwrap_or(u8::from(case["memory"].as_bool().unwrap_or(false)));
        let (fs, _, _) = seq_run(kind, &hist);
        return Ok(fs.into_iter().map(|(k, d)| Finding::new(format!("kind={k}"), d, case.clone())).collect());
    }
    if case.get("direct_register_response").is_some() || case.get("direct_authentication_response").is_some() {
        let mut st = Stats::new();
        direct_encodings(&mut st);
        return Ok(st.findings.into_values().map(|x| x.0).filter(|f| f.case == *case).collect());
    }
    if case.get("frame").is_some() || case.get("version").is_some() {
        let mut st = Stats::new();
        frames(&mut st);
        let want = case.get("frame").cloned();
        return Ok(st.findings.into_values().map(|x| x.0).filter(|f| want.is_none() || f.case.get("frame") == want.as_ref() || f.key.starts_with("frame/")).collect());
    }
    let c: Case = serde_json::from_value(case.clone()).map_err(|e| format!("bad C17 case: {e}"))?;
    Ok(eval(&c).0)
}
