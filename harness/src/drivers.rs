//! Harness implementations of the library's public traits: the environment of every check.
use crate::core::exec::yield_n;
use coset::{iana, CoseKey, CoseKeyBuilder};
use passkey_authenticator::{CredentialStore, DiscoverabilitySupport, StoreInfo, UserCheck, UserValidationMethod};
use passkey_types::ctap2::get_assertion::Options;
use passkey_types::ctap2::make_credential::{PublicKeyCredentialRpEntity, PublicKeyCredentialUserEntity};
use passkey_types::ctap2::{Ctap2Error, StatusCode};
use passkey_types::webauthn::PublicKeyCredentialDescriptor;
use passkey_types::{CredentialExtensions, Passkey, StoredHmacSecret};
use std::collections::BTreeMap;
use std::sync::atomic::{AtomicUsize, Ordering};
use std::sync::{Arc, Mutex};

// ------------------------------------------------------------------------------------------
// event log shared by stores and user validation

#[derive(Clone, Debug, PartialEq)]
pub enum Event {
    Find { ids: Option<Vec<Vec<u8>>>, rp: String, result: Result<Vec<Vec<u8>>, u8> },
    Save { id: Vec<u8>, rp_id: String, rp_arg: String, rk: bool, up: bool, uv: bool, has_handle: bool, counter: Option<u32>, result: Result<(), u8> },
    Update { id: Vec<u8>, counter: Option<u32>, result: Result<(), u8> },
    Info,
    CheckUser { cred: Option<Vec<u8>>, up: bool, uv: bool, result: Result<(bool, bool), u8> },
}
impl Event {
    pub fn kind(&self) -> &'static str {
        match self {
            Event::Find { .. } => "find",
            Event::Save { .. } => "save",
            Event::Update { .. } => "update",
            Event::Info => "info",
            Event::CheckUser { .. } => "check_user",
        }
    }
}
/// The event log shared by the harness's store and user-validation implementations; it also
/// carries an optional hook that `ScriptedUv` runs while the user step is pending (the world may
/// change during the prompt).
#[derive(Clone, Default)]
pub struct Log(pub Arc<Mutex<Vec<Event>>>, pub Arc<Mutex<Option<Arc<dyn Fn() + Send + Sync>>>>, pub Arc<Mutex<Option<UvOutcome>>>);
impl Log {
    pub fn new() -> Self {
        Self::default()
    }
    pub fn set_prompt_hook(&self, f: Arc<dyn Fn() + Send + Sync>) {
        *self.1.lock().unwrap() = Some(f);
    }
    /// What the scripted user answers from now on, whatever the method was built with (None = as built):
    /// lets one long-lived authenticator meet a user who denies some requests and grants others.
    pub fn set_answer(&self, o: Option<UvOutcome>) {
        *self.2.lock().unwrap() = o;
    }
    fn answer(&self) -> Option<UvOutcome> {
        *self.2.lock().unwrap()
    }
    fn run_prompt_hook(&self) {
        let h = self.1.lock().unwrap().clone();
        if let Some(h) = h {
            h();
        }
    }
    pub fn push(&self, e: Event) {
        self.0.lock().unwrap().push(e)
    }
    pub fn take(&self) -> Vec<Event> {
        std::mem::take(&mut *self.0.lock().unwrap())
    }
    pub fn snapshot(&self) -> Vec<Event> {
        self.0.lock().unwrap().clone()
    }
    pub fn len(&self) -> usize {
        self.0.lock().unwrap().len()
    }
}

pub fn sc_byte(sc: StatusCode) -> u8 {
    sc.into()
}

// ------------------------------------------------------------------------------------------
// deterministic credentials

/// Fixed P-256 private scalar number `n` (1..=200): 0x00..00 || n+1 repeated pattern, always valid.
pub fn fixed_scalar(n: u8) -> [u8; 32] {
    let mut d = [0u8; 32];
    for (i, b) in d.iter_mut().enumerate() {
        *b = n.wrapping_mul(31).wrapping_add(i as u8).wrapping_add(1);
    }
    d[0] = 0x11; // keep it below the group order and non-zero
    d
}

pub fn cose_private_from_scalar(d: &[u8; 32]) -> CoseKey {
    let sk = p256::SecretKey::from_slice(d).expect("harness: fixed scalar is valid");
    let pt = sk.public_key().to_sec1_bytes();
    // uncompressed: 04 || x || y
    let x = pt[1..33].to_vec();
    let y = pt[33..65].to_vec();
    CoseKeyBuilder::new_ec2_priv_key(iana::EllipticCurve::P_256, x, y, d.to_vec()).algorithm(iana::Algorithm::ES256).build()
}

pub fn public_xy_from_scalar(d: &[u8; 32]) -> ([u8; 32], [u8; 32]) {
    let sk = p256::SecretKey::from_slice(d).expect("harness: fixed scalar is valid");
    let pt = sk.public_key().to_sec1_bytes();
    (pt[1..33].try_into().unwrap(), pt[33..65].try_into().unwrap())
}

/// Symbolic credential `n`: id = 16 bytes of pattern, deterministic key.
pub fn cred_id(n: u8) -> Vec<u8> {
    (0..16u8).map(|i| 0xC0 ^ n.wrapping_mul(17) ^ i).collect()
}

#[derive(Clone, Debug)]
pub struct Seed {
    pub n: u8,
    pub rp: String,
    pub handle: Option<Vec<u8>>,
    pub counter: Option<u32>,
    /// None, Some(false) = uv secret only, Some(true) = both secrets
    pub hmac: Option<bool>,
}
pub fn seeded(s: &Seed) -> Passkey {
    Passkey {
        key: cose_private_from_scalar(&fixed_scalar(s.n)),
        credential_id: cred_id(s.n).into(),
        rp_id: s.rp.clone(),
        user_handle: s.handle.clone().map(Into::into),
        counter: s.counter,
        extensions: CredentialExtensions {
            hmac_secret: s.hmac.map(|both| StoredHmacSecret {
                cred_with_uv: (0..32u8).map(|i| i ^ s.n ^ 0x55).collect(),
                cred_without_uv: both.then(|| (0..32u8).map(|i| i ^ s.n ^ 0xAA).collect()),
            }),
        },
    }
}

pub fn private_scalar(pk: &Passkey) -> Option<Vec<u8>> {
    pk.key.params.iter().find_map(|(l, v)| match l {
        coset::Label::Int(-4) => v.as_bytes().cloned(),
        _ => None,
    })
}
pub fn cose_xy(key: &CoseKey) -> (Option<Vec<u8>>, Option<Vec<u8>>) {
    let get = |n: i64| {
        key.params.iter().find_map(|(l, v)| match l {
            coset::Label::Int(i) if *i == n => v.as_bytes().cloned(),
            _ => None,
        })
    };
    (get(-2), get(-3))
}

/// Canonical, comparison-friendly snapshot of one stored record.
#[derive(Clone, Debug, PartialEq, Eq, Hash, PartialOrd, Ord)]
pub struct Rec {
    pub id: Vec<u8>,
    pub rp: String,
    pub handle: Option<Vec<u8>>,
    pub counter: Option<u32>,
    pub d: Option<Vec<u8>>,
    pub uv_secret: Option<Vec<u8>>,
    pub nouv_secret: Option<Vec<u8>>,
}
pub fn rec(p: &Passkey) -> Rec {
    Rec {
        id: p.credential_id.to_vec(),
        rp: p.rp_id.clone(),
        handle: p.user_handle.as_ref().map(|h| h.to_vec()),
        counter: p.counter,
        d: private_scalar(p),
        uv_secret: p.extensions.hmac_secret.as_ref().map(|h| h.cred_with_uv.clone()),
        nouv_secret: p.extensions.hmac_secret.as_ref().and_then(|h| h.cred_without_uv.clone()),
    }
}

// ------------------------------------------------------------------------------------------
// RefStore: the documented lookup contract (match by id list AND rp id), ordered

#[derive(Clone, Copy, Debug, PartialEq, Eq, Hash)]
pub enum Cap {
    Full,
    OnlyNonDiscoverable,
    ForcedDiscoverable,
}
impl Cap {
    pub fn to_lib(self) -> DiscoverabilitySupport {
        match self {
            Cap::Full => DiscoverabilitySupport::Full,
            Cap::OnlyNonDiscoverable => DiscoverabilitySupport::OnlyNonDiscoverable,
            Cap::ForcedDiscoverable => DiscoverabilitySupport::ForcedDiscoverable,
        }
    }
    pub fn discoverable(self, rk: bool) -> bool {
        match self {
            Cap::Full => rk,
            Cap::OnlyNonDiscoverable => false,
            Cap::ForcedDiscoverable => true,
        }
    }
}

#[derive(Clone)]
pub struct RefStore {
    pub items: Vec<Passkey>,
    pub newest_first: bool,
    pub cap: Cap,
    /// answer "nothing found" with Ok(empty list) instead of Err(NoCredentials) – both are
    /// legitimate for a store
    pub empty_ok: bool,
    /// a sloppy store: lists every credential of the RP whatever ids were asked for (the library's
    /// behaviour on such a store is not specified, but its two API paths must still agree)
    pub ignore_ids: bool,
}
impl RefStore {
    pub fn new() -> Self {
        Self { items: vec![], newest_first: true, cap: Cap::ForcedDiscoverable, empty_ok: false, ignore_ids: false }
    }
    pub fn with(items: Vec<Passkey>) -> Self {
        Self { items, newest_first: true, cap: Cap::ForcedDiscoverable, empty_ok: false, ignore_ids: false }
    }
    /// records in insertion order (the `Inspect` trait gives them sorted by id)
    pub fn recs_ordered(&self) -> Vec<Rec> {
        self.items.iter().map(rec).collect()
    }
    /// the reference answer of the lookup contract
    pub fn lookup(&self, ids: Option<&[PublicKeyCredentialDescriptor]>, rp_id: &str) -> Vec<Passkey> {
        let mut v: Vec<Passkey> = self.items.iter().filter(|p| p.rp_id == rp_id && (self.ignore_ids || ids.map_or(true, |ids| ids.iter().any(|d| *d.id == *p.credential_id)))).cloned().collect();
        if self.newest_first {
            v.reverse();
        }
        v
    }
}

#[async_trait::async_trait]
impl CredentialStore for RefStore {
    type PasskeyItem = Passkey;
    async fn find_credentials(&self, ids: Option<&[PublicKeyCredentialDescriptor]>, rp_id: &str) -> Result<Vec<Passkey>, StatusCode> {
        let v = self.lookup(ids, rp_id);
        if v.is_empty() && !self.empty_ok {
            Err(Ctap2Error::NoCredentials.into())
        } else {
            Ok(v)
        }
    }
    async fn save_credential(&mut self, cred: Passkey, _user: PublicKeyCredentialUserEntity, _rp: PublicKeyCredentialRpEntity, _options: Options) -> Result<(), StatusCode> {
        if let Some(p) = self.items.iter_mut().find(|p| p.credential_id == cred.credential_id) {
            *p = cred;
        } else {
            self.items.push(cred);
        }
        Ok(())
    }
    async fn update_credential(&mut self, cred: Passkey) -> Result<(), StatusCode> {
        match self.items.iter_mut().find(|p| p.credential_id == cred.credential_id) {
            Some(p) => {
                *p = cred;
                Ok(())
            }
            None => Err(Ctap2Error::NoCredentials.into()),
        }
    }
    async fn get_info(&self) -> StoreInfo {
        StoreInfo { discoverability: self.cap.to_lib() }
    }
}

// ------------------------------------------------------------------------------------------
// wrappers

/// Records every call with arguments and result.
#[derive(Clone)]
pub struct Logging<S> {
    pub inner: S,
    pub log: Log,
}
fn ids_of(ids: Option<&[PublicKeyCredentialDescriptor]>) -> Option<Vec<Vec<u8>>> {
    ids.map(|l| l.iter().map(|d| d.id.to_vec()).collect())
}
#[async_trait::async_trait]
impl<S: CredentialStore<PasskeyItem = Passkey> + Send + Sync> CredentialStore for Logging<S> {
    type PasskeyItem = Passkey;
    async fn find_credentials(&self, ids: Option<&[PublicKeyCredentialDescriptor]>, rp_id: &str) -> Result<Vec<Passkey>, StatusCode> {
        let r = self.inner.find_credentials(ids, rp_id).await;
        self.log.push(Event::Find {
            ids: ids_of(ids),
            rp: rp_id.to_string(),
            result: match &r {
                Ok(v) => Ok(v.iter().map(|p| p.credential_id.to_vec()).collect()),
                Err(_) => Err(0),
            },
        });
        // patch the byte in (StatusCode is not Clone)
        match r {
            Ok(v) => Ok(v),
            Err(e) => {
                let b: u8 = e.into();
                if let Some(Event::Find { result, .. }) = self.log.0.lock().unwrap().last_mut() {
                    *result = Err(b);
                }
                Err(StatusCode::from(b))
            }
        }
    }
    async fn save_credential(&mut self, cred: Passkey, user: PublicKeyCredentialUserEntity, rp: PublicKeyCredentialRpEntity, options: Options) -> Result<(), StatusCode> {
        let mut ev = Event::Save {
            id: cred.credential_id.to_vec(),
            rp_id: cred.rp_id.clone(),
            rp_arg: rp.id.clone(),
            rk: options.rk,
            up: options.up,
            uv: options.uv,
            has_handle: cred.user_handle.is_some(),
            counter: cred.counter,
            result: Ok(()),
        };
        let r = self.inner.save_credential(cred, user, rp, options).await;
        let r = r.map_err(|e| -> u8 { e.into() });
        if let Event::Save { result, .. } = &mut ev {
            *result = r;
        }
        self.log.push(ev);
        r.map_err(StatusCode::from)
    }
    async fn update_credential(&mut self, cred: Passkey) -> Result<(), StatusCode> {
        let id = cred.credential_id.to_vec();
        let counter = cred.counter;
        let r = self.inner.update_credential(cred).await.map_err(|e| -> u8 { e.into() });
        self.log.push(Event::Update { id, counter, result: r });
        r.map_err(StatusCode::from)
    }
    async fn get_info(&self) -> StoreInfo {
        self.log.push(Event::Info);
        self.inner.get_info().await
    }
}

/// Fails the k-th faultable call (find / save / update, counted from 0) with the planned byte,
/// without executing it.  (A clone shares the injection record and starts from the same call count:
/// a library that copies its store keeps one fault plan.)
pub struct Faulting<S> {
    pub inner: S,
    pub plan: BTreeMap<usize, u8>,
    pub calls: AtomicUsize,
    pub injected: Arc<Mutex<Vec<(usize, &'static str, u8)>>>,
}
impl<S: Clone> Clone for Faulting<S> {
    fn clone(&self) -> Self {
        Self { inner: self.inner.clone(), plan: self.plan.clone(), calls: AtomicUsize::new(self.calls.load(Ordering::SeqCst)), injected: self.injected.clone() }
    }
}
impl<S> Faulting<S> {
    pub fn new(inner: S, plan: BTreeMap<usize, u8>) -> Self {
        Self { inner, plan, calls: AtomicUsize::new(0), injected: Default::default() }
    }
    fn fault(&self, what: &'static str) -> Option<u8> {
        let k = self.calls.fetch_add(1, Ordering::SeqCst);
        let b = self.plan.get(&k).copied();
        if let Some(b) = b {
            self.injected.lock().unwrap().push((k, what, b));
        }
        b
    }
}
#[async_trait::async_trait]
impl<S: CredentialStore<PasskeyItem = Passkey> + Send + Sync> CredentialStore for Faulting<S> {
    type PasskeyItem = Passkey;
    async fn find_credentials(&self, ids: Option<&[PublicKeyCredentialDescriptor]>, rp_id: &str) -> Result<Vec<Passkey>, StatusCode> {
        if let Some(b) = self.fault("find") {
            return Err(StatusCode::from(b));
        }
        self.inner.find_credentials(ids, rp_id).await
    }
    async fn save_credential(&mut self, cred: Passkey, user: PublicKeyCredentialUserEntity, rp: PublicKeyCredentialRpEntity, options: Options) -> Result<(), StatusCode> {
        if let Some(b) = self.fault("save") {
            return Err(StatusCode::from(b));
        }
        self.inner.save_credential(cred, user, rp, options).await
    }
    async fn update_credential(&mut self, cred: Passkey) -> Result<(), StatusCode> {
        if let Some(b) = self.fault("update") {
            return Err(StatusCode::from(b));
        }
        self.inner.update_credential(cred).await
    }
    async fn get_info(&self) -> StoreInfo {
        self.inner.get_info().await
    }
}

/// Fails every call of one operation with a status *value* (not a byte: `Ctap1(Success)` and
/// `Ctap2(Ok)` share byte 0x00, and only the latter can be built from a byte).
#[derive(Clone)]
pub struct FailValue<S> {
    pub inner: S,
    /// "find" | "save" | "update"
    pub op: &'static str,
    pub status: u8,
}
pub const STATUS_VALUES: usize = 7;
pub fn status_value(k: u8) -> StatusCode {
    use passkey_types::ctap2::{Ctap2Error, U2FError};
    match k {
        0 => StatusCode::Ctap1(U2FError::Success),
        1 => StatusCode::Ctap1(U2FError::Other),
        2 => StatusCode::Ctap1(U2FError::InvalidParameter),
        3 => StatusCode::from(0x00),
        4 => Ctap2Error::NoCredentials.into(),
        5 => Ctap2Error::KeyStoreFull.into(),
        _ => StatusCode::from(0xF3),
    }
}
#[async_trait::async_trait]
impl<S: CredentialStore<PasskeyItem = Passkey> + Send + Sync> CredentialStore for FailValue<S> {
    type PasskeyItem = Passkey;
    async fn find_credentials(&self, ids: Option<&[PublicKeyCredentialDescriptor]>, rp_id: &str) -> Result<Vec<Passkey>, StatusCode> {
        if self.op == "find" {
            return Err(status_value(self.status));
        }
        self.inner.find_credentials(ids, rp_id).await
    }
    async fn save_credential(&mut self, cred: Passkey, user: PublicKeyCredentialUserEntity, rp: PublicKeyCredentialRpEntity, options: Options) -> Result<(), StatusCode> {
        if self.op == "save" {
            return Err(status_value(self.status));
        }
        self.inner.save_credential(cred, user, rp, options).await
    }
    async fn update_credential(&mut self, cred: Passkey) -> Result<(), StatusCode> {
        if self.op == "update" {
            return Err(status_value(self.status));
        }
        self.inner.update_credential(cred).await
    }
    async fn get_info(&self) -> StoreInfo {
        self.inner.get_info().await
    }
}
impl<S: Inspect> Inspect for FailValue<S> {
    fn recs(&self) -> Vec<Rec> {
        self.inner.recs()
    }
}

/// Hands every located credential back with the members of its COSE key in reverse order (a COSE
/// key is a map: a persistence layer may legitimately re-order it, e.g. d, y, x, crv).
#[derive(Clone)]
pub struct ReorderKeys<S> {
    pub inner: S,
}
#[async_trait::async_trait]
impl<S: CredentialStore<PasskeyItem = Passkey> + Send + Sync> CredentialStore for ReorderKeys<S> {
    type PasskeyItem = Passkey;
    async fn find_credentials(&self, ids: Option<&[PublicKeyCredentialDescriptor]>, rp_id: &str) -> Result<Vec<Passkey>, StatusCode> {
        let mut v = self.inner.find_credentials(ids, rp_id).await?;
        for p in v.iter_mut() {
            p.key.params.reverse();
        }
        Ok(v)
    }
    async fn save_credential(&mut self, cred: Passkey, user: PublicKeyCredentialUserEntity, rp: PublicKeyCredentialRpEntity, options: Options) -> Result<(), StatusCode> {
        self.inner.save_credential(cred, user, rp, options).await
    }
    async fn update_credential(&mut self, cred: Passkey) -> Result<(), StatusCode> {
        self.inner.update_credential(cred).await
    }
    async fn get_info(&self) -> StoreInfo {
        self.inner.get_info().await
    }
}
impl<S: Inspect> Inspect for ReorderKeys<S> {
    fn recs(&self) -> Vec<Rec> {
        self.inner.recs()
    }
}

/// A store that files every item under the account it was saved for: whatever the credential says,
/// the item keeps the `user.id` that came with save_credential as its user handle (an account
/// vault; what a ForcedDiscoverable store does).
#[derive(Clone)]
pub struct KeepsUser<S> {
    pub inner: S,
}
#[async_trait::async_trait]
impl<S: CredentialStore<PasskeyItem = Passkey> + Send + Sync> CredentialStore for KeepsUser<S> {
    type PasskeyItem = Passkey;
    async fn find_credentials(&self, ids: Option<&[PublicKeyCredentialDescriptor]>, rp_id: &str) -> Result<Vec<Passkey>, StatusCode> {
        self.inner.find_credentials(ids, rp_id).await
    }
    async fn save_credential(&mut self, mut cred: Passkey, user: PublicKeyCredentialUserEntity, rp: PublicKeyCredentialRpEntity, options: Options) -> Result<(), StatusCode> {
        cred.user_handle = Some(user.id.clone());
        self.inner.save_credential(cred, user, rp, options).await
    }
    async fn update_credential(&mut self, cred: Passkey) -> Result<(), StatusCode> {
        self.inner.update_credential(cred).await
    }
    async fn get_info(&self) -> StoreInfo {
        self.inner.get_info().await
    }
}
impl<S: Inspect> Inspect for KeepsUser<S> {
    fn recs(&self) -> Vec<Rec> {
        self.inner.recs()
    }
}

/// A store whose items spell their `rp_id` member differently from the RP ID they are looked up
/// under (a vault that keeps a website URL, an upper-case or dotted host, nothing at all): the
/// lookup is the store's business, and what a ceremony is bound to is the RP ID of the *request*.
/// how: 0 empty, 1 upper case, 2 trailing dot, 3 an https URL, 4 another host.  Write-backs restore
/// the stored spelling (the store keys its records by id).
#[derive(Clone)]
pub struct RelabelRp<S> {
    pub inner: S,
    pub how: u8,
}
impl<S> RelabelRp<S> {
    fn relabel(&self, rp: &str) -> String {
        match self.how {
            0 => String::new(),
            1 => rp.to_ascii_uppercase(),
            2 => format!("{rp}."),
            3 => format!("https://{rp}/login"),
            _ => "vault.example.net".into(),
        }
    }
}
#[async_trait::async_trait]
impl<S: CredentialStore<PasskeyItem = Passkey> + Send + Sync> CredentialStore for RelabelRp<S> {
    type PasskeyItem = Passkey;
    async fn find_credentials(&self, ids: Option<&[PublicKeyCredentialDescriptor]>, rp_id: &str) -> Result<Vec<Passkey>, StatusCode> {
        let mut v = self.inner.find_credentials(ids, rp_id).await?;
        for p in v.iter_mut() {
            p.rp_id = self.relabel(rp_id);
        }
        Ok(v)
    }
    async fn save_credential(&mut self, cred: Passkey, user: PublicKeyCredentialUserEntity, rp: PublicKeyCredentialRpEntity, options: Options) -> Result<(), StatusCode> {
        self.inner.save_credential(cred, user, rp, options).await
    }
    async fn update_credential(&mut self, mut cred: Passkey) -> Result<(), StatusCode> {
        // the record keeps the RP it was stored under
        if let Ok(found) = self.inner.find_credentials(Some(&[descriptor(&cred.credential_id)]), "example.com").await {
            if let Some(f) = found.first() {
                cred.rp_id = f.rp_id.clone();
            }
        }
        self.inner.update_credential(cred).await
    }
    async fn get_info(&self) -> StoreInfo {
        self.inner.get_info().await
    }
}
impl<S: Inspect> Inspect for RelabelRp<S> {
    fn recs(&self) -> Vec<Rec> {
        self.inner.recs()
    }
}

/// Suspends `before` times before and `after` times after each call of the inner store.
#[derive(Clone)]
pub struct Yielding<S> {
    pub inner: S,
    pub before: usize,
    pub after: usize,
}
#[async_trait::async_trait]
impl<S: CredentialStore<PasskeyItem = Passkey> + Send + Sync> CredentialStore for Yielding<S> {
    type PasskeyItem = Passkey;
    async fn find_credentials(&self, ids: Option<&[PublicKeyCredentialDescriptor]>, rp_id: &str) -> Result<Vec<Passkey>, StatusCode> {
        yield_n(self.before).await;
        let r = self.inner.find_credentials(ids, rp_id).await;
        yield_n(self.after).await;
        r
    }
    async fn save_credential(&mut self, cred: Passkey, user: PublicKeyCredentialUserEntity, rp: PublicKeyCredentialRpEntity, options: Options) -> Result<(), StatusCode> {
        yield_n(self.before).await;
        let r = self.inner.save_credential(cred, user, rp, options).await;
        yield_n(self.after).await;
        r
    }
    async fn update_credential(&mut self, cred: Passkey) -> Result<(), StatusCode> {
        yield_n(self.before).await;
        let r = self.inner.update_credential(cred).await;
        yield_n(self.after).await;
        r
    }
    async fn get_info(&self) -> StoreInfo {
        yield_n(self.before).await;
        let r = self.inner.get_info().await;
        yield_n(self.after).await;
        r
    }
}

/// Store handle that can be inspected after the authenticator consumed it.
#[derive(Clone)]
pub struct Shared<S>(pub Arc<Mutex<S>>);
impl<S> Shared<S> {
    pub fn new(s: S) -> Self {
        Self(Arc::new(Mutex::new(s)))
    }
}
// Note: std Mutex, only ever locked for the duration of a non-suspending inner call of RefStore
// (RefStore's methods never suspend), so it adds no scheduling point.
#[async_trait::async_trait]
impl CredentialStore for Shared<RefStore> {
    type PasskeyItem = Passkey;
    async fn find_credentials(&self, ids: Option<&[PublicKeyCredentialDescriptor]>, rp_id: &str) -> Result<Vec<Passkey>, StatusCode> {
        let (v, empty_ok) = {
            let g = self.0.lock().unwrap();
            (g.lookup(ids, rp_id), g.empty_ok)
        };
        if v.is_empty() && !empty_ok {
            Err(Ctap2Error::NoCredentials.into())
        } else {
            Ok(v)
        }
    }
    async fn save_credential(&mut self, cred: Passkey, _u: PublicKeyCredentialUserEntity, _r: PublicKeyCredentialRpEntity, _o: Options) -> Result<(), StatusCode> {
        let mut g = self.0.lock().unwrap();
        if let Some(p) = g.items.iter_mut().find(|p| p.credential_id == cred.credential_id) {
            *p = cred;
        } else {
            g.items.push(cred);
        }
        Ok(())
    }
    async fn update_credential(&mut self, cred: Passkey) -> Result<(), StatusCode> {
        let mut g = self.0.lock().unwrap();
        match g.items.iter_mut().find(|p| p.credential_id == cred.credential_id) {
            Some(p) => {
                *p = cred;
                Ok(())
            }
            None => Err(Ctap2Error::NoCredentials.into()),
        }
    }
    async fn get_info(&self) -> StoreInfo {
        StoreInfo { discoverability: self.0.lock().unwrap().cap.to_lib() }
    }
}

// ------------------------------------------------------------------------------------------
// user validation

#[derive(Clone, Copy, Debug, PartialEq, Eq, Hash)]
pub enum UvOutcome {
    Ok { presence: bool, verification: bool },
    Err(u8),
    /// a platform whose verification is locked out: asked for verification it fails with this
    /// status, asked for presence alone it reports presence (the answer depends on the question)
    Lockout(u8),
}

/// `UvOutcome::Err(UV_PANICS)`: the scripted user-validation method panics instead of answering
/// (user-supplied code may panic; the embedder may catch the unwind and go on using the instance)
pub const UV_PANICS: u8 = 0xEE;

/// A store that panics at its k-th call (0-based, counting find / save / update), once, and works
/// like the wrapped store otherwise.
pub struct PanicStore<S> {
    pub inner: S,
    pub at: usize,
    pub calls: AtomicUsize,
}
impl<S> PanicStore<S> {
    pub fn new(inner: S, at: usize) -> Self {
        Self { inner, at, calls: AtomicUsize::new(0) }
    }
    fn tick(&self, what: &str) {
        if self.calls.fetch_add(1, Ordering::SeqCst) == self.at {
            panic!("injected: the store panicked in {what}");
        }
    }
}
#[async_trait::async_trait]
impl<S: CredentialStore<PasskeyItem = Passkey> + Send + Sync> CredentialStore for PanicStore<S> {
    type PasskeyItem = Passkey;
    async fn find_credentials(&self, ids: Option<&[PublicKeyCredentialDescriptor]>, rp_id: &str) -> Result<Vec<Passkey>, StatusCode> {
        self.tick("find_credentials");
        self.inner.find_credentials(ids, rp_id).await
    }
    async fn save_credential(&mut self, cred: Passkey, user: PublicKeyCredentialUserEntity, rp: PublicKeyCredentialRpEntity, options: Options) -> Result<(), StatusCode> {
        self.tick("save_credential");
        self.inner.save_credential(cred, user, rp, options).await
    }
    async fn update_credential(&mut self, cred: Passkey) -> Result<(), StatusCode> {
        self.tick("update_credential");
        self.inner.update_credential(cred).await
    }
    async fn get_info(&self) -> StoreInfo {
        self.inner.get_info().await
    }
}

/// A store with a switch the harness flips between operations: 0 works; 1 the next update_credential
/// fails (KeyStoreFull) without being executed; 2 the next save_credential is executed but answered
/// with the status in `status` (an acknowledgement lost on the way); 3 the next find_credentials
/// panics; 4 the next save / update panics; the switch resets itself.
#[derive(Clone)]
pub struct SwitchStore<S> {
    pub inner: S,
    pub switch: Arc<std::sync::atomic::AtomicU8>,
    pub status: u8,
    pub persisted_saves: Arc<AtomicUsize>,
}
impl<S> SwitchStore<S> {
    pub fn new(inner: S) -> Self {
        Self { inner, switch: Default::default(), status: 0x28, persisted_saves: Default::default() }
    }
}
#[async_trait::async_trait]
impl<S: CredentialStore<PasskeyItem = Passkey> + Send + Sync> CredentialStore for SwitchStore<S> {
    type PasskeyItem = Passkey;
    async fn find_credentials(&self, ids: Option<&[PublicKeyCredentialDescriptor]>, rp_id: &str) -> Result<Vec<Passkey>, StatusCode> {
        if self.switch.compare_exchange(3, 0, Ordering::SeqCst, Ordering::SeqCst).is_ok() {
            panic!("injected: the store panicked in find_credentials");
        }
        self.inner.find_credentials(ids, rp_id).await
    }
    async fn save_credential(&mut self, cred: Passkey, user: PublicKeyCredentialUserEntity, rp: PublicKeyCredentialRpEntity, options: Options) -> Result<(), StatusCode> {
        if self.switch.compare_exchange(4, 0, Ordering::SeqCst, Ordering::SeqCst).is_ok() {
            panic!("injected: the store panicked in save_credential");
        }
        let r = self.inner.save_credential(cred, user, rp, options).await;
        if r.is_ok() {
            self.persisted_saves.fetch_add(1, Ordering::SeqCst);
        }
        if self.switch.compare_exchange(2, 0, Ordering::SeqCst, Ordering::SeqCst).is_ok() {
            return Err(StatusCode::from(self.status));
        }
        r
    }
    async fn update_credential(&mut self, cred: Passkey) -> Result<(), StatusCode> {
        if self.switch.compare_exchange(4, 0, Ordering::SeqCst, Ordering::SeqCst).is_ok() {
            panic!("injected: the store panicked in update_credential");
        }
        if self.switch.compare_exchange(1, 0, Ordering::SeqCst, Ordering::SeqCst).is_ok() {
            return Err(Ctap2Error::KeyStoreFull.into());
        }
        self.inner.update_credential(cred).await
    }
    async fn get_info(&self) -> StoreInfo {
        self.inner.get_info().await
    }
}
impl<S: Inspect> Inspect for SwitchStore<S> {
    fn recs(&self) -> Vec<Rec> {
        self.inner.recs()
    }
}

/// The slow-user pass (main.rs): while it is on, every scripted user step advances the thread's
/// virtual clock by this many seconds and suspends at least once afterwards, so that code polling
/// a deadline around the user step sees the time that passed.
static SLOW_USER_SECS: std::sync::atomic::AtomicU64 = std::sync::atomic::AtomicU64::new(0);
pub fn set_slow_user(secs: u64) {
    SLOW_USER_SECS.store(secs, Ordering::SeqCst);
    if secs == 0 {
        std::env::remove_var("VERIF_SLOW_USER");
    } else {
        std::env::set_var("VERIF_SLOW_USER", secs.to_string());
    }
}
pub fn slow_user_from_env() {
    if let Some(s) = std::env::var("VERIF_SLOW_USER").ok().and_then(|s| s.parse().ok()) {
        SLOW_USER_SECS.store(s, Ordering::SeqCst);
    }
}
fn slow_user() -> u64 {
    SLOW_USER_SECS.load(Ordering::Relaxed)
}

#[derive(Clone)]
pub struct ScriptedUv {
    pub verification_cap: Option<bool>,
    pub presence_cap: bool,
    pub outcome: UvOutcome,
    pub yields: usize,
    pub log: Log,
}
impl ScriptedUv {
    pub fn consenting(log: Log) -> Self {
        Self { verification_cap: Some(true), presence_cap: true, outcome: UvOutcome::Ok { presence: true, verification: true }, yields: 0, log }
    }
    /// reports what was asked for (presence always)
    pub fn cap(mut self, c: Option<bool>) -> Self {
        self.verification_cap = c;
        self
    }
    pub fn outcome(mut self, o: UvOutcome) -> Self {
        self.outcome = o;
        self
    }
}

#[async_trait::async_trait]
impl UserValidationMethod for ScriptedUv {
    type PasskeyItem = Passkey;
    async fn check_user<'a>(&self, credential: Option<&'a Passkey>, presence: bool, verification: bool) -> Result<UserCheck, Ctap2Error> {
        let cred = credential.map(|c| c.credential_id.to_vec());
        self.log.run_prompt_hook();
        let slow = slow_user();
        if slow != 0 {
            crate::core::clock::advance(slow);
        }
        yield_n(self.yields.max(usize::from(slow != 0))).await;
        let (r, logged) = match self.log.answer().unwrap_or(self.outcome) {
            UvOutcome::Ok { presence: p, verification: v } => (Ok(UserCheck { presence: p, verification: v }), Ok((p, v))),
            UvOutcome::Err(UV_PANICS) => panic!("injected: the user-validation method panicked"),
            UvOutcome::Lockout(_) if !verification => (Ok(UserCheck { presence: true, verification: false }), Ok((true, false))),
            UvOutcome::Err(b) | UvOutcome::Lockout(b) => {
                let e = Ctap2Error::try_from(b).unwrap_or(Ctap2Error::OperationDenied);
                (Err(e), Err(b))
            }
        };
        self.log.push(Event::CheckUser { cred, up: presence, uv: verification, result: logged });
        r
    }
    fn is_presence_enabled(&self) -> bool {
        self.presence_cap
    }
    fn is_verification_enabled(&self) -> Option<bool> {
        self.verification_cap
    }
}

/// Runs `hook` while the user step is pending (the world changes during the prompt), then asks
/// the wrapped method.
#[derive(Clone)]
pub struct HookUv<U> {
    pub inner: U,
    pub hook: Option<Arc<dyn Fn() + Send + Sync>>,
}
#[async_trait::async_trait]
impl<U: UserValidationMethod<PasskeyItem = Passkey> + Send + Sync> UserValidationMethod for HookUv<U> {
    type PasskeyItem = Passkey;
    async fn check_user<'a>(&self, credential: Option<&'a Passkey>, presence: bool, verification: bool) -> Result<UserCheck, Ctap2Error> {
        if let Some(h) = &self.hook {
            h();
        }
        self.inner.check_user(credential, presence, verification).await
    }
    fn is_presence_enabled(&self) -> bool {
        self.inner.is_presence_enabled()
    }
    fn is_verification_enabled(&self) -> Option<bool> {
        self.inner.is_verification_enabled()
    }
}

/// "Honest" user: reports exactly what is asked of it when `verify`/`present` allow.
#[derive(Clone)]
pub struct EchoUv {
    pub log: Log,
    pub verified: bool,
    pub yields: usize,
}
#[async_trait::async_trait]
impl UserValidationMethod for EchoUv {
    type PasskeyItem = Passkey;
    async fn check_user<'a>(&self, credential: Option<&'a Passkey>, presence: bool, verification: bool) -> Result<UserCheck, Ctap2Error> {
        let cred = credential.map(|c| c.credential_id.to_vec());
        yield_n(self.yields).await;
        let v = verification && self.verified;
        self.log.push(Event::CheckUser { cred, up: presence, uv: verification, result: Ok((true, v)) });
        Ok(UserCheck { presence: true, verification: v })
    }
    fn is_presence_enabled(&self) -> bool {
        true
    }
    fn is_verification_enabled(&self) -> Option<bool> {
        Some(true)
    }
}

// ------------------------------------------------------------------------------------------
// inspecting stores after a ceremony

pub trait Inspect {
    /// records sorted by credential id
    fn recs(&self) -> Vec<Rec>;
}
fn sorted(mut v: Vec<Rec>) -> Vec<Rec> {
    v.sort();
    v
}
impl Inspect for RefStore {
    fn recs(&self) -> Vec<Rec> {
        sorted(self.items.iter().map(rec).collect())
    }
}
impl Inspect for passkey_authenticator::MemoryStore {
    fn recs(&self) -> Vec<Rec> {
        sorted(self.values().map(rec).collect())
    }
}
impl Inspect for Option<Passkey> {
    fn recs(&self) -> Vec<Rec> {
        self.iter().map(rec).collect()
    }
}
impl Inspect for Shared<RefStore> {
    fn recs(&self) -> Vec<Rec> {
        self.0.lock().unwrap().recs()
    }
}
impl<S: Inspect> Inspect for Arc<tokio::sync::Mutex<S>> {
    fn recs(&self) -> Vec<Rec> {
        self.try_lock().expect("harness: store lock still held after the ceremony").recs()
    }
}
impl<S: Inspect> Inspect for Arc<tokio::sync::RwLock<S>> {
    fn recs(&self) -> Vec<Rec> {
        self.try_read().expect("harness: store lock still held after the ceremony").recs()
    }
}
impl<S: Inspect> Inspect for tokio::sync::Mutex<S> {
    fn recs(&self) -> Vec<Rec> {
        self.try_lock().expect("harness: store lock still held after the ceremony").recs()
    }
}
impl<S: Inspect> Inspect for tokio::sync::RwLock<S> {
    fn recs(&self) -> Vec<Rec> {
        self.try_read().expect("harness: store lock still held after the ceremony").recs()
    }
}
impl<S: Inspect> Inspect for Logging<S> {
    fn recs(&self) -> Vec<Rec> {
        self.inner.recs()
    }
}
impl<S: Inspect> Inspect for Faulting<S> {
    fn recs(&self) -> Vec<Rec> {
        self.inner.recs()
    }
}
impl<S: Inspect> Inspect for Yielding<S> {
    fn recs(&self) -> Vec<Rec> {
        self.inner.recs()
    }
}

// ------------------------------------------------------------------------------------------
// request builders

use passkey_types::ctap2::{get_assertion, make_credential};
use passkey_types::webauthn;

pub fn descriptor(id: &[u8]) -> PublicKeyCredentialDescriptor {
    PublicKeyCredentialDescriptor { ty: webauthn::PublicKeyCredentialType::PublicKey, id: id.to_vec().into(), transports: None }
}
pub fn es256_param() -> webauthn::PublicKeyCredentialParameters {
    webauthn::PublicKeyCredentialParameters { ty: webauthn::PublicKeyCredentialType::PublicKey, alg: iana::Algorithm::ES256 }
}
pub fn param(alg: iana::Algorithm) -> webauthn::PublicKeyCredentialParameters {
    webauthn::PublicKeyCredentialParameters { ty: webauthn::PublicKeyCredentialType::PublicKey, alg }
}
pub fn client_hash(tag: u8) -> Vec<u8> {
    (0..32u8).map(|i| i.wrapping_mul(7) ^ tag).collect()
}
pub fn mc_request(rp: &str, user_id: &[u8], exclude: Option<Vec<Vec<u8>>>, rk: bool, up: bool, uv: bool, pin: bool, ext: Option<make_credential::ExtensionInputs>) -> make_credential::Request {
    make_credential::Request {
        client_data_hash: client_hash(1).into(),
        rp: make_credential::PublicKeyCredentialRpEntity { id: rp.into(), name: Some("rp".into()) },
        user: webauthn::PublicKeyCredentialUserEntity { id: user_id.to_vec().into(), name: "user".into(), display_name: "User".into() },
        pub_key_cred_params: vec![es256_param()],
        exclude_list: exclude.map(|l| l.iter().map(|i| descriptor(i)).collect()),
        extensions: ext,
        options: make_credential::Options { rk, up, uv },
        pin_auth: pin.then(|| vec![1u8; 16].into()),
        pin_protocol: pin.then_some(1),
    }
}
pub fn ga_request(rp: &str, allow: Option<Vec<Vec<u8>>>, rk: bool, up: bool, uv: bool, pin: bool, ext: Option<get_assertion::ExtensionInputs>) -> get_assertion::Request {
    get_assertion::Request {
        rp_id: rp.into(),
        client_data_hash: client_hash(2).into(),
        allow_list: allow.map(|l| l.iter().map(|i| descriptor(i)).collect()),
        extensions: ext,
        options: get_assertion::Options { rk, up, uv },
        pin_auth: pin.then(|| vec![1u8; 16].into()),
        pin_protocol: pin.then_some(1),
    }
}
/// The same request as it arrives over the wire: serialised with ciborium, re-shaped as a generic
/// CBOR value, decoded by the library.  `shape` 1 = as serialised; 2 = every option that has its
/// specification default (up true, rk false, uv false) removed from the options map; 3 = as 2 and
/// an options map that became empty is dropped altogether.  All three denote the same request.
pub fn rewire<T: serde::Serialize + serde::de::DeserializeOwned>(req: &T, options_key: i128, shape: u8) -> Result<T, String> {
    use ciborium::value::Value as Cbor;
    let mut bytes = vec![];
    ciborium::ser::into_writer(req, &mut bytes).map_err(|e| format!("harness: request does not serialise: {e}"))?;
    let v: Cbor = ciborium::de::from_reader(bytes.as_slice()).map_err(|e| format!("harness: serialised request is not CBOR: {e}"))?;
    let Cbor::Map(mut m) = v else { return Err("harness: serialised request is not a map".into()) };
    if shape >= 2 {
        let mut drop_entry = false;
        for (k, val) in m.iter_mut() {
            if matches!(k, Cbor::Integer(i) if i128::from(*i) == options_key) {
                if let Cbor::Map(opts) = val {
                    opts.retain(|(name, b)| !matches!((name, b), (Cbor::Text(n), Cbor::Bool(x)) if (n == "up" && *x) || (n == "rk" && !*x) || (n == "uv" && !*x)));
                    drop_entry = shape == 3 && opts.is_empty();
                }
            }
        }
        if drop_entry {
            m.retain(|(k, _)| !matches!(k, Cbor::Integer(i) if i128::from(*i) == options_key));
        }
    }
    let mut out = vec![];
    ciborium::ser::into_writer(&Cbor::Map(m), &mut out).map_err(|e| format!("harness: {e}"))?;
    ciborium::de::from_reader(out.as_slice()).map_err(|e| format!("the library does not decode its own request encoding (shape {shape}): {e}"))
}
pub fn hex(b: &[u8]) -> String {
    b.iter().map(|x| format!("{x:02x}")).collect()
}

// ------------------------------------------------------------------------------------------
// WebAuthn-level request builders

/// Request members that no property speaks of and that therefore must not matter: `timeout` and
/// `hints`.  The "members pass" (main.rs) repeats an exploration with them set - 1: timeout 0 and
/// hints [security-key, client-device]; 2: timeout u32::MAX and hints [hybrid]; 3: timeout 1 and an
/// empty hints list.
static AMBIENT: std::sync::atomic::AtomicU8 = std::sync::atomic::AtomicU8::new(0);
pub fn set_ambient_members(k: u8) {
    AMBIENT.store(k, std::sync::atomic::Ordering::SeqCst);
}
pub fn ambient_timeout() -> Option<u32> {
    ambient_timeout_of(AMBIENT.load(std::sync::atomic::Ordering::SeqCst))
}
pub fn ambient_timeout_of(k: u8) -> Option<u32> {
    match k {
        1 => Some(0),
        2 => Some(u32::MAX),
        3 => Some(1),
        _ => None,
    }
}
pub fn ambient_hints() -> Option<Vec<webauthn::PublicKeyCredentialHints>> {
    ambient_hints_of(AMBIENT.load(std::sync::atomic::Ordering::SeqCst))
}
pub fn ambient_hints_of(k: u8) -> Option<Vec<webauthn::PublicKeyCredentialHints>> {
    use webauthn::PublicKeyCredentialHints as H;
    match k {
        1 => Some(vec![H::SecurityKey, H::ClientDevice]),
        2 => Some(vec![H::Hybrid]),
        3 => Some(vec![]),
        _ => None,
    }
}

pub struct Reg {
    pub rp_id: Option<String>,
    pub challenge: Vec<u8>,
    pub user_id: Vec<u8>,
    pub user_name: String,
    pub params: Vec<webauthn::PublicKeyCredentialParameters>,
    pub exclude: Option<Vec<Vec<u8>>>,
    pub selection: Option<webauthn::AuthenticatorSelectionCriteria>,
    pub extensions: Option<webauthn::AuthenticationExtensionsClientInputs>,
}
impl Default for Reg {
    fn default() -> Self {
        Reg { rp_id: None, challenge: vec![1, 2, 3, 4], user_id: vec![9, 9], user_name: "user".into(), params: vec![es256_param()], exclude: None, selection: None, extensions: None }
    }
}
pub fn creation_options(r: Reg) -> webauthn::CredentialCreationOptions {
    webauthn::CredentialCreationOptions {
        public_key: webauthn::PublicKeyCredentialCreationOptions {
            rp: webauthn::PublicKeyCredentialRpEntity { id: r.rp_id, name: "rp".into() },
            user: webauthn::PublicKeyCredentialUserEntity { id: r.user_id.into(), name: r.user_name.clone(), display_name: r.user_name },
            challenge: r.challenge.into(),
            pub_key_cred_params: r.params,
            timeout: ambient_timeout(),
            exclude_credentials: r.exclude.map(|l| l.iter().map(|i| descriptor(i)).collect()),
            authenticator_selection: r.selection,
            hints: ambient_hints(),
            attestation: Default::default(),
            attestation_formats: None,
            extensions: r.extensions,
        },
    }
}
pub struct Auth {
    pub rp_id: Option<String>,
    pub challenge: Vec<u8>,
    pub allow: Option<Vec<Vec<u8>>>,
    pub uv: webauthn::UserVerificationRequirement,
    pub extensions: Option<webauthn::AuthenticationExtensionsClientInputs>,
}
impl Default for Auth {
    fn default() -> Self {
        Auth { rp_id: None, challenge: vec![1, 2, 3, 4], allow: None, uv: Default::default(), extensions: None }
    }
}
pub fn request_options(a: Auth) -> webauthn::CredentialRequestOptions {
    webauthn::CredentialRequestOptions {
        public_key: webauthn::PublicKeyCredentialRequestOptions {
            challenge: a.challenge.into(),
            timeout: ambient_timeout(),
            rp_id: a.rp_id,
            allow_credentials: a.allow.map(|l| l.iter().map(|i| descriptor(i)).collect()),
            user_verification: a.uv,
            hints: ambient_hints(),
            attestation: Default::default(),
            attestation_formats: None,
            extensions: a.extensions,
        },
    }
}
