//! E-iso: run a sweep in child processes of this binary so that cases that kill the process
//! (stack overflow, refused allocation, abort) or never return become verdicts for that case.
//!
//! Protocol (child stdout, one line each):
//!   P <next_index> <stats-json> <hex blob of distinct hashes>     checkpoint: everything below next_index is accounted for
//!   D <index> <signal> <refused-alloc-size>                        the process died while running case <index>
//!   T <index>                                                      case <index> exceeded the CPU/wall limit
use super::alloc;
use super::report::{Finding, Stats};
use serde_json::{json, Value};
use std::collections::BTreeSet;
use std::io::{BufRead, BufReader, Write};
use std::process::{Command, Stdio};
use std::sync::atomic::{AtomicI64, AtomicU64, AtomicUsize, Ordering};
use std::sync::Mutex;

pub trait IsoSpace: Sync + Send {
    fn len(&self) -> usize;
    /// run case `idx` on the real code (inside the child), recording coverage and findings
    fn eval(&self, idx: usize, st: &mut Stats);
    /// case description for replay files (parent side, must not run the case)
    fn describe(&self, idx: usize) -> Value;
    /// stable key prefix for a death/timeout of case idx, e.g. "decoder=ctap2::make_credential::Request"
    fn death_key(&self, idx: usize) -> String;
    /// wall-clock limit per case in ms
    fn limit_ms(&self) -> u64 {
        5000
    }
}

static CURRENT: AtomicI64 = AtomicI64::new(-1);
static PROGRESS: AtomicU64 = AtomicU64::new(0);
pub static LAST_REFUSED: AtomicUsize = AtomicUsize::new(0);

fn fmt_num(mut n: u64, buf: &mut [u8; 24]) -> &[u8] {
    let mut i = buf.len();
    if n == 0 {
        i -= 1;
        buf[i] = b'0';
    }
    while n > 0 {
        i -= 1;
        buf[i] = b'0' + (n % 10) as u8;
        n /= 10;
    }
    &buf[i..]
}

extern "C" fn on_fatal(sig: libc::c_int) {
    // async-signal-safe: only write(2) and _exit(2)
    let idx = CURRENT.load(Ordering::SeqCst);
    let mut line = [0u8; 96];
    let mut n = 0usize;
    let mut put = |s: &[u8]| {
        for &b in s {
            if n < line.len() {
                line[n] = b;
                n += 1;
            }
        }
    };
    put(b"\nD ");
    let mut b = [0u8; 24];
    put(fmt_num(if idx < 0 { u64::MAX } else { idx as u64 }, &mut b));
    put(b" ");
    let mut b2 = [0u8; 24];
    put(fmt_num(sig as u64, &mut b2));
    put(b" ");
    let mut b3 = [0u8; 24];
    put(fmt_num(LAST_REFUSED.load(Ordering::SeqCst) as u64, &mut b3));
    put(b"\n");
    unsafe {
        libc::write(1, line.as_ptr() as *const libc::c_void, n);
        libc::_exit(99);
    }
}

fn install_handlers() {
    unsafe {
        for sig in [libc::SIGSEGV, libc::SIGBUS, libc::SIGABRT, libc::SIGILL, libc::SIGFPE] {
            let mut sa: libc::sigaction = std::mem::zeroed();
            sa.sa_sigaction = on_fatal as usize;
            sa.sa_flags = libc::SA_ONSTACK;
            libc::sigemptyset(&mut sa.sa_mask);
            libc::sigaction(sig, &sa, std::ptr::null_mut());
        }
    }
}

fn install_altstack() {
    const SZ: usize = 1 << 16;
    let mem = Box::leak(vec![0u8; SZ].into_boxed_slice());
    let ss = libc::stack_t { ss_sp: mem.as_mut_ptr() as *mut libc::c_void, ss_flags: 0, ss_size: SZ };
    unsafe {
        libc::sigaltstack(&ss, std::ptr::null_mut());
    }
}

fn stats_line(next: usize, st: &Stats) -> String {
    let findings: Vec<Value> = st.findings.values().map(|(f, n)| json!({"key": f.key, "detail": f.detail, "case": f.case, "n": n})).collect();
    let j = json!({"evaluations": st.evaluations, "outcomes": st.outcomes, "counters": st.counters, "samples": st.samples, "findings": findings});
    let mut hex = String::with_capacity(st.distinct_nontrivial.len() * 16 + 1);
    for h in &st.distinct_nontrivial {
        hex.push_str(&format!("{h:016x}"));
    }
    if hex.is_empty() {
        hex.push('-');
    }
    format!("P {next} {} {hex}\n", serde_json::to_string(&j).unwrap())
}

/// Child side: evaluate lo..hi except `skip`, checkpoint every `every` cases.
pub fn child_main(space: &dyn IsoSpace, lo: usize, hi: usize, skip: &BTreeSet<usize>, every: usize, stack_mb: usize) -> ! {
    install_handlers();
    let limit = space.limit_ms();
    // watchdog
    std::thread::spawn(move || {
        let mut last = (PROGRESS.load(Ordering::SeqCst), std::time::Instant::now());
        loop {
            std::thread::sleep(std::time::Duration::from_millis(100));
            let p = PROGRESS.load(Ordering::SeqCst);
            if p != last.0 {
                last = (p, std::time::Instant::now());
            } else if CURRENT.load(Ordering::SeqCst) >= 0 && last.1.elapsed().as_millis() as u64 > limit {
                let s = format!("\nT {}\n", CURRENT.load(Ordering::SeqCst));
                unsafe {
                    libc::write(1, s.as_ptr() as *const libc::c_void, s.len());
                    libc::_exit(98);
                }
            }
        }
    });
    let r = std::thread::scope(|s| {
        std::thread::Builder::new()
            .stack_size(stack_mb << 20)
            .spawn_scoped(s, || {
                install_altstack();
                let out = std::io::stdout();
                let mut st = Stats::new();
                let mut since = 0usize;
                for idx in lo..hi {
                    if skip.contains(&idx) {
                        continue;
                    }
                    CURRENT.store(idx as i64, Ordering::SeqCst);
                    PROGRESS.fetch_add(1, Ordering::SeqCst);
                    space.eval(idx, &mut st);
                    CURRENT.store(-1, Ordering::SeqCst);
                    since += 1;
                    if since >= every {
                        let line = stats_line(idx + 1, &st);
                        let mut o = out.lock();
                        let _ = o.write_all(line.as_bytes());
                        let _ = o.flush();
                        st = Stats::new();
                        since = 0;
                    }
                }
                let line = stats_line(hi, &st);
                let mut o = out.lock();
                let _ = o.write_all(line.as_bytes());
                let _ = o.flush();
            })
            .unwrap()
            .join()
    });
    std::process::exit(if r.is_ok() { 0 } else { 97 })
}

pub struct IsoConfig {
    pub prop: String,
    pub mode: String,
    pub tier: &'static str,
    pub workers: usize,
    pub segment: usize,
    pub every: usize,
    pub stack_mb: usize,
}

fn parse_p(line: &str, st: &mut Stats) -> Result<usize, String> {
    let mut it = line.splitn(4, ' ');
    it.next();
    let next: usize = it.next().ok_or("P: no index")?.parse().map_err(|e| format!("P index: {e}"))?;
    // json has no blanks?  It may: so split from the right instead.
    let rest = &line[2 + next.to_string().len() + 1..];
    let (js, hex) = rest.rsplit_once(' ').ok_or("P: no hex blob")?;
    let v: Value = serde_json::from_str(js).map_err(|e| format!("P json: {e}"))?;
    st.evaluations += v["evaluations"].as_u64().unwrap_or(0);
    if let Some(o) = v["outcomes"].as_object() {
        for (k, n) in o {
            *st.outcomes.entry(k.clone()).or_insert(0) += n.as_u64().unwrap_or(0);
        }
    }
    if let Some(o) = v["counters"].as_object() {
        for (k, n) in o {
            let e = st.counters.entry(k.clone()).or_insert(0);
            let n = n.as_u64().unwrap_or(0);
            if k.starts_with("max_") {
                *e = (*e).max(n)
            } else {
                *e += n
            }
        }
    }
    if let Some(a) = v["samples"].as_array() {
        for s in a {
            if st.samples.len() < super::report::MAX_SAMPLES {
                st.samples.push(s.clone());
            }
        }
    }
    if let Some(a) = v["findings"].as_array() {
        for f in a {
            let fi = Finding { key: f["key"].as_str().unwrap_or("?").to_string(), detail: f["detail"].as_str().unwrap_or("").to_string(), case: f["case"].clone() };
            let n = f["n"].as_u64().unwrap_or(1);
            match st.findings.get_mut(&fi.key) {
                Some(e) => e.1 += n,
                None => {
                    st.findings.insert(fi.key.clone(), (fi, n));
                }
            }
        }
    }
    if hex != "-" {
        let b = hex.as_bytes();
        for c in b.chunks(16) {
            if c.len() == 16 {
                if let Ok(h) = u64::from_str_radix(std::str::from_utf8(c).unwrap_or("0"), 16) {
                    st.distinct_nontrivial.insert(h);
                }
            }
        }
    }
    Ok(next)
}

fn sig_name(sig: u64) -> &'static str {
    match sig as i32 {
        libc::SIGSEGV => "SIGSEGV",
        libc::SIGBUS => "SIGBUS",
        libc::SIGABRT => "SIGABRT",
        libc::SIGILL => "SIGILL",
        libc::SIGFPE => "SIGFPE",
        _ => "signal",
    }
}

/// Parent side.  Returns merged stats; deaths/timeouts are turned into findings
/// `<death_key> kind=<stack-overflow|alloc-refused|abort|timeout>`.
pub fn run(space: &dyn IsoSpace, cfg: &IsoConfig) -> Result<Stats, String> {
    let exe = std::env::current_exe().map_err(|e| format!("current_exe: {e}"))?;
    let n = space.len();
    let segs: Vec<(usize, usize)> = (0..n).step_by(cfg.segment.max(1)).map(|lo| (lo, (lo + cfg.segment).min(n))).collect();
    let next_seg = AtomicUsize::new(0);
    let total = Mutex::new(Stats::new());
    let err: Mutex<Option<String>> = Mutex::new(None);
    std::thread::scope(|s| {
        for _ in 0..cfg.workers.max(1).min(segs.len().max(1)) {
            s.spawn(|| loop {
                let k = next_seg.fetch_add(1, Ordering::SeqCst);
                if k >= segs.len() || err.lock().unwrap().is_some() {
                    break;
                }
                let (lo, hi) = segs[k];
                let mut checkpoint = lo;
                let mut skip: BTreeSet<usize> = BTreeSet::new();
                let mut local = Stats::new();
                let mut respawns = 0usize;
                'seg: loop {
                    if checkpoint >= hi {
                        break;
                    }
                    respawns += 1;
                    if respawns > (hi - lo) + 2 {
                        *err.lock().unwrap() = Some(format!("iso: segment {lo}..{hi} keeps dying without progress"));
                        break;
                    }
                    let skip_s: Vec<String> = skip.iter().filter(|&&i| i >= checkpoint).map(|i| i.to_string()).collect();
                    let mut child = match Command::new(&exe)
                        .arg("--child")
                        .arg(&cfg.prop)
                        .arg(&cfg.mode)
                        .arg(cfg.tier)
                        .arg(format!("{checkpoint}..{hi}"))
                        .arg(skip_s.join(","))
                        .arg(cfg.every.to_string())
                        .arg(cfg.stack_mb.to_string())
                        .stdin(Stdio::null())
                        .stdout(Stdio::piped())
                        .stderr(Stdio::null())
                        .spawn()
                    {
                        Ok(c) => c,
                        Err(e) => {
                            *err.lock().unwrap() = Some(format!("iso: spawn: {e}"));
                            break;
                        }
                    };
                    let out = BufReader::new(child.stdout.take().unwrap());
                    let mut died: Option<(usize, String)> = None;
                    for line in out.lines() {
                        let line = match line {
                            Ok(l) => l,
                            Err(_) => break,
                        };
                        if line.starts_with("P ") {
                            match parse_p(&line, &mut local) {
                                Ok(next) => checkpoint = next,
                                Err(e) => {
                                    *err.lock().unwrap() = Some(format!("iso: bad checkpoint line: {e}"));
                                    let _ = child.kill();
                                    let _ = child.wait();
                                    break 'seg;
                                }
                            }
                        } else if let Some(rest) = line.strip_prefix("D ") {
                            let mut it = rest.split(' ');
                            let idx: u64 = it.next().and_then(|x| x.parse().ok()).unwrap_or(u64::MAX);
                            let sig: u64 = it.next().and_then(|x| x.parse().ok()).unwrap_or(0);
                            let refused: u64 = it.next().and_then(|x| x.parse().ok()).unwrap_or(0);
                            if idx == u64::MAX {
                                *err.lock().unwrap() = Some(format!("iso: child died outside a case ({})", sig_name(sig)));
                                let _ = child.wait();
                                break 'seg;
                            }
                            let kind = if sig as i32 == libc::SIGSEGV || sig as i32 == libc::SIGBUS {
                                "stack-overflow-or-segv".to_string()
                            } else if refused > 0 {
                                "alloc-refused".to_string()
                            } else {
                                format!("abort-{}", sig_name(sig))
                            };
                            died = Some((idx as usize, format!("{kind}|{} refused_alloc={refused}", sig_name(sig))));
                        } else if let Some(rest) = line.strip_prefix("T ") {
                            let idx: i64 = rest.trim().parse().unwrap_or(-1);
                            if idx < 0 {
                                *err.lock().unwrap() = Some("iso: watchdog fired outside a case".into());
                                let _ = child.wait();
                                break 'seg;
                            }
                            died = Some((idx as usize, "timeout|no progress within the per-case limit".to_string()));
                        }
                    }
                    let status = child.wait();
                    match died {
                        Some((idx, what)) => {
                            let (kind, detail) = what.split_once('|').unwrap();
                            let key = format!("{}/kind={}", space.death_key(idx), kind);
                            local.finding(Finding::new(key, format!("isolated worker died on case {idx}: {detail}"), space.describe(idx)));
                            local.evaluations += 1;
                            local.outcome(&format!("died:{kind}"));
                            skip.insert(idx);
                            // cases between checkpoint and idx are re-run (their stats were lost with the child)
                        }
                        None => {
                            let ok = status.as_ref().map(|s| s.success()).unwrap_or(false);
                            if checkpoint < hi || !ok {
                                *err.lock().unwrap() = Some(format!("iso: child for {checkpoint}..{hi} ended without verdict (status {:?})", status));
                                break;
                            }
                        }
                    }
                }
                total.lock().unwrap().merge(local);
            });
        }
    });
    if let Some(e) = err.into_inner().unwrap() {
        return Err(e);
    }
    Ok(total.into_inner().unwrap())
}

/// Note a refused allocation (called by the allocator wrapper in main.rs).
pub fn note_refused(size: usize) {
    LAST_REFUSED.store(size, Ordering::SeqCst);
}
pub fn clear_refused() {
    LAST_REFUSED.store(0, Ordering::SeqCst);
}
pub fn _alloc_anchor() {
    let _ = alloc::read();
}
