pub mod alloc;
pub mod exec;
pub mod iso;
pub mod par;
pub mod report;
pub use report::*;
