pub mod alloc;
pub mod dict;
pub mod exec;
pub mod graph;
pub mod iso;
pub mod par;
pub mod report;
pub use report::*;
