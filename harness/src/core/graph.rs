//! E-graph: explicit-state search (stateright) over the *real* transition function.
//! A state is the symbolic action history that reaches it (replayed on fresh real objects for
//! every transition) plus a canonical snapshot used for deduplication.  stateright is used as the
//! parallel enumerator/deduplicator only: its single property is a trivially true `always`, and
//! every transition reports its oracle verdicts into a collector, so a finding never stops the
//! search for others.
use super::report::{Finding, Stats};
use stateright::{Checker, Model, Property};
use std::fmt::Debug;
use std::hash::{Hash, Hasher};
use std::sync::atomic::{AtomicU64, Ordering};
use std::sync::{Arc, Mutex};

pub trait Sys: Send + Sync + 'static {
    type Act: Clone + Debug + PartialEq + Send + Sync + 'static;
    type Snap: Clone + Debug + Hash + Eq + Send + Sync + 'static;
    /// number of initial configurations
    fn inits(&self) -> usize;
    /// snapshot of initial configuration i
    fn init_snap(&self, init: usize) -> Self::Snap;
    fn actions(&self, init: usize, snap: &Self::Snap, depth: usize) -> Vec<Self::Act>;
    /// Rebuild the real objects for `init`, replay `hist`, apply `act`; return the new snapshot and
    /// the oracle's findings about the last step only.  Must be deterministic up to the
    /// canonicalisation in Snap.
    fn step(&self, init: usize, hist: &[Self::Act], act: &Self::Act, st: &mut Stats) -> Option<Self::Snap>;
    fn max_depth(&self) -> usize;
}

pub struct St<S: Sys> {
    pub init: usize,
    pub hist: Vec<S::Act>,
    pub snap: S::Snap,
}
impl<S: Sys> Clone for St<S> {
    fn clone(&self) -> Self {
        St { init: self.init, hist: self.hist.clone(), snap: self.snap.clone() }
    }
}
impl<S: Sys> Debug for St<S> {
    fn fmt(&self, f: &mut std::fmt::Formatter<'_>) -> std::fmt::Result {
        write!(f, "St(init={}, hist={:?}, snap={:?})", self.init, self.hist, self.snap)
    }
}
impl<S: Sys> Hash for St<S> {
    fn hash<H: Hasher>(&self, h: &mut H) {
        // depth is part of the key: under parallel BFS a state may first be reached by a longer
        // path, and a depth-bounded search must still expand it from the shorter one
        self.snap.hash(h);
        self.hist.len().hash(h);
    }
}
impl<S: Sys> PartialEq for St<S> {
    fn eq(&self, o: &Self) -> bool {
        self.snap == o.snap && self.hist.len() == o.hist.len()
    }
}

pub struct Adapter<S: Sys> {
    pub sys: Arc<S>,
    pub transitions: Arc<AtomicU64>,
    pub stats: Arc<Mutex<Stats>>,
}

impl<S: Sys> Model for Adapter<S> {
    type State = St<S>;
    type Action = S::Act;
    fn init_states(&self) -> Vec<St<S>> {
        (0..self.sys.inits()).map(|i| St { init: i, hist: vec![], snap: self.sys.init_snap(i) }).collect()
    }
    fn actions(&self, s: &St<S>, out: &mut Vec<S::Act>) {
        if s.hist.len() < self.sys.max_depth() {
            out.extend(self.sys.actions(s.init, &s.snap, s.hist.len()));
        }
    }
    fn next_state(&self, s: &St<S>, a: S::Act) -> Option<St<S>> {
        self.transitions.fetch_add(1, Ordering::Relaxed);
        let mut local = Stats::new();
        let snap = self.sys.step(s.init, &s.hist, &a, &mut local);
        self.stats.lock().unwrap().merge(local);
        let snap = snap?;
        let mut hist = s.hist.clone();
        hist.push(a);
        Some(St { init: s.init, hist, snap })
    }
    fn properties(&self) -> Vec<Property<Self>> {
        vec![Property::always("enumerate", |_, _| true)]
    }
}

pub struct GraphOut {
    pub states: u64,
    pub generated: u64,
    pub transitions: u64,
    pub max_depth: usize,
    pub stats: Stats,
}

pub fn search<S: Sys>(sys: S, threads: usize) -> GraphOut {
    let sys = Arc::new(sys);
    let transitions = Arc::new(AtomicU64::new(0));
    let stats = Arc::new(Mutex::new(Stats::new()));
    let model = Adapter { sys: sys.clone(), transitions: transitions.clone(), stats: stats.clone() };
    let checker = model.checker().threads(threads.max(1)).spawn_bfs().join();
    let out = GraphOut {
        states: checker.unique_state_count() as u64,
        generated: checker.state_count() as u64,
        transitions: transitions.load(Ordering::Relaxed),
        max_depth: checker.max_depth(),
        stats: std::mem::take(&mut *stats.lock().unwrap()),
    };
    out
}

/// Run the search twice (different thread counts) and demand identical state/transition counts:
/// the model must be deterministic and the dedup sound under parallel search.
pub fn search_twice<S: Sys + Clone>(sys: S, threads: usize) -> Result<GraphOut, String> {
    let a = search(sys.clone(), threads);
    let b = search(sys, (threads / 2).max(1));
    if a.states != b.states || a.transitions != b.transitions {
        return Err(format!("graph search is not deterministic: {} states / {} transitions with {threads} threads, {} / {} with {}", a.states, a.transitions, b.states, b.transitions, (threads / 2).max(1)));
    }
    Ok(a)
}

pub fn no_findings(_: Vec<Finding>) {}

/// Level-synchronous parallel BFS written for systems whose transitions are expensive (history
/// replay on real objects): stateright hands out work in blocks of 1500 states, which serialises
/// small-but-heavy graphs.  Every (state, action) pair of a level is evaluated in parallel, the
/// results are merged in index order (so the search is deterministic for any thread count) and
/// deduplicated on the snapshot; a state is therefore always expanded from a shortest history.
pub fn bfs<S: Sys>(sys: &S, threads: usize) -> GraphOut {
    use std::collections::HashSet;
    let mut seen: HashSet<S::Snap> = HashSet::new();
    let mut frontier: Vec<(usize, Vec<S::Act>, S::Snap)> = vec![];
    for i in 0..sys.inits() {
        let snap = sys.init_snap(i);
        // identical snapshots of different initial configurations are still different systems
        // (the init index selects the seeded store), so initial states are never merged
        seen.insert(snap.clone());
        frontier.push((i, vec![], snap));
    }
    let mut states = frontier.len() as u64;
    let mut transitions = 0u64;
    let mut total = Stats::new();
    let mut depth = 0usize;
    let mut init_seen: Vec<HashSet<S::Snap>> = (0..sys.inits()).map(|i| [sys.init_snap(i)].into_iter().collect()).collect();
    while !frontier.is_empty() && depth < sys.max_depth() {
        let work: Vec<(usize, S::Act)> = frontier.iter().enumerate().flat_map(|(k, (init, _h, snap))| sys.actions(*init, snap, depth).into_iter().map(move |a| (k, a))).collect();
        transitions += work.len() as u64;
        let results: Mutex<Vec<(usize, Option<S::Snap>)>> = Mutex::new(Vec::with_capacity(work.len()));
        let st = super::par::sweep(work.len(), threads, 1, |w, st| {
            let (k, a) = &work[w];
            let (init, hist, _) = &frontier[*k];
            let snap = sys.step(*init, hist, a, st);
            results.lock().unwrap().push((w, snap));
        });
        total.merge(st);
        let mut results = results.into_inner().unwrap();
        results.sort_by_key(|r| r.0);
        let mut next = vec![];
        for (w, snap) in results {
            let Some(snap) = snap else { continue };
            let (k, a) = &work[w];
            let (init, hist, _) = &frontier[*k];
            if init_seen[*init].insert(snap.clone()) {
                seen.insert(snap.clone());
                let mut h = hist.clone();
                h.push(a.clone());
                next.push((*init, h, snap));
                states += 1;
            }
        }
        frontier = next;
        depth += 1;
    }
    GraphOut { states, generated: transitions + sys.inits() as u64, transitions, max_depth: depth, stats: total }
}
