//! Constants dictionary: every string / byte-string literal in the library sources of the current
//! working tree.  Used as an input alphabet ("one input per shortcut you can see in the code"):
//! a value the code compares against, hashes or derives from is a value worth feeding back in.
use std::collections::BTreeSet;
use std::path::Path;

fn walk(dir: &Path, out: &mut Vec<std::path::PathBuf>) {
    let Ok(rd) = std::fs::read_dir(dir) else { return };
    let mut es: Vec<_> = rd.flatten().map(|e| e.path()).collect();
    es.sort();
    for p in es {
        if p.is_dir() {
            walk(&p, out);
        } else if p.extension().map(|e| e == "rs").unwrap_or(false) {
            out.push(p);
        }
    }
}

/// Literals of one source text (plain `"…"` and `b"…"`, common escapes resolved; raw strings and
/// anything with an escape this scanner does not know are skipped).
pub fn literals_of(text: &str) -> Vec<Vec<u8>> {
    let b = text.as_bytes();
    let mut out = vec![];
    let mut i = 0;
    while i < b.len() {
        // skip line comments and char literals that contain a quote
        if b[i] == b'/' && i + 1 < b.len() && b[i + 1] == b'/' {
            while i < b.len() && b[i] != b'\n' {
                i += 1;
            }
            continue;
        }
        if b[i] == b'\'' && i + 2 < b.len() && b[i + 1] == b'"' && b[i + 2] == b'\'' {
            i += 3;
            continue;
        }
        if b[i] == b'"' {
            let mut j = i + 1;
            let mut lit = vec![];
            let mut ok = true;
            while j < b.len() && b[j] != b'"' {
                if b[j] == b'\\' && j + 1 < b.len() {
                    match b[j + 1] {
                        b'0' => lit.push(0),
                        b'n' => lit.push(b'\n'),
                        b't' => lit.push(b'\t'),
                        b'r' => lit.push(b'\r'),
                        b'\\' => lit.push(b'\\'),
                        b'"' => lit.push(b'"'),
                        b'\'' => lit.push(b'\''),
                        _ => ok = false,
                    }
                    j += 2;
                } else {
                    lit.push(b[j]);
                    j += 1;
                }
            }
            if ok && !lit.is_empty() {
                out.push(lit);
            }
            i = j + 1;
            continue;
        }
        i += 1;
    }
    out
}

/// Distinct literals (1..=`max_len` bytes) in `<repo>/<crate>/src/**/*.rs`, sorted.
pub fn source_literals(crates: &[&str], max_len: usize) -> Vec<Vec<u8>> {
    let root = std::env::var("VERIF_REPO").unwrap_or_else(|_| "/repo".into());
    let mut set = BTreeSet::new();
    for c in crates {
        let mut files = vec![];
        walk(&Path::new(&root).join(c).join("src"), &mut files);
        for f in files {
            if let Ok(t) = std::fs::read_to_string(&f) {
                for l in literals_of(&t) {
                    if l.len() <= max_len {
                        set.insert(l);
                    }
                }
            }
        }
    }
    set.into_iter().collect()
}

/// Names of process-environment variables the library sources may read: every literal made of
/// capitals, digits and underscores (3+ bytes) in a source file that mentions `env::` or `env!`/
/// `option_env!` - the process environment is an input like any other ("env pass" in main.rs).
pub fn env_names() -> Vec<String> {
    let root = std::env::var("VERIF_REPO").unwrap_or_else(|_| "/repo".into());
    let mut set = BTreeSet::new();
    for c in ["passkey", "passkey-authenticator", "passkey-client", "passkey-transports", "passkey-types", "public-suffix"] {
        let mut files = vec![];
        walk(&Path::new(&root).join(c).join("src"), &mut files);
        for f in files {
            if f.file_name().map(|n| n == "tld_list.rs").unwrap_or(false) {
                continue;
            }
            let Ok(t) = std::fs::read_to_string(&f) else { continue };
            if !(t.contains("env::") || t.contains("env!(") || t.contains("var_os(") || t.contains("env::var")) {
                continue;
            }
            for l in literals_of(&t) {
                if l.len() >= 3 && l.len() <= 64 && l[0].is_ascii_uppercase() && l.iter().all(|b| b.is_ascii_uppercase() || b.is_ascii_digit() || *b == b'_') {
                    set.insert(String::from_utf8_lossy(&l).to_string());
                }
            }
        }
    }
    set.into_iter().collect()
}

/// Byte-array constants written as array-repeat expressions `[<byte literal>; <length>]` in the
/// library sources (any length up to 4096), as (value, length) expanded to bytes; together with
/// the string literals this covers the ways a sentinel byte string can be spelled in the code.
pub fn array_repeat_constants(crates: &[&str]) -> Vec<Vec<u8>> {
    let root = std::env::var("VERIF_REPO").unwrap_or_else(|_| "/repo".into());
    let mut set = BTreeSet::new();
    let num = |t: &str| -> Option<u64> {
        let t = t.trim().trim_end_matches("u8").trim_end_matches("usize").trim_end_matches('_');
        if let Some(h) = t.strip_prefix("0x") {
            u64::from_str_radix(&h.replace('_', ""), 16).ok()
        } else if let Some(b) = t.strip_prefix("0b") {
            u64::from_str_radix(&b.replace('_', ""), 2).ok()
        } else if let Some(c) = t.strip_prefix("b'").and_then(|x| x.strip_suffix('\'')) {
            (c.len() == 1).then(|| u64::from(c.as_bytes()[0]))
        } else {
            t.replace('_', "").parse().ok()
        }
    };
    for c in crates {
        let mut files = vec![];
        walk(&Path::new(&root).join(c).join("src"), &mut files);
        for f in files {
            if f.file_name().map(|n| n == "tld_list.rs").unwrap_or(false) {
                continue;
            }
            let Ok(t) = std::fs::read_to_string(&f) else { continue };
            let b = t.as_bytes();
            let mut i = 0;
            while i < b.len() {
                if b[i] == b'[' {
                    if let Some(end) = t[i..].find(']').map(|e| i + e) {
                        let inner = &t[i + 1..end];
                        if inner.len() < 40 && !inner.contains('[') {
                            if let Some((v, n)) = inner.split_once(';') {
                                if let (Some(v), Some(n)) = (num(v), num(n)) {
                                    if v <= 255 && (1..=4096).contains(&n) {
                                        set.insert(vec![v as u8; n as usize]);
                                    }
                                }
                            }
                        }
                    }
                }
                i += 1;
            }
        }
    }
    set.into_iter().collect()
}
