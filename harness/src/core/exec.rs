//! Executors owned by the harness.
//!  * `block_on` / `poll_n` – single future, counts resumptions, can cancel (drop) after k polls.
//!  * `explore` – deviation(preemption)-bounded stateless exploration of all schedules of 2..3
//!    futures on one thread; every suspension point is a scheduling point.
use std::future::Future;
use std::pin::Pin;
use std::sync::atomic::{AtomicBool, AtomicUsize, Ordering};
use std::sync::Arc;
use std::task::{Context, Poll, Wake, Waker};

struct Flag {
    woken: AtomicBool,
    wakes: AtomicUsize,
}
impl Wake for Flag {
    fn wake(self: Arc<Self>) {
        self.wake_by_ref()
    }
    fn wake_by_ref(self: &Arc<Self>) {
        self.woken.store(true, Ordering::SeqCst);
        self.wakes.fetch_add(1, Ordering::SeqCst);
    }
}
fn flag() -> Arc<Flag> {
    Arc::new(Flag { woken: AtomicBool::new(true), wakes: AtomicUsize::new(0) })
}

/// A future that suspends exactly once (and wakes itself), i.e. one scheduling point.
pub struct YieldOnce(bool);
pub fn yield_once() -> YieldOnce {
    YieldOnce(false)
}
impl Future for YieldOnce {
    type Output = ();
    fn poll(mut self: Pin<&mut Self>, cx: &mut Context<'_>) -> Poll<()> {
        if self.0 {
            Poll::Ready(())
        } else {
            self.0 = true;
            cx.waker().wake_by_ref();
            Poll::Pending
        }
    }
}
pub async fn yield_n(n: usize) {
    for _ in 0..n {
        yield_once().await;
    }
}

#[derive(Debug)]
pub enum Polled<T> {
    Done { value: T, polls: usize },
    /// dropped after `polls` polls while still pending
    Cancelled { polls: usize },
    /// pending and nobody will ever wake it
    Stuck { polls: usize },
}

/// Poll `fut` at most `max_polls` times (None = to completion); the future is dropped when this
/// returns, which is what cancellation means for a Rust future.
pub fn poll_n<F: Future>(fut: F, max_polls: Option<usize>) -> Polled<F::Output> {
    let mut fut = Box::pin(fut);
    let fl = flag();
    let waker = Waker::from(fl.clone());
    let mut cx = Context::from_waker(&waker);
    let mut polls = 0usize;
    loop {
        if let Some(m) = max_polls {
            if polls >= m {
                return Polled::Cancelled { polls };
            }
        }
        if !fl.woken.swap(false, Ordering::SeqCst) {
            return Polled::Stuck { polls };
        }
        polls += 1;
        if let Poll::Ready(v) = fut.as_mut().poll(&mut cx) {
            return Polled::Done { value: v, polls };
        }
        if polls > 100_000 {
            return Polled::Stuck { polls };
        }
    }
}

/// Drive to completion; a future that blocks forever is a harness error.
pub fn block_on<F: Future>(fut: F) -> F::Output {
    match poll_n(fut, None) {
        Polled::Done { value, .. } => value,
        other => panic!("harness: block_on on a future that cannot complete ({:?} polls)", match other {
            Polled::Stuck { polls } | Polled::Cancelled { polls } => polls,
            _ => 0,
        }),
    }
}

// ------------------------------------------------------------------------------------------
// Schedule exploration

pub type Task = Pin<Box<dyn Future<Output = ()>>>;

#[derive(Clone, Debug)]
pub struct Point {
    /// ids of the enabled tasks in canonical order (running task first if still enabled)
    pub enabled: Vec<usize>,
    pub running_still_enabled: bool,
}

#[derive(Debug, Clone, PartialEq, Eq)]
pub enum End {
    AllDone,
    Deadlock { unfinished: Vec<usize> },
    Livelock,
}

pub struct Execution {
    pub choices: Vec<usize>,
    pub points: Vec<Point>,
    /// task id run at each step
    pub trace: Vec<usize>,
    pub end: End,
    pub preemptions: usize,
    pub max_enabled: usize,
}

/// Run one schedule: follow `prefix` (choice indices into the canonical enabled list), then always
/// choice 0.  An out-of-range prefix choice is a hard error (divergence while replaying).
pub fn run_schedule(tasks: Vec<Task>, prefix: &[usize], horizon: usize) -> Result<Execution, String> {
    let n = tasks.len();
    let mut tasks: Vec<Option<Task>> = tasks.into_iter().map(Some).collect();
    let flags: Vec<Arc<Flag>> = (0..n).map(|_| flag()).collect();
    let wakers: Vec<Waker> = flags.iter().map(|f| Waker::from(f.clone())).collect();
    let mut ex = Execution { choices: vec![], points: vec![], trace: vec![], end: End::AllDone, preemptions: 0, max_enabled: 0 };
    let mut running: Option<usize> = None;
    loop {
        let unfinished: Vec<usize> = (0..n).filter(|&i| tasks[i].is_some()).collect();
        if unfinished.is_empty() {
            ex.end = End::AllDone;
            break;
        }
        let mut enabled: Vec<usize> = unfinished.iter().copied().filter(|&i| flags[i].woken.load(Ordering::SeqCst)).collect();
        if enabled.is_empty() {
            ex.end = End::Deadlock { unfinished };
            break;
        }
        if ex.trace.len() >= horizon {
            ex.end = End::Livelock;
            break;
        }
        let mut rse = false;
        if let Some(r) = running {
            if let Some(pos) = enabled.iter().position(|&i| i == r) {
                enabled.remove(pos);
                enabled.insert(0, r);
                rse = true;
            }
        }
        let step = ex.points.len();
        let c = if step < prefix.len() { prefix[step] } else { 0 };
        if c >= enabled.len() {
            return Err(format!("schedule divergence at step {step}: choice {c} but only {} enabled", enabled.len()));
        }
        if rse && c != 0 {
            ex.preemptions += 1;
        }
        ex.max_enabled = ex.max_enabled.max(enabled.len());
        let t = enabled[c];
        ex.points.push(Point { enabled, running_still_enabled: rse });
        ex.choices.push(c);
        ex.trace.push(t);
        flags[t].woken.store(false, Ordering::SeqCst);
        let mut cx = Context::from_waker(&wakers[t]);
        let done = tasks[t].as_mut().unwrap().as_mut().poll(&mut cx).is_ready();
        if done {
            tasks[t] = None;
        }
        running = Some(t);
    }
    Ok(ex)
}

#[derive(Default, Debug, Clone)]
pub struct ExploreStats {
    pub schedules: u64,
    pub points: u64,
    pub max_enabled: usize,
    pub max_preemptions_seen: usize,
    pub capped: bool,
}

/// DFS over all schedules with at most `bound` preemptions (None = unbounded).  `mk` builds a
/// fresh system for every schedule; `check` sees every complete execution.
pub fn explore<M, C>(mk: M, bound: Option<usize>, horizon: usize, max_schedules: u64, mut check: C) -> Result<ExploreStats, String>
where
    M: Fn() -> Vec<Task>,
    C: FnMut(&Execution),
{
    let mut st = ExploreStats::default();
    let mut stack: Vec<Vec<usize>> = vec![vec![]];
    while let Some(prefix) = stack.pop() {
        if st.schedules >= max_schedules {
            st.capped = true;
            break;
        }
        let ex = run_schedule(mk(), &prefix, horizon)?;
        st.schedules += 1;
        st.points += ex.points.len() as u64;
        st.max_enabled = st.max_enabled.max(ex.max_enabled);
        st.max_preemptions_seen = st.max_preemptions_seen.max(ex.preemptions);
        check(&ex);
        // preemptions used before step i
        let mut used = 0usize;
        let mut alts: Vec<Vec<usize>> = vec![];
        for i in 0..ex.points.len() {
            let p = &ex.points[i];
            if i >= prefix.len() {
                let cost = used + usize::from(p.running_still_enabled);
                if bound.map_or(true, |b| cost <= b) {
                    for alt in 1..p.enabled.len() {
                        let mut np = ex.choices[..i].to_vec();
                        np.push(alt);
                        alts.push(np);
                    }
                }
            }
            if p.running_still_enabled && ex.choices[i] != 0 {
                used += 1;
            }
        }
        // push in reverse so that the shallowest deviation is explored first
        for a in alts.into_iter().rev() {
            stack.push(a);
        }
    }
    Ok(st)
}
