//! Engine E-thread, main-harness side: run /verif/tools/thr_run.sh (which builds /verif/harness-thr
//! against a copy of the library in which std's synchronisation primitives are shuttle's, and lets
//! shuttle's depth-first scheduler enumerate every interleaving of two or three threads), and fold
//! its result into this check's coverage and findings.
use super::report::{Ctx, Finding, Run, Tier};
use serde_json::{json, Value};
use std::process::Command;

fn tools() -> String {
    std::env::var("VERIF_TOOLS").unwrap_or_else(|_| "/verif/tools".into())
}

/// Not in build variants and not in the log pass: one thread exploration per check run.
pub fn wanted() -> bool {
    crate::variant().is_empty() && std::env::var("VERIF_LOG").is_err()
}

fn key_of(case: &str) -> String {
    let seg: Vec<&str> = case.split('/').collect();
    format!("thread/{}", seg.iter().take(2).cloned().collect::<Vec<_>>().join("/"))
}

fn invoke(prop: &str, tier: &str, case: Option<&str>) -> Result<(Value, Option<Value>, Option<String>), String> {
    let mut c = Command::new(format!("{}/thr_run.sh", tools()));
    c.arg(prop).arg(tier);
    if let Some(cs) = case {
        c.arg(cs);
    }
    let out = c.output().map_err(|e| format!("cannot run thr_run.sh: {e}"))?;
    let text = String::from_utf8_lossy(&out.stdout).to_string();
    let mut rewrite = Value::Null;
    let mut result = None;
    for l in text.lines() {
        if let Some(j) = l.strip_prefix("THR-REWRITE ") {
            rewrite = serde_json::from_str(j).unwrap_or(Value::Null);
        }
        if let Some(j) = l.strip_prefix("THR-JSON ") {
            result = serde_json::from_str(j).ok();
        }
    }
    match out.status.code() {
        Some(0) => match result {
            Some(r) => Ok((rewrite, Some(r), None)),
            None => Err(format!("thread exploration printed no result: {}", text.chars().take(300).collect::<String>())),
        },
        Some(3) => Ok((rewrite, None, Some("the copy of the library with std's synchronisation primitives redirected to the scheduler's does not build; interleavings of OS threads were not explored in this run".into()))),
        Some(4) => Ok((rewrite, None, Some("the thread exploration did not end within its time limit (a primitive the scheduler does not model can block a scheduled thread for good); interleavings of OS threads were not explored in this run".into()))),
        c => Err(format!("thread exploration failed (exit {c:?}): {}", text.lines().filter(|l| l.starts_with("THR-ERROR")).collect::<Vec<_>>().join(" "))),
    }
}

/// Run the exploration for `prop` and add its coverage / findings to `run`.
pub fn explore_into(ctx: &Ctx, prop: &str, run: &mut Run) -> Result<(), String> {
    if !wanted() {
        return Ok(());
    }
    let tier = match ctx.tier {
        Tier::Quick => "quick",
        Tier::Thorough => "thorough",
    };
    let (rewrite, result, note) = invoke(prop, tier, None)?;
    let mut cov = json!({
        "engine": "shuttle 0.9 depth-first scheduler (check_dfs) over the library built from /repo's working tree with std::sync / core::sync / std::thread / thread_local! redirected to shuttle's primitives",
        "redirected_sources": rewrite.get("rewritten").cloned().unwrap_or(Value::Null),
        "primitives_seen_in_redirected_sources": rewrite.get("primitives").cloned().unwrap_or(Value::Null),
        "constructs_the_scheduler_cannot_model": rewrite.get("unmodelled").cloned().unwrap_or(Value::Null),
    });
    if let Some(n) = note {
        println!("THREAD-EXPLORATION-SKIPPED: {n}");
        cov["skipped"] = json!(n);
    }
    if let Some(r) = result {
        for k in ["cases", "executions", "capped_cases", "cap_per_case", "max_executions_in_a_case", "distinct_observations"] {
            cov[k] = r[k].clone();
        }
        cov["exhaustive_within_each_case"] = json!(r["capped_cases"].as_u64() == Some(0));
        for v in r["violations"].as_array().cloned().unwrap_or_default() {
            let case = v["case"].as_str().unwrap_or("").to_string();
            let f = Finding::new(key_of(&case), format!("{} [threads {} after {}]", v["detail"].as_str().unwrap_or(""), v["threads"].as_str().unwrap_or(""), v.get("prefix").and_then(|p| p.as_str()).unwrap_or("[]")), json!({"thread_case": case, "tier": tier}));
            match run.findings.get_mut(&f.key) {
                Some(e) => e.1 += 1,
                None => {
                    run.findings.insert(f.key.clone(), (f, 1));
                }
            }
        }
    }
    run.set("thread_interleavings", cov);
    Ok(())
}

/// Replay: the one case's exploration again (depth-first order is deterministic).
pub fn replay(prop: &str, case: &Value) -> Option<Result<Vec<Finding>, String>> {
    let name = case.get("thread_case")?.as_str()?.to_string();
    let tier = case.get("tier").and_then(|t| t.as_str()).unwrap_or("quick").to_string();
    Some(invoke(prop, &tier, Some(&name)).and_then(|(_, result, note)| {
        if let Some(n) = note {
            return Err(n);
        }
        let r = result.ok_or("no result")?;
        Ok(r["violations"]
            .as_array()
            .cloned()
            .unwrap_or_default()
            .into_iter()
            .map(|v| Finding::new(key_of(&name), format!("{} [threads {}]", v["detail"].as_str().unwrap_or(""), v["threads"].as_str().unwrap_or("")), json!({"thread_case": name, "tier": tier})))
            .collect())
    }))
}
