//! Sharded exhaustive enumeration: indices 0..n are handed out in chunks to `threads` workers.
use super::report::Stats;
use std::sync::atomic::{AtomicUsize, Ordering};

pub fn sweep<F>(n: usize, threads: usize, chunk: usize, f: F) -> Stats
where
    F: Fn(usize, &mut Stats) + Sync,
{
    let next = AtomicUsize::new(0);
    let chunk = chunk.max(1);
    let threads = threads.max(1).min(n.max(1));
    let mut total = Stats::new();
    std::thread::scope(|s| {
        let hs: Vec<_> = (0..threads)
            .map(|_| {
                s.spawn(|| {
                    let mut st = Stats::new();
                    loop {
                        let lo = next.fetch_add(chunk, Ordering::Relaxed);
                        if lo >= n {
                            break;
                        }
                        for i in lo..(lo + chunk).min(n) {
                            f(i, &mut st);
                        }
                    }
                    st
                })
            })
            .collect();
        // merge in thread order; samples are taken from low indices first because thread 0
        // starts with chunk 0
        for h in hs {
            match h.join() {
                Ok(st) => total.merge(st),
                Err(e) => std::panic::resume_unwind(e),
            }
        }
    });
    total
}

/// Sweep over a slice of cases.
pub fn sweep_cases<T: Sync, F>(cases: &[T], threads: usize, f: F) -> Stats
where
    F: Fn(&T, &mut Stats) + Sync,
{
    let chunk = (cases.len() / (threads.max(1) * 8)).clamp(1, 4096);
    sweep(cases.len(), threads, chunk, |i, st| f(&cases[i], st))
}

/// Run `f` under catch_unwind, turning a panic into its message (panic output is silenced by the
/// hook installed in main).
pub fn catch<R>(f: impl FnOnce() -> R) -> Result<R, String> {
    match std::panic::catch_unwind(std::panic::AssertUnwindSafe(f)) {
        Ok(r) => Ok(r),
        Err(e) => {
            let msg = if let Some(s) = e.downcast_ref::<&str>() {
                s.to_string()
            } else if let Some(s) = e.downcast_ref::<String>() {
                s.clone()
            } else {
                "<non-string panic>".to_string()
            };
            let loc = LAST_PANIC_LOC.with(|l| l.borrow_mut().take()).unwrap_or_default();
            Err(format!("{msg} @ {loc}"))
        }
    }
}

thread_local! {
    pub static LAST_PANIC_LOC: std::cell::RefCell<Option<String>> = const { std::cell::RefCell::new(None) };
}

/// Quiet panic hook that remembers the location (file:line) per thread.
pub fn install_panic_hook() {
    std::panic::set_hook(Box::new(|info| {
        let loc = info.location().map(|l| {
            let f = l.file();
            // keep the path stable across checkouts: strip everything up to the crate dir
            let short = f.rsplit_once("/repo/").map(|x| x.1).unwrap_or(f);
            let short = match short.find("/registry/src/") {
                Some(p) => short[p + 14..].split_once('/').map(|x| x.1).unwrap_or(short),
                None => short,
            };
            format!("{}:{}", short, l.line())
        });
        if std::env::var_os("VCHECK_DEBUG").is_some() {
            eprintln!("panic: {info}");
        }
        LAST_PANIC_LOC.with(|l| *l.borrow_mut() = loc);
    }));
}

/// "file.rs" part of a panic location "path/file.rs:123" and the location itself.
pub fn panic_site(msg: &str) -> String {
    msg.rsplit_once(" @ ").map(|x| x.1.to_string()).unwrap_or_else(|| "unknown".into())
}
