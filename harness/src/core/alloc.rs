//! Counting global allocator: per-thread largest single request and bytes requested since the
//! last reset; requests above REFUSE_ABOVE are refused (null) so that an absurd allocation aborts
//! the (child) process immediately instead of thrashing.
use std::alloc::{GlobalAlloc, Layout, System};
use std::cell::Cell;

pub const REFUSE_ABOVE: usize = 1 << 30;
/// Refusal is for the isolated worker processes only (they run the library on hostile input); the
/// parent, which merges the workers' coverage sets, may allocate whatever it needs.
static REFUSE: std::sync::atomic::AtomicBool = std::sync::atomic::AtomicBool::new(false);
pub fn refuse_absurd_requests(on: bool) {
    REFUSE.store(on, std::sync::atomic::Ordering::SeqCst);
}
#[inline]
fn refusing() -> bool {
    REFUSE.load(std::sync::atomic::Ordering::Relaxed)
}

thread_local! {
    static MAX_REQ: Cell<usize> = const { Cell::new(0) };
    static TOTAL_REQ: Cell<usize> = const { Cell::new(0) };
}

pub struct Counting;

#[inline]
fn note(size: usize) {
    let _ = MAX_REQ.try_with(|m| {
        if size > m.get() {
            m.set(size)
        }
    });
    let _ = TOTAL_REQ.try_with(|t| t.set(t.get().saturating_add(size)));
}

unsafe impl GlobalAlloc for Counting {
    unsafe fn alloc(&self, l: Layout) -> *mut u8 {
        note(l.size());
        if l.size() > REFUSE_ABOVE && refusing() {
            super::iso::note_refused(l.size());
            return std::ptr::null_mut();
        }
        System.alloc(l)
    }
    unsafe fn alloc_zeroed(&self, l: Layout) -> *mut u8 {
        note(l.size());
        if l.size() > REFUSE_ABOVE && refusing() {
            super::iso::note_refused(l.size());
            return std::ptr::null_mut();
        }
        System.alloc_zeroed(l)
    }
    unsafe fn dealloc(&self, p: *mut u8, l: Layout) {
        System.dealloc(p, l)
    }
    unsafe fn realloc(&self, p: *mut u8, l: Layout, new: usize) -> *mut u8 {
        note(new);
        if new > REFUSE_ABOVE && refusing() {
            super::iso::note_refused(new);
            return std::ptr::null_mut();
        }
        System.realloc(p, l, new)
    }
}

pub fn reset() {
    MAX_REQ.with(|m| m.set(0));
    TOTAL_REQ.with(|m| m.set(0));
}
/// (largest single request, sum of requests) on this thread since `reset`
pub fn read() -> (usize, usize) {
    (MAX_REQ.with(|m| m.get()), TOTAL_REQ.with(|m| m.get()))
}
