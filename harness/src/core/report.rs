//! Findings, coverage counters, evidence files, known-findings file, replay files.
use serde_json::{json, Map, Value};
use std::collections::{BTreeMap, HashSet};
use std::hash::{Hash, Hasher};
use std::path::{Path, PathBuf};
use std::time::Instant;

#[derive(Clone, Copy, PartialEq, Eq, Debug)]
pub enum Tier {
    Quick,
    Thorough,
}
impl Tier {
    pub fn name(self) -> &'static str {
        match self {
            Tier::Quick => "quick",
            Tier::Thorough => "thorough",
        }
    }
    pub fn pick<T>(self, q: T, t: T) -> T {
        match self {
            Tier::Quick => q,
            Tier::Thorough => t,
        }
    }
}

pub struct Ctx {
    pub id: String,
    pub tier: Tier,
    pub seed: u64,
    pub threads: usize,
    pub root: PathBuf,
    pub start: Instant,
}

/// One observed discrepancy between the implementation and the oracle.
/// `key` is the stable classification (call site / input class / scenario) matched against
/// KNOWN_FINDINGS.txt; `case` is everything needed to re-run exactly that execution.
#[derive(Clone, Debug)]
pub struct Finding {
    pub key: String,
    pub detail: String,
    pub case: Value,
}
impl Finding {
    pub fn new(key: impl Into<String>, detail: impl Into<String>, case: Value) -> Self {
        let key: String = key.into();
        Self { key: key.replace(' ', "_"), detail: detail.into(), case }
    }
}

pub fn hash64<T: Hash + ?Sized>(t: &T) -> u64 {
    // Fixed-key SipHash (DefaultHasher::new() uses constant keys) => stable within a build.
    let mut h = std::collections::hash_map::DefaultHasher::new();
    t.hash(&mut h);
    h.finish()
}

/// Per-worker counters, merged at the end of a sweep.
#[derive(Default)]
pub struct Stats {
    pub evaluations: u64,
    pub distinct_nontrivial: HashSet<u64>,
    pub outcomes: BTreeMap<String, u64>,
    pub samples: Vec<Value>,
    pub findings: BTreeMap<String, (Finding, u64)>,
    pub counters: BTreeMap<String, u64>,
}
pub const MAX_SAMPLES: usize = 6;
impl Stats {
    pub fn new() -> Self {
        Self::default()
    }
    /// Record one evaluated case. `canon` identifies the case (distinctness), `nontrivial` is the
    /// property's rule, `outcome` a coarse class of what the implementation did.
    pub fn case<T: Hash + ?Sized>(&mut self, canon: &T, nontrivial: bool, outcome: &str) {
        self.evaluations += 1;
        if nontrivial {
            self.distinct_nontrivial.insert(hash64(canon));
        }
        *self.outcomes.entry(outcome.to_string()).or_insert(0) += 1;
    }
    pub fn outcome(&mut self, outcome: &str) {
        *self.outcomes.entry(outcome.to_string()).or_insert(0) += 1;
    }
    pub fn count(&mut self, name: &str, n: u64) {
        *self.counters.entry(name.to_string()).or_insert(0) += n;
    }
    pub fn max(&mut self, name: &str, n: u64) {
        let e = self.counters.entry(name.to_string()).or_insert(0);
        if n > *e {
            *e = n;
        }
    }
    pub fn sample(&mut self, v: impl FnOnce() -> Value) {
        if self.samples.len() < MAX_SAMPLES {
            self.samples.push(v());
        }
    }
    pub fn finding(&mut self, f: Finding) {
        match self.findings.get_mut(&f.key) {
            Some(e) => e.1 += 1,
            None => {
                self.findings.insert(f.key.clone(), (f, 1));
            }
        }
    }
    pub fn findings_from(&mut self, fs: Vec<Finding>) {
        for f in fs {
            self.finding(f);
        }
    }
    pub fn merge(&mut self, o: Stats) {
        self.evaluations += o.evaluations;
        self.distinct_nontrivial.extend(o.distinct_nontrivial);
        for (k, v) in o.outcomes {
            *self.outcomes.entry(k).or_insert(0) += v;
        }
        for (k, v) in o.counters {
            // counters named max_* merge by maximum, everything else by sum
            let e = self.counters.entry(k.clone()).or_insert(0);
            if k.starts_with("max_") {
                *e = (*e).max(v);
            } else {
                *e += v;
            }
        }
        for s in o.samples {
            if self.samples.len() < MAX_SAMPLES {
                self.samples.push(s);
            }
        }
        for (k, (f, n)) in o.findings {
            match self.findings.get_mut(&k) {
                Some(e) => e.1 += n,
                None => {
                    self.findings.insert(k, (f, n));
                }
            }
        }
    }
}

/// What a property run hands to the front end.
pub struct Run {
    pub level: &'static str,
    pub coverage: Map<String, Value>,
    pub assumptions: Vec<String>,
    pub findings: BTreeMap<String, (Finding, u64)>,
}

impl Run {
    pub fn from_stats(level: &'static str, rule: &str, exhaustive: bool, stats: Stats) -> Run {
        let mut cov = Map::new();
        cov.insert("evaluations".into(), json!(stats.evaluations));
        cov.insert("distinct_nontrivial".into(), json!(stats.distinct_nontrivial.len()));
        cov.insert("rule".into(), json!(rule));
        cov.insert("exhaustive".into(), json!(exhaustive));
        cov.insert("distinct_outcomes".into(), json!(stats.outcomes.len()));
        cov.insert("outcomes".into(), json!(stats.outcomes));
        cov.insert("counters".into(), json!(stats.counters));
        let samples = if stats.samples.is_empty() { vec![json!("(no sample recorded)")] } else { stats.samples };
        cov.insert("samples".into(), Value::Array(samples));
        Run { level, coverage: cov, assumptions: vec![], findings: stats.findings }
    }
    pub fn set(&mut self, k: &str, v: Value) -> &mut Self {
        self.coverage.insert(k.into(), v);
        self
    }
    pub fn assume(&mut self, s: &str) -> &mut Self {
        self.assumptions.push(s.into());
        self
    }
    /// model_checking level keys.
    pub fn graph(&mut self, states: u64, transitions: u64, validated: u64) -> &mut Self {
        self.set("states", json!(states));
        self.set("transitions", json!(transitions));
        self.set("traces_validated_against_impl", json!(validated));
        self
    }
}

pub struct KnownFindings {
    /// (property, key, description)
    pub known: Vec<(String, String, String)>,
    pub fixed: Vec<(String, String)>,
}

impl KnownFindings {
    pub fn load(root: &Path) -> Result<Self, String> {
        let p = root.join("KNOWN_FINDINGS.txt");
        let text = match std::fs::read_to_string(&p) {
            Ok(t) => t,
            Err(e) if e.kind() == std::io::ErrorKind::NotFound => String::new(),
            Err(e) => return Err(format!("cannot read {}: {e}", p.display())),
        };
        let mut known = vec![];
        let mut fixed = vec![];
        for (ln, line) in text.lines().enumerate() {
            let line = line.trim();
            if line.is_empty() || line.starts_with('#') {
                continue;
            }
            if let Some(rest) = line.strip_prefix("known:") {
                let mut it = rest.trim().splitn(3, ' ');
                let prop = it.next().and_then(|s| s.strip_prefix("property=")).ok_or(format!("KNOWN_FINDINGS.txt:{}: expected property=", ln + 1))?;
                let key = it.next().and_then(|s| s.strip_prefix("key=")).ok_or(format!("KNOWN_FINDINGS.txt:{}: expected key=", ln + 1))?;
                let desc = it.next().unwrap_or("");
                known.push((prop.to_string(), key.to_string(), desc.to_string()));
            } else if let Some(rest) = line.strip_prefix("fixed:") {
                let mut it = rest.trim().splitn(2, ' ');
                let prop = it.next().and_then(|s| s.strip_prefix("property=")).ok_or(format!("KNOWN_FINDINGS.txt:{}: expected property=", ln + 1))?;
                fixed.push((prop.to_string(), it.next().unwrap_or("").to_string()));
            } else {
                return Err(format!("KNOWN_FINDINGS.txt:{}: unrecognised line", ln + 1));
            }
        }
        Ok(Self { known, fixed })
    }
    pub fn lookup(&self, prop: &str, key: &str) -> Option<&str> {
        // a known finding is the same finding in a feature-variant build
        let key = match key.strip_prefix("feature=") {
            Some(rest) => rest.split_once('/').map(|x| x.1).unwrap_or(key),
            None => key,
        };
        self.known.iter().find(|(p, k, _)| p == prop && k == key).map(|(_, _, d)| d.as_str())
    }
}

pub fn sanitize(key: &str) -> String {
    let s: String = key.chars().map(|c| if c.is_ascii_alphanumeric() || c == '-' || c == '.' { c } else { '_' }).collect();
    if s.len() > 120 {
        format!("{}_{:016x}", &s[..100], hash64(key))
    } else {
        s
    }
}

pub fn write_replay(root: &Path, prop: &str, f: &Finding) -> Result<PathBuf, String> {
    let dir = root.join("replays").join(prop);
    std::fs::create_dir_all(&dir).map_err(|e| format!("mkdir {}: {e}", dir.display()))?;
    let path = dir.join(format!("{}.json", sanitize(&f.key)));
    let body = json!({"property": prop, "key": f.key, "detail": f.detail, "variant": crate::variant(), "case": f.case});
    std::fs::write(&path, serde_json::to_string_pretty(&body).unwrap()).map_err(|e| format!("write {}: {e}", path.display()))?;
    Ok(path)
}

pub fn write_evidence(ctx: &Ctx, run: &Run, violations: usize, known: &[String]) -> Result<(), String> {
    let dir = ctx.root.join("evidence");
    std::fs::create_dir_all(&dir).map_err(|e| format!("mkdir: {e}"))?;
    let mut cov = run.coverage.clone();
    cov.insert("known_findings_seen".into(), json!(known));
    let findings: Vec<Value> = run.findings.iter().map(|(k, (f, n))| json!({"key": k, "count": n, "detail": f.detail})).collect();
    cov.insert("findings".into(), json!(findings));
    let ev = json!({
        "property_id": ctx.id,
        "tier": ctx.tier.name(),
        "seed": ctx.seed,
        "level": run.level,
        "coverage": cov,
        "assumptions": run.assumptions,
        "wall_s": (crate::core::clock::real_elapsed(&ctx.start).as_secs_f64() * 1000.0).round() / 1000.0,
        "violations": violations,
    });
    let path = dir.join(format!("{}.json", ctx.id));
    if !crate::variant().is_empty() {
        // a feature-variant run adds its result to the evidence the default-feature run has just written
        let mut base: Value = std::fs::read_to_string(&path).ok().and_then(|t| serde_json::from_str(&t).ok()).ok_or_else(|| format!("variant run: no evidence of the default-feature run at {}", path.display()))?;
        let total = base["violations"].as_u64().unwrap_or(0) + violations as u64;
        base["violations"] = json!(total);
        base["wall_s"] = json!(base["wall_s"].as_f64().unwrap_or(0.0) + ev["wall_s"].as_f64().unwrap_or(0.0));
        base["coverage"]["feature_runs"][crate::variant()] = json!({"evaluations": ev["coverage"]["evaluations"], "distinct_nontrivial": ev["coverage"]["distinct_nontrivial"], "distinct_outcomes": ev["coverage"]["distinct_outcomes"], "findings": ev["coverage"]["findings"], "violations": violations, "wall_s": ev["wall_s"]});
        if let Some(a) = base["assumptions"].as_array_mut() {
            a.push(json!(format!("the check also ran against the library built as variant {} (coverage.feature_runs)", crate::variant())));
        }
        return std::fs::write(&path, serde_json::to_string_pretty(&base).unwrap() + "\n").map_err(|e| format!("write {}: {e}", path.display()));
    }
    std::fs::write(&path, serde_json::to_string_pretty(&ev).unwrap() + "\n").map_err(|e| format!("write {}: {e}", path.display()))
}
