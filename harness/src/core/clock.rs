//! Virtual clock.  The harness owns the clock the library can read: `clock_gettime` of this binary
//! is the function below (a definition in the executable takes precedence over the C library's
//! when std's reference to it is linked), which asks the kernel and adds a per-thread offset the
//! harness advances.  "Time passes while the user thinks" thus becomes an environment answer that
//! can be enumerated like any other: the thread running a ceremony jumps its clock forward at a
//! chosen suspension point; every other thread (watchdogs, wall-time budgets) keeps real time.
//! The offset only ever grows, so each thread's clock stays monotonic.
use std::cell::Cell;

thread_local! {
    static OFFSET_NS: Cell<i64> = const { Cell::new(0) };
}

/// Advance the calling thread's clocks (monotonic and real time alike) by `secs` seconds.
pub fn advance(secs: u64) {
    let _ = OFFSET_NS.try_with(|o| o.set(o.get().saturating_add((secs as i64).saturating_mul(1_000_000_000))));
}
/// Real time elapsed since `start` (an Instant taken on this thread before any advance).
pub fn real_elapsed(start: &std::time::Instant) -> std::time::Duration {
    let off = OFFSET_NS.try_with(|o| o.get()).unwrap_or(0).max(0) as u64;
    start.elapsed().saturating_sub(std::time::Duration::from_nanos(off))
}
pub fn offset_secs() -> u64 {
    OFFSET_NS.try_with(|o| (o.get() / 1_000_000_000) as u64).unwrap_or(0)
}

/// # Safety
/// Same contract as clock_gettime(2).
#[no_mangle]
pub unsafe extern "C" fn clock_gettime(clk: libc::clockid_t, tp: *mut libc::timespec) -> libc::c_int {
    let r = libc::syscall(libc::SYS_clock_gettime, clk as libc::c_long, tp) as libc::c_int;
    if r != 0 || tp.is_null() {
        return r;
    }
    // wall-clock style clocks only; CPU-time clocks measure work, not time of day
    if matches!(clk, libc::CLOCK_REALTIME | libc::CLOCK_MONOTONIC | libc::CLOCK_MONOTONIC_RAW | libc::CLOCK_BOOTTIME | libc::CLOCK_REALTIME_COARSE | libc::CLOCK_MONOTONIC_COARSE) {
        let off = OFFSET_NS.try_with(|o| o.get()).unwrap_or(0);
        if off != 0 {
            let t = &mut *tp;
            let total = (t.tv_nsec as i64) + off % 1_000_000_000;
            t.tv_sec += (off / 1_000_000_000) as libc::time_t + (total / 1_000_000_000) as libc::time_t;
            t.tv_nsec = (total % 1_000_000_000) as _;
        }
    }
    r
}

/// Self-test: the override is the function std uses (run once per check that relies on it).
pub fn self_test() -> Result<(), String> {
    std::thread::spawn(|| {
        let a = std::time::Instant::now();
        let s = std::time::SystemTime::now();
        advance(3600);
        let d = a.elapsed().as_secs();
        let ds = s.elapsed().map(|x| x.as_secs()).unwrap_or(0);
        if (3600..3605).contains(&d) && (3600..3605).contains(&ds) {
            Ok(())
        } else {
            Err(format!("virtual clock not in effect: after advancing one hour Instant moved {d} s, SystemTime {ds} s"))
        }
    })
    .join()
    .map_err(|_| "clock self-test panicked".to_string())?
}
